//go:build verif

package net

// VFBuffered reports how many packets and payload bytes the buffer holds (harness-only accessor, injected with -overlay).
func (b *PacketBuffer) VFBuffered() (packets, size int) {
	b.mutex.Lock()
	defer b.mutex.Unlock()
	n := b.write - b.read
	if n < 0 || (n == 0 && b.full) {
		n += len(b.packets)
	}
	for i := 0; i < n; i++ {
		size += b.packets[(b.read+i)%len(b.packets)].data.Len()
	}

	return n, size
}
