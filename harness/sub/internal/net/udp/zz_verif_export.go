//go:build verif

package udp

// VFBuffered reports what the connection's receive buffer holds (harness-only accessor, injected with -overlay).
func (c *PacketConn) VFBuffered() (packets, size int) { return c.buffer.VFBuffered() }
