//go:build verif

package dtlshandshake

// VFPostHandshakeSizes returns the sizes of the post-handshake containers of a DTLS 1.3 FSM
// (harness-only accessor, injected with -overlay). Must be called at quiescence.
func VFPostHandshakeSizes(f FSM) (queue, flights, recordIndex int, ok bool) {
	s, isFSM13 := f.(*fsm13)
	if !isFSM13 || s.postHandshake == nil {
		return 0, 0, 0, false
	}

	return len(s.postHandshake.queue), len(s.postHandshake.flights), len(s.postHandshake.recordIndex), true
}

// VFFSMFlights returns the number of packets retained in the current flight.
func VFFSMFlights(f FSM) int {
	switch s := f.(type) {
	case *fsm13:
		return len(s.flights)
	case *fsm12:
		return len(s.flights)
	}

	return 0
}
