//go:build verif

package flight

// VFItems returns a snapshot of the cached handshake messages (harness-only accessor, injected with -overlay).
func (h *Cache) VFItems() []*HandshakeCacheItem {
	h.mu.Lock()
	defer h.mu.Unlock()

	return append([]*HandshakeCacheItem(nil), h.cache...)
}

// VFLen returns the number of cached items.
func (h *Cache) VFLen() int {
	h.mu.Lock()
	defer h.mu.Unlock()

	return len(h.cache)
}
