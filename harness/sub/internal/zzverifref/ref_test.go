//go:build verif

package zzverifref

// Self-check of the reference against published vectors, so that a broken reference cannot
// silently agree with a broken library. Run by `check --setup` and by every C10 run.

import (
	"bytes"
	"crypto/aes"
	"crypto/sha256"
	"encoding/hex"
	"testing"
)

func unhex(t *testing.T, s string) []byte {
	t.Helper()
	b, err := hex.DecodeString(s)
	if err != nil {
		t.Fatal(err)
	}

	return b
}

func TestVFRefSelfTest(t *testing.T) {
	if err := SelfTest(); err != nil {
		t.Fatal(err)
	}
}

func TestVFRefVectors(t *testing.T) {
	// RFC 5869 A.1
	ikm := bytes.Repeat([]byte{0x0b}, 22)
	salt := unhex(t, "000102030405060708090a0b0c")
	info := unhex(t, "f0f1f2f3f4f5f6f7f8f9")
	prk := HKDFExtract(sha256.New, salt, ikm)
	if hex.EncodeToString(prk) != "077709362c2e32df0ddc3f0dc47bba6390b6c73bb50f9c3122ec844ad7c2b3e5" {
		t.Fatalf("RFC 5869 PRK mismatch: %x", prk)
	}
	okm := HKDFExpand(sha256.New, prk, info, 42)
	if hex.EncodeToString(okm) != "3cb25f25faacd57a90434f64d0362f2a2d2d0a90cf1a5a4c5db02d56ecc4c5bf34007208d5b887185865" {
		t.Fatalf("RFC 5869 OKM mismatch: %x", okm)
	}
	// RFC 8448 Section 3: early secret and "derived"
	early := HKDFExtract(sha256.New, nil, make([]byte, 32))
	if hex.EncodeToString(early) != "33ad0a1c607ec03b09e6cd9893680ce210adf300aa1f2660e1b22e10f170f92a" {
		t.Fatalf("RFC 8448 early secret mismatch: %x", early)
	}
	derived := DeriveSecret(sha256.New, "tls13 ", early, "derived", nil)
	if hex.EncodeToString(derived) != "6f2615a108c702c5678f54fc9dbab69716c076189c48250cebeac3576c3611ba" {
		t.Fatalf("RFC 8448 derived secret mismatch: %x", derived)
	}
	// RFC 3610 packet vector #1
	key := unhex(t, "c0c1c2c3c4c5c6c7c8c9cacbcccdcecf")
	nonce := unhex(t, "00000003020100a0a1a2a3a4a5")
	pkt := unhex(t, "000102030405060708090a0b0c0d0e0f101112131415161718191a1b1c1d1e")
	b, _ := aes.NewCipher(key)
	c, err := NewCCM(b, 8, 13)
	if err != nil {
		t.Fatal(err)
	}
	out := c.Seal(nil, nonce, pkt[8:], pkt[:8])
	if hex.EncodeToString(out) != "588c979a61c663d2f066d0c2c0f989806d5f6b61dac38417e8d12cfdf926e0" {
		t.Fatalf("RFC 3610 #1 mismatch: %x", out)
	}
	pt, err := c.Open(nil, nonce, out, pkt[:8])
	if err != nil || !bytes.Equal(pt, pkt[8:]) {
		t.Fatalf("RFC 3610 #1 open failed: %v", err)
	}
	out[3] ^= 1
	if _, err := c.Open(nil, nonce, out, pkt[:8]); err == nil {
		t.Fatal("CCM accepted a corrupted ciphertext")
	}
}
