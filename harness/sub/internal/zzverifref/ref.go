//go:build verif

// Package zzverifref is the harness's independent reference implementation of the RFC formulas
// pion/dtls must conform to (TLS 1.2 PRF and record protection, RFC 9146 connection-ID variants,
// the TLS 1.3 key schedule with the DTLS 1.3 label prefix, RFC 9147 record protection and
// sequence-number encryption). It uses only the Go standard library and
// golang.org/x/crypto/chacha20(+poly1305) primitives and shares no code with pion/dtls.
// It is injected with -overlay and never compiled into the product.
package zzverifref

import (
	"bytes"
	"crypto/aes"
	"crypto/cipher"
	"crypto/hmac"
	"crypto/sha1" //nolint:gosec
	"crypto/sha256"
	"crypto/sha512"
	"crypto/subtle"
	"encoding/binary"
	"errors"
	"fmt"
	"hash"

	"golang.org/x/crypto/chacha20"
	"golang.org/x/crypto/chacha20poly1305"
)

var ErrAuth = errors.New("zzverifref: authentication failed")

// ---------------------------------------------------------------------------------------------
// TLS 1.2 PRF (RFC 5246 Section 5)

func PHash(h func() hash.Hash, secret, seed []byte, n int) []byte {
	out := make([]byte, 0, n+64)
	a := seed
	for len(out) < n {
		m := hmac.New(h, secret)
		m.Write(a)
		a = m.Sum(nil)
		m = hmac.New(h, secret)
		m.Write(a)
		m.Write(seed)
		out = m.Sum(out)
	}

	return out[:n]
}

func PRF12(h func() hash.Hash, secret []byte, label string, seed []byte, n int) []byte {
	return PHash(h, secret, append([]byte(label), seed...), n)
}

func MasterSecret(h func() hash.Hash, pre, clientRandom, serverRandom []byte) []byte {
	return PRF12(h, pre, "master secret", append(append([]byte{}, clientRandom...), serverRandom...), 48)
}

func ExtendedMasterSecret(h func() hash.Hash, pre, sessionHash []byte) []byte {
	return PRF12(h, pre, "extended master secret", sessionHash, 48)
}

func VerifyData12(h func() hash.Hash, master []byte, client bool, handshakeMessages []byte) []byte {
	hh := h()
	hh.Write(handshakeMessages)
	label := "server finished"
	if client {
		label = "client finished"
	}

	return PRF12(h, master, label, hh.Sum(nil), 12)
}

func Exporter12(h func() hash.Hash, master []byte, label string, clientRandom, serverRandom []byte, n int) []byte {
	return PRF12(h, master, label, append(append([]byte{}, clientRandom...), serverRandom...), n)
}

// PSKPreMaster: RFC 4279 plain PSK: uint16 len ‖ zeros(len) ‖ uint16 len ‖ psk.
func PSKPreMaster(psk []byte) []byte {
	out := make([]byte, 0, 4+2*len(psk))
	out = binary.BigEndian.AppendUint16(out, uint16(len(psk)))
	out = append(out, make([]byte, len(psk))...)
	out = binary.BigEndian.AppendUint16(out, uint16(len(psk)))

	return append(out, psk...)
}

// ECDHEPSKPreMaster: RFC 5489: uint16 len(Z) ‖ Z ‖ uint16 len(psk) ‖ psk.
func ECDHEPSKPreMaster(z, psk []byte) []byte {
	out := binary.BigEndian.AppendUint16(nil, uint16(len(z)))
	out = append(out, z...)
	out = binary.BigEndian.AppendUint16(out, uint16(len(psk)))

	return append(out, psk...)
}

// Suite12 describes the record protection of a DTLS 1.2 cipher suite.
type Suite12 struct {
	ID      uint16
	Kind    string // gcm | ccm | chacha | cbc
	KeyLen  int
	IVLen   int // length taken from the key block
	MACLen  int // cbc only
	TagLen  int // aead
	PRFHash func() hash.Hash
	MACHash func() hash.Hash
}

func Suites12() map[uint16]Suite12 {
	s256, s384 := sha256.New, sha512.New384
	m := map[uint16]Suite12{}
	add := func(id uint16, kind string, key, iv, mac, tag int, prf, mh func() hash.Hash) {
		m[id] = Suite12{ID: id, Kind: kind, KeyLen: key, IVLen: iv, MACLen: mac, TagLen: tag, PRFHash: prf, MACHash: mh}
	}
	add(0xc0ac, "ccm", 16, 4, 0, 16, s256, nil)       // ECDHE_ECDSA_AES_128_CCM
	add(0xc0ae, "ccm", 16, 4, 0, 8, s256, nil)        // ECDHE_ECDSA_AES_128_CCM_8
	add(0xc02b, "gcm", 16, 4, 0, 16, s256, nil)       // ECDHE_ECDSA_AES_128_GCM_SHA256
	add(0xc02f, "gcm", 16, 4, 0, 16, s256, nil)       // ECDHE_RSA_AES_128_GCM_SHA256
	add(0xc02c, "gcm", 32, 4, 0, 16, s384, nil)       // ECDHE_ECDSA_AES_256_GCM_SHA384
	add(0xc030, "gcm", 32, 4, 0, 16, s384, nil)       // ECDHE_RSA_AES_256_GCM_SHA384
	add(0xc00a, "cbc", 32, 16, 20, 0, s256, sha1.New) // ECDHE_ECDSA_AES_256_CBC_SHA
	add(0xc014, "cbc", 32, 16, 20, 0, s256, sha1.New) // ECDHE_RSA_AES_256_CBC_SHA
	add(0xc0a4, "ccm", 16, 4, 0, 16, s256, nil)       // PSK_AES_128_CCM
	add(0xc0a8, "ccm", 16, 4, 0, 8, s256, nil)        // PSK_AES_128_CCM_8
	add(0xc0a9, "ccm", 32, 4, 0, 8, s256, nil)        // PSK_AES_256_CCM_8
	add(0x00a8, "gcm", 16, 4, 0, 16, s256, nil)       // PSK_AES_128_GCM_SHA256
	add(0x00ae, "cbc", 16, 16, 32, 0, s256, s256)     // PSK_AES_128_CBC_SHA256
	add(0xc037, "cbc", 16, 16, 32, 0, s256, s256)     // ECDHE_PSK_AES_128_CBC_SHA256
	add(0xcca9, "chacha", 32, 12, 0, 16, s256, nil)   // ECDHE_ECDSA_CHACHA20_POLY1305
	add(0xcca8, "chacha", 32, 12, 0, 16, s256, nil)   // ECDHE_RSA_CHACHA20_POLY1305
	add(0xccab, "chacha", 32, 12, 0, 16, s256, nil)   // PSK_CHACHA20_POLY1305

	return m
}

// Keys12 is one direction's slice of the key block.
type Keys12 struct{ MAC, Key, IV []byte }

// KeyBlock12 partitions PRF(master, "key expansion", server_random ‖ client_random).
func KeyBlock12(s Suite12, master, clientRandom, serverRandom []byte) (client, server Keys12) {
	n := 2*s.MACLen + 2*s.KeyLen + 2*s.IVLen
	kb := PRF12(s.PRFHash, master, "key expansion", append(append([]byte{}, serverRandom...), clientRandom...), n)
	take := func(k int) []byte {
		v := kb[:k]
		kb = kb[k:]

		return v
	}
	client.MAC, server.MAC = take(s.MACLen), take(s.MACLen)
	client.Key, server.Key = take(s.KeyLen), take(s.KeyLen)
	client.IV, server.IV = take(s.IVLen), take(s.IVLen)

	return client, server
}

// Rec12 is a parsed DTLS 1.2 record header plus body.
type Rec12 struct {
	Type    uint8 // 25 = tls12_cid
	Version [2]byte
	Epoch   uint16
	Seq     uint64
	CID     []byte
	Body    []byte
}

func (r Rec12) seqNum() []byte {
	b := make([]byte, 8)
	binary.BigEndian.PutUint64(b, uint64(r.Epoch)<<48|r.Seq&0xffffffffffff)

	return b
}

func (r Rec12) aad(plainLen int) []byte {
	if r.Type == 25 {
		// RFC 9146 Section 5.2
		out := bytes.Repeat([]byte{0xff}, 8)
		out = append(out, 25, byte(len(r.CID)), 25, r.Version[0], r.Version[1])
		out = append(out, r.seqNum()...)
		out = append(out, r.CID...)

		return binary.BigEndian.AppendUint16(out, uint16(plainLen))
	}
	out := r.seqNum()
	out = append(out, r.Type, r.Version[0], r.Version[1])

	return binary.BigEndian.AppendUint16(out, uint16(plainLen))
}

func (r Rec12) header(bodyLen int) []byte {
	out := []byte{r.Type, r.Version[0], r.Version[1]}
	out = append(out, r.seqNum()...)
	out = append(out, r.CID...)

	return binary.BigEndian.AppendUint16(out, uint16(bodyLen))
}

func aeadFor(s Suite12, key []byte) (cipher.AEAD, error) {
	switch s.Kind {
	case "gcm":
		b, err := aes.NewCipher(key)
		if err != nil {
			return nil, err
		}

		return cipher.NewGCM(b)
	case "ccm":
		b, err := aes.NewCipher(key)
		if err != nil {
			return nil, err
		}

		return NewCCM(b, s.TagLen, 12)
	case "chacha":
		return chacha20poly1305.New(key)
	}

	return nil, fmt.Errorf("no aead for %s", s.Kind)
}

// Open12 decrypts the record body with the sender's keys and returns the plaintext fragment
// (for tls12_cid records: the DTLSInnerPlaintext).
func Open12(s Suite12, k Keys12, r Rec12) ([]byte, error) {
	switch s.Kind {
	case "gcm", "ccm":
		if len(r.Body) < 8+s.TagLen {
			return nil, ErrAuth
		}
		a, err := aeadFor(s, k.Key)
		if err != nil {
			return nil, err
		}
		nonce := append(append([]byte{}, k.IV...), r.Body[:8]...)
		ct := r.Body[8:]
		pt, err := a.Open(nil, nonce, ct, r.aad(len(ct)-s.TagLen))
		if err != nil {
			return nil, ErrAuth
		}

		return pt, nil
	case "chacha":
		if len(r.Body) < 16 {
			return nil, ErrAuth
		}
		a, err := aeadFor(s, k.Key)
		if err != nil {
			return nil, err
		}
		nonce := make([]byte, 12)
		copy(nonce[4:], r.seqNum())
		for i := range nonce {
			nonce[i] ^= k.IV[i]
		}
		pt, err := a.Open(nil, nonce, r.Body, r.aad(len(r.Body)-16))
		if err != nil {
			return nil, ErrAuth
		}

		return pt, nil
	case "cbc":
		if len(r.Body) < 32 || len(r.Body)%16 != 0 {
			return nil, ErrAuth
		}
		b, err := aes.NewCipher(k.Key)
		if err != nil {
			return nil, err
		}
		pt := make([]byte, len(r.Body)-16)
		cipher.NewCBCDecrypter(b, r.Body[:16]).CryptBlocks(pt, r.Body[16:])
		pad := int(pt[len(pt)-1])
		if pad+1+s.MACLen > len(pt) {
			return nil, ErrAuth
		}
		for _, x := range pt[len(pt)-1-pad:] {
			if int(x) != pad {
				return nil, ErrAuth
			}
		}
		content := pt[:len(pt)-1-pad-s.MACLen]
		mac := pt[len(content) : len(content)+s.MACLen]
		if subtle.ConstantTimeCompare(mac, MAC12(s, k.MAC, r, content)) != 1 {
			return nil, ErrAuth
		}

		return content, nil
	}

	return nil, fmt.Errorf("kind %s", s.Kind)
}

// MAC12: RFC 5246 6.2.3.1 and, for tls12_cid records, RFC 9146 Section 5.1.
func MAC12(s Suite12, macKey []byte, r Rec12, content []byte) []byte {
	m := hmac.New(s.MACHash, macKey)
	m.Write(r.aad(len(content))) // same layout as the AEAD additional data
	m.Write(content)

	return m.Sum(nil)
}

// Seal12 produces a complete record (header and protected body). explicit is the 8-byte explicit
// nonce (gcm/ccm) or the 16-byte IV (cbc); padLen is the CBC padding length byte (-1: minimal).
func Seal12(s Suite12, k Keys12, r Rec12, plain, explicit []byte, padLen int) ([]byte, error) {
	var body []byte
	switch s.Kind {
	case "gcm", "ccm":
		a, err := aeadFor(s, k.Key)
		if err != nil {
			return nil, err
		}
		nonce := append(append([]byte{}, k.IV...), explicit...)
		body = append(append([]byte{}, explicit...), a.Seal(nil, nonce, plain, r.aad(len(plain)))...)
	case "chacha":
		a, err := aeadFor(s, k.Key)
		if err != nil {
			return nil, err
		}
		nonce := make([]byte, 12)
		copy(nonce[4:], r.seqNum())
		for i := range nonce {
			nonce[i] ^= k.IV[i]
		}
		body = a.Seal(nil, nonce, plain, r.aad(len(plain)))
	case "cbc":
		pt := append(append([]byte{}, plain...), MAC12(s, k.MAC, r, plain)...)
		if padLen < 0 {
			padLen = 15 - len(pt)%16
		}
		pt = append(pt, bytes.Repeat([]byte{byte(padLen)}, padLen+1)...)
		if len(pt)%16 != 0 {
			return nil, fmt.Errorf("cbc: padding %d does not align %d bytes", padLen, len(pt))
		}
		b, err := aes.NewCipher(k.Key)
		if err != nil {
			return nil, err
		}
		ct := make([]byte, len(pt))
		cipher.NewCBCEncrypter(b, explicit).CryptBlocks(ct, pt)
		body = append(append([]byte{}, explicit...), ct...)
	}

	return append(r.header(len(body)), body...), nil
}

// ---------------------------------------------------------------------------------------------
// AES-CCM (RFC 3610), generic in tag and nonce length.

type ccm struct {
	b        cipher.Block
	tagLen   int
	nonceLen int
}

func NewCCM(b cipher.Block, tagLen, nonceLen int) (cipher.AEAD, error) {
	if b.BlockSize() != 16 || tagLen < 4 || tagLen > 16 || tagLen%2 != 0 || nonceLen < 7 || nonceLen > 13 {
		return nil, errors.New("ccm: bad parameters")
	}

	return &ccm{b, tagLen, nonceLen}, nil
}

func (c *ccm) NonceSize() int { return c.nonceLen }
func (c *ccm) Overhead() int  { return c.tagLen }

func (c *ccm) mac(nonce, plain, aad []byte) []byte {
	l := 15 - c.nonceLen
	var b0 [16]byte
	if len(aad) > 0 {
		b0[0] |= 0x40
	}
	b0[0] |= byte((c.tagLen-2)/2) << 3
	b0[0] |= byte(l - 1)
	copy(b0[1:], nonce)
	ml := uint64(len(plain))
	for i := 0; i < l; i++ {
		b0[15-i] = byte(ml >> (8 * uint(i)))
	}
	x := make([]byte, 16)
	c.b.Encrypt(x, b0[:])
	absorb := func(data []byte) {
		for len(data) > 0 {
			var blk [16]byte
			n := copy(blk[:], data)
			data = data[n:]
			for i := range blk {
				x[i] ^= blk[i]
			}
			c.b.Encrypt(x, x)
		}
	}
	if len(aad) > 0 {
		var hdr []byte
		switch {
		case len(aad) < 0xff00:
			hdr = binary.BigEndian.AppendUint16(nil, uint16(len(aad)))
		default:
			hdr = append([]byte{0xff, 0xfe}, binary.BigEndian.AppendUint32(nil, uint32(len(aad)))...)
		}
		absorb(append(hdr, aad...))
	}
	absorb(plain)

	return x[:c.tagLen]
}

func (c *ccm) ctr(nonce []byte, i uint64) []byte {
	l := 15 - c.nonceLen
	var a [16]byte
	a[0] = byte(l - 1)
	copy(a[1:], nonce)
	for k := 0; k < l; k++ {
		a[15-k] = byte(i >> (8 * uint(k)))
	}
	out := make([]byte, 16)
	c.b.Encrypt(out, a[:])

	return out
}

func (c *ccm) crypt(nonce, in []byte) []byte {
	out := make([]byte, len(in))
	for off, i := 0, uint64(1); off < len(in); off, i = off+16, i+1 {
		ks := c.ctr(nonce, i)
		for k := 0; k < 16 && off+k < len(in); k++ {
			out[off+k] = in[off+k] ^ ks[k]
		}
	}

	return out
}

func (c *ccm) Seal(dst, nonce, plaintext, aad []byte) []byte {
	t := c.mac(nonce, plaintext, aad)
	s0 := c.ctr(nonce, 0)
	tag := make([]byte, c.tagLen)
	for i := range tag {
		tag[i] = t[i] ^ s0[i]
	}

	return append(append(dst, c.crypt(nonce, plaintext)...), tag...)
}

func (c *ccm) Open(dst, nonce, ciphertext, aad []byte) ([]byte, error) {
	if len(ciphertext) < c.tagLen || len(nonce) != c.nonceLen {
		return nil, ErrAuth
	}
	ct, tag := ciphertext[:len(ciphertext)-c.tagLen], ciphertext[len(ciphertext)-c.tagLen:]
	pt := c.crypt(nonce, ct)
	t := c.mac(nonce, pt, aad)
	s0 := c.ctr(nonce, 0)
	want := make([]byte, c.tagLen)
	for i := range want {
		want[i] = t[i] ^ s0[i]
	}
	if subtle.ConstantTimeCompare(want, tag) != 1 {
		return nil, ErrAuth
	}

	return append(dst, pt...), nil
}

// ---------------------------------------------------------------------------------------------
// TLS 1.3 key schedule (RFC 8446 Section 7.1) with a parameterised label prefix
// ("tls13 " for RFC 8448 vectors, "dtls13" for DTLS 1.3, RFC 9147 Section 5.9).

func HKDFExtract(h func() hash.Hash, salt, ikm []byte) []byte {
	if len(salt) == 0 {
		salt = make([]byte, h().Size())
	}
	m := hmac.New(h, salt)
	m.Write(ikm)

	return m.Sum(nil)
}

func HKDFExpand(h func() hash.Hash, prk, info []byte, n int) []byte {
	var out, t []byte
	for i := byte(1); len(out) < n; i++ {
		m := hmac.New(h, prk)
		m.Write(t)
		m.Write(info)
		m.Write([]byte{i})
		t = m.Sum(nil)
		out = append(out, t...)
	}

	return out[:n]
}

func ExpandLabel(h func() hash.Hash, prefix string, secret []byte, label string, context []byte, n int) []byte {
	info := binary.BigEndian.AppendUint16(nil, uint16(n))
	full := prefix + label
	info = append(info, byte(len(full)))
	info = append(info, full...)
	info = append(info, byte(len(context)))
	info = append(info, context...)

	return HKDFExpand(h, secret, info, n)
}

func DeriveSecret(h func() hash.Hash, prefix string, secret []byte, label string, transcriptHash []byte) []byte {
	if transcriptHash == nil {
		hh := h()
		transcriptHash = hh.Sum(nil)
	}

	return ExpandLabel(h, prefix, secret, label, transcriptHash, h().Size())
}

const DTLS13Prefix = "dtls13"

// Schedule13 holds the secrets derivable from (ECDHE, transcript hashes).
type Schedule13 struct {
	Early, Handshake, Master           []byte
	ClientHS, ServerHS                 []byte
	ClientApp0, ServerApp0, ExporterMS []byte
}

func KeySchedule13(h func() hash.Hash, prefix string, ecdhe, thCHSH, thCHSF []byte) Schedule13 {
	var s Schedule13
	zeros := make([]byte, h().Size())
	s.Early = HKDFExtract(h, nil, zeros)
	s.Handshake = HKDFExtract(h, DeriveSecret(h, prefix, s.Early, "derived", nil), ecdhe)
	s.ClientHS = DeriveSecret(h, prefix, s.Handshake, "c hs traffic", thCHSH)
	s.ServerHS = DeriveSecret(h, prefix, s.Handshake, "s hs traffic", thCHSH)
	s.Master = HKDFExtract(h, DeriveSecret(h, prefix, s.Handshake, "derived", nil), zeros)
	if thCHSF != nil {
		s.ClientApp0 = DeriveSecret(h, prefix, s.Master, "c ap traffic", thCHSF)
		s.ServerApp0 = DeriveSecret(h, prefix, s.Master, "s ap traffic", thCHSF)
		s.ExporterMS = DeriveSecret(h, prefix, s.Master, "exp master", thCHSF)
	}

	return s
}

func NextTrafficSecret(h func() hash.Hash, prefix string, secret []byte) []byte {
	return ExpandLabel(h, prefix, secret, "traffic upd", nil, h().Size())
}

func FinishedKey(h func() hash.Hash, prefix string, base []byte) []byte {
	return ExpandLabel(h, prefix, base, "finished", nil, h().Size())
}

func Finished13(h func() hash.Hash, prefix string, base, transcriptHash []byte) []byte {
	m := hmac.New(h, FinishedKey(h, prefix, base))
	m.Write(transcriptHash)

	return m.Sum(nil)
}

func Exporter13(h func() hash.Hash, prefix string, exporterMS []byte, label string, context []byte, n int) []byte {
	hh := h()
	hh.Write(context)

	return ExpandLabel(h, prefix, DeriveSecret(h, prefix, exporterMS, label, nil), "exporter", hh.Sum(nil), n)
}

// Suite13 describes a TLS 1.3 AEAD suite.
type Suite13 struct {
	ID     uint16
	Kind   string // gcm | chacha
	KeyLen int
	Hash   func() hash.Hash
}

func Suites13() map[uint16]Suite13 {
	return map[uint16]Suite13{
		0x1301: {0x1301, "gcm", 16, sha256.New},
		0x1302: {0x1302, "gcm", 32, sha512.New384},
		0x1303: {0x1303, "chacha", 32, sha256.New},
	}
}

// Traffic13 is the key material of one traffic secret.
type Traffic13 struct{ Key, IV, SN []byte }

func TrafficKeys13(s Suite13, prefix string, secret []byte) Traffic13 {
	return Traffic13{
		Key: ExpandLabel(s.Hash, prefix, secret, "key", nil, s.KeyLen),
		IV:  ExpandLabel(s.Hash, prefix, secret, "iv", nil, 12),
		SN:  ExpandLabel(s.Hash, prefix, secret, "sn", nil, s.KeyLen),
	}
}

// SNMask13: RFC 9147 Section 4.2.3.
func SNMask13(s Suite13, snKey, ciphertext []byte) ([]byte, error) {
	if len(ciphertext) < 16 {
		return nil, errors.New("ciphertext shorter than 16 bytes")
	}
	if s.Kind == "chacha" {
		c, err := chacha20.NewUnauthenticatedCipher(snKey, ciphertext[4:16])
		if err != nil {
			return nil, err
		}
		c.SetCounter(binary.LittleEndian.Uint32(ciphertext[:4]))
		mask := make([]byte, 16)
		c.XORKeyStream(mask, mask)

		return mask, nil
	}
	b, err := aes.NewCipher(snKey)
	if err != nil {
		return nil, err
	}
	mask := make([]byte, 16)
	b.Encrypt(mask, ciphertext[:16])

	return mask, nil
}

// Rec13 is a DTLS 1.3 ciphertext record split into unified header and encrypted part.
type Rec13 struct {
	Header []byte // as on the wire (sequence number bytes masked)
	SeqOff int    // offset of the sequence number bytes inside Header
	SeqLen int    // 1 or 2
	Enc    []byte
}

// ParseRec13 parses one unified-header record occupying all of b (or its declared length).
func ParseRec13(b []byte, cidLen int) (Rec13, int, error) {
	if len(b) < 1 || b[0]&0xe0 != 0x20 {
		return Rec13{}, 0, errors.New("not a unified header")
	}
	p := 1
	if b[0]&0x10 != 0 {
		p += cidLen
	}
	r := Rec13{SeqOff: p, SeqLen: 1}
	if b[0]&0x08 != 0 {
		r.SeqLen = 2
	}
	p += r.SeqLen
	end := len(b)
	if b[0]&0x04 != 0 {
		if p+2 > len(b) {
			return Rec13{}, 0, errors.New("short")
		}
		end = p + 2 + int(binary.BigEndian.Uint16(b[p:]))
		p += 2
	}
	if p > len(b) || end > len(b) || end < p {
		return Rec13{}, 0, errors.New("short")
	}
	r.Header = b[:p]
	r.Enc = b[p:end]

	return r, end, nil
}

// Open13 unmasks the sequence number, reconstructs it next to expected, and opens the record.
// Returns content, real content type, full sequence number.
func Open13(s Suite13, t Traffic13, r Rec13, expected uint64) ([]byte, uint8, uint64, error) {
	mask, err := SNMask13(s, t.SN, r.Enc)
	if err != nil {
		return nil, 0, 0, err
	}
	hdr := append([]byte{}, r.Header...)
	var partial uint64
	for i := 0; i < r.SeqLen; i++ {
		hdr[r.SeqOff+i] ^= mask[i]
		partial = partial<<8 | uint64(hdr[r.SeqOff+i])
	}
	bits := uint(8 * r.SeqLen)
	win := uint64(1) << bits
	cand := expected&^(win-1) | partial
	best, bestD := cand, absDiff(cand, expected)
	if cand >= win && absDiff(cand-win, expected) < bestD {
		best, bestD = cand-win, absDiff(cand-win, expected)
	}
	if absDiff(cand+win, expected) < bestD {
		best = cand + win
	}
	var a cipher.AEAD
	if s.Kind == "chacha" {
		a, err = chacha20poly1305.New(t.Key)
	} else {
		var b cipher.Block
		if b, err = aes.NewCipher(t.Key); err == nil {
			a, err = cipher.NewGCM(b)
		}
	}
	if err != nil {
		return nil, 0, 0, err
	}
	nonce := make([]byte, 12)
	binary.BigEndian.PutUint64(nonce[4:], best)
	for i := range nonce {
		nonce[i] ^= t.IV[i]
	}
	pt, err := a.Open(nil, nonce, r.Enc, hdr)
	if err != nil {
		return nil, 0, 0, ErrAuth
	}
	i := len(pt) - 1
	for i >= 0 && pt[i] == 0 {
		i--
	}
	if i < 0 {
		return nil, 0, best, errors.New("inner plaintext without content type")
	}

	return pt[:i], pt[i], best, nil
}

// Seal13 builds a record: hdrClear is the unified header with the clear low sequence bits.
func Seal13(s Suite13, t Traffic13, hdrClear []byte, seqOff, seqLen int, seq uint64, content []byte, realType uint8, pad int) ([]byte, error) {
	var a cipher.AEAD
	var err error
	if s.Kind == "chacha" {
		a, err = chacha20poly1305.New(t.Key)
	} else {
		var b cipher.Block
		if b, err = aes.NewCipher(t.Key); err == nil {
			a, err = cipher.NewGCM(b)
		}
	}
	if err != nil {
		return nil, err
	}
	nonce := make([]byte, 12)
	binary.BigEndian.PutUint64(nonce[4:], seq)
	for i := range nonce {
		nonce[i] ^= t.IV[i]
	}
	inner := append(append(append([]byte{}, content...), realType), make([]byte, pad)...)
	enc := a.Seal(nil, nonce, inner, hdrClear)
	mask, err := SNMask13(s, t.SN, enc)
	if err != nil {
		return nil, err
	}
	hdr := append([]byte{}, hdrClear...)
	for i := 0; i < seqLen; i++ {
		hdr[seqOff+i] ^= mask[i]
	}

	return append(hdr, enc...), nil
}

func absDiff(a, b uint64) uint64 {
	if a > b {
		return a - b
	}

	return b - a
}

// SelfTest checks the reference against published vectors (RFC 5869 A.1, RFC 8448 Section 3,
// RFC 3610 packet vector #1). Called by every C10 run and by the package's own test.
func SelfTest() error {
	unhex := func(s string) []byte {
		b := make([]byte, len(s)/2)
		for i := range b {
			fmt.Sscanf(s[2*i:2*i+2], "%02x", &b[i])
		}

		return b
	}
	prk := HKDFExtract(sha256.New, unhex("000102030405060708090a0b0c"), bytes.Repeat([]byte{0x0b}, 22))
	if !bytes.Equal(prk, unhex("077709362c2e32df0ddc3f0dc47bba6390b6c73bb50f9c3122ec844ad7c2b3e5")) {
		return errors.New("RFC 5869 PRK mismatch")
	}
	okm := HKDFExpand(sha256.New, prk, unhex("f0f1f2f3f4f5f6f7f8f9"), 42)
	if !bytes.Equal(okm, unhex("3cb25f25faacd57a90434f64d0362f2a2d2d0a90cf1a5a4c5db02d56ecc4c5bf34007208d5b887185865")) {
		return errors.New("RFC 5869 OKM mismatch")
	}
	early := HKDFExtract(sha256.New, nil, make([]byte, 32))
	if !bytes.Equal(early, unhex("33ad0a1c607ec03b09e6cd9893680ce210adf300aa1f2660e1b22e10f170f92a")) {
		return errors.New("RFC 8448 early secret mismatch")
	}
	if !bytes.Equal(DeriveSecret(sha256.New, "tls13 ", early, "derived", nil), unhex("6f2615a108c702c5678f54fc9dbab69716c076189c48250cebeac3576c3611ba")) {
		return errors.New("RFC 8448 derived secret mismatch")
	}
	b, _ := aes.NewCipher(unhex("c0c1c2c3c4c5c6c7c8c9cacbcccdcecf"))
	c, err := NewCCM(b, 8, 13)
	if err != nil {
		return err
	}
	pkt := unhex("000102030405060708090a0b0c0d0e0f101112131415161718191a1b1c1d1e")
	out := c.Seal(nil, unhex("00000003020100a0a1a2a3a4a5"), pkt[8:], pkt[:8])
	if !bytes.Equal(out, unhex("588c979a61c663d2f066d0c2c0f989806d5f6b61dac38417e8d12cfdf926e0")) {
		return errors.New("RFC 3610 vector #1 mismatch")
	}

	return nil
}
