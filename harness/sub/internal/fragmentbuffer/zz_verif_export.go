//go:build verif

package fragmentbuffer

// VFStats reports the buffer's accounting and actual content (harness-only accessor, injected with -overlay).
func (f *FragmentBuffer) VFStats() (totalSize, totalCount, messages, actualFragments, actualBytes int) {
	for _, m := range f.cache {
		messages++
		for _, fr := range m.fragmentByOffset {
			actualFragments++
			actualBytes += len(fr.data)
		}
	}

	return f.totalBufferSize, f.totalFragmentCount, messages, actualFragments, actualBytes
}

// VFLimits returns the stated limits.
func VFLimits() (maxSize, maxCount int) { return fragmentBufferMaxSize, fragmentBufferMaxCount }
