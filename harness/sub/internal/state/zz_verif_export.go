//go:build verif

package state

// VFCounts returns the number of retained generations (harness-only accessor, injected with -overlay).
func (s *TrafficKeyState) VFCounts() (writeOld, readOld int) {
	if s == nil {
		return 0, 0
	}
	s.mu.RLock()
	defer s.mu.RUnlock()

	return len(s.writeOld), len(s.readOld)
}
