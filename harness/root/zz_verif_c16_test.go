//go:build verif

package dtls

import (
	"bytes"
	"context"
	"crypto/x509"
	"errors"
	"fmt"
	"io"
	"net"
	"regexp"
	"runtime"
	"strings"
	"sync"
	"sync/atomic"
	"testing"
	"testing/synctest"
	"time"

	dtlserrors "github.com/pion/dtls/v3/internal/errors"
	ref "github.com/pion/dtls/v3/internal/zzverifref"
)

// C16 — lifecycle. Part A places Close / forged alerts / deadlines / context cancellation at every
// k-th delivered datagram of a handshake and on established connections with pending Read and
// (blocked) Write calls, in virtual time: every API call is logged (name, returned, error, instant),
// every emitted alert is decrypted with the reference implementation and counted, and the bubble's
// goroutines are inspected after teardown. Part B runs concurrent Read/Write/Close/deadline/accessor
// callers on the real scheduler under the race detector.

type vfCall struct {
	Name     string
	Returned atomic.Bool
	Err      error
	At       time.Duration
	N        int
}

type vfCalls struct {
	mu    sync.Mutex
	calls []*vfCall
	n     *vfNet
}

func (cs *vfCalls) Go(name string, f func() (int, error)) *vfCall {
	c := &vfCall{Name: name}
	cs.mu.Lock()
	cs.calls = append(cs.calls, c)
	cs.mu.Unlock()
	go func() {
		n, err := f()
		c.N, c.Err, c.At = n, err, cs.n.Now()
		c.Returned.Store(true)
	}()

	return c
}

func (cs *vfCalls) Pending() []string {
	cs.mu.Lock()
	defer cs.mu.Unlock()
	var out []string
	for _, c := range cs.calls {
		if !c.Returned.Load() {
			out = append(out, c.Name)
		}
	}

	return out
}

// Open decrypts one record emitted by `from` (reference implementation, keys captured when the toolkit was built).
func (t *vfToolkit) Open(from string, rc vfRec, cidLen int) (ct uint8, content []byte, err error) {
	if t.is13 {
		if !rc.Unified {
			return 0, nil, errors.New("legacy record")
		}
		r13, _, perr := ref.ParseRec13(rc.Raw, cidLen)
		if perr != nil {
			return 0, nil, perr
		}
		tk := ref.TrafficKeys13(t.s13, ref.DTLS13Prefix, t.sec13[from])
		pt, typ, _, oerr := ref.Open13(t.s13, tk, r13, 0)

		return typ, pt, oerr
	}
	if rc.Unified || rc.Epoch == 0 {
		return 0, nil, errors.New("not protected")
	}
	r := ref.Rec12{Type: rc.Type, Version: [2]byte{byte(rc.Version >> 8), byte(rc.Version)}, Epoch: rc.Epoch, Seq: rc.Seq, CID: rc.CID, Body: rc.Body}
	pt, oerr := ref.Open12(t.s12, t.k12[from], r)
	if oerr != nil {
		return 0, nil, oerr
	}
	if rc.Type == 25 {
		i := len(pt) - 1
		for i >= 0 && pt[i] == 0 {
			i--
		}
		if i < 0 {
			return 0, nil, errors.New("empty inner plaintext")
		}

		return pt[i], pt[:i], nil
	}

	return rc.Type, pt, nil
}

// vfCountAlerts decodes every alert `from` emitted after log index mark: (close_notify, fatal, other, undecodable protected records).
func vfCountAlerts(n *vfNet, tk *vfToolkit, from string, mark int, cidLenOfReceiver int) (closeNotify, fatal, other, opaque int) {
	for _, w := range n.LogSince(mark) {
		if w.Deliver || w.From != from {
			continue
		}
		recs, ok := vfParseDatagram(w.Data, cidLenOfReceiver)
		if !ok {
			opaque++

			continue
		}
		for _, rc := range recs {
			var ct uint8
			var body []byte
			switch {
			case !rc.Unified && rc.Epoch == 0:
				ct, body = rc.Type, rc.Body
			case tk == nil:
				opaque++

				continue
			default:
				var err error
				if ct, body, err = tk.Open(from, rc, cidLenOfReceiver); err != nil {
					opaque++

					continue
				}
			}
			if ct != 21 || len(body) != 2 {
				continue
			}
			switch {
			case body[1] == 0:
				closeNotify++
			case body[0] == 2:
				fatal++
			default:
				other++
			}
		}
	}

	return closeNotify, fatal, other, opaque
}

var vfBubbleHdr = regexp.MustCompile(`^goroutine (\d+) \[([^\]]*)\]:`)

// vfBubbleLeaks returns the stacks of goroutines of the caller's bubble that run library code.
func vfBubbleLeaks() []string {
	buf := make([]byte, 4<<20)
	buf = buf[:runtime.Stack(buf, true)]
	blocks := strings.Split(string(buf), "\n\n")
	if len(blocks) == 0 {
		return nil
	}
	m := vfBubbleHdr.FindStringSubmatch(blocks[0])
	if m == nil || !strings.Contains(m[2], "synctest bubble") {
		return nil
	}
	mine := m[2][strings.Index(m[2], "synctest bubble"):]
	var out []string
	for _, b := range blocks[1:] {
		h := vfBubbleHdr.FindStringSubmatch(b)
		if h == nil || !strings.HasSuffix(h[2], mine) {
			continue
		}
		if !strings.Contains(b, "pion/dtls/v3") && !strings.Contains(b, "pion/transport") {
			continue
		}
		// frames of the harness itself (pumps, callers) are the harness's responsibility
		lib := false
		for _, ln := range strings.Split(b, "\n") {
			if (strings.Contains(ln, "pion/dtls/v3") || strings.Contains(ln, "pion/transport")) && !strings.Contains(ln, "zz_verif") && !strings.Contains(ln, ".vf") && !strings.Contains(ln, ".TestVF") {
				lib = true
			}
		}
		if lib {
			out = append(out, b)
		}
	}

	return out
}

func vfLeakSummary(stacks []string) string {
	var parts []string
	for _, s := range stacks {
		fr := pionFrames(s)
		if len(fr) > 3 {
			fr = fr[:3]
		}
		parts = append(parts, strings.Join(fr, "<"))
	}

	return strings.Join(parts, " | ")
}

var vfFrameRe = regexp.MustCompile(`github\.com/pion/(?:dtls/v3|transport/v4)[^\s(]*\.([A-Za-z0-9_().*]+)\(`)

func pionFrames(stack string) []string {
	var out []string
	for _, ln := range strings.Split(stack, "\n") {
		if strings.HasPrefix(ln, "\t") || strings.Contains(ln, "zz_verif") {
			continue
		}
		if m := vfFrameRe.FindStringSubmatch(ln); m != nil {
			out = append(out, m[1])
		}
	}

	return out
}

type vfC16Case struct {
	Variant string
	Phase   string // established | handshake | pre
	Actor   string // c | s
	Action  string
	K       int
	Idx     int
}

func (c vfC16Case) ID() string {
	return fmt.Sprintf("%s|%s|actor=%s|%s|k=%d", c.Variant, c.Phase, c.Actor, c.Action, c.K)
}

func vfC16Cfg(name string) vfCfg {
	switch name {
	case "12-cid":
		c := vfBaseCfg(vfSuiteByName("ECDSA-GCM128"), "ecdsa")
		c.CIDc, c.CIDs = 4, 6

		return c
	case "12-cid-oneway-c", "12-cid-oneway-s":
		// connection IDs in one direction only: one side announces a zero-length ID (it only sends the peer's)
		c := vfBaseCfg(vfSuiteByName("ECDSA-GCM128"), "ecdsa")
		c.CIDc, c.CIDs = 0, 5
		if name == "12-cid-oneway-s" {
			c.CIDc, c.CIDs = 5, 0
		}

		return c
	case "12-psk-cbc":
		return vfBaseCfg(vfSuiteByName("PSK-CBC"), "")
	case "13":
		c := vfBaseCfg(vfSuiteByName("13-GCM128"), "ecdsa")
		c.CVer, c.SVer, c.HelloVerify = "13", "13", false

		return c
	case "13-cid":
		c := vfBaseCfg(vfSuiteByName("13-CHACHA"), "ecdsa")
		c.CVer, c.SVer, c.HelloVerify, c.CIDc, c.CIDs = "13", "13", false, 4, 4

		return c
	}

	return vfBaseCfg(vfSuiteByName("ECDSA-GCM128"), "ecdsa")
}

// allowed results of a call that was pending or issued when its own connection was closed locally
func vfClosedErr(err error) bool {
	return err != nil && (errors.Is(err, ErrConnClosed) || errors.Is(err, io.EOF) || errors.Is(err, net.ErrClosed) ||
		strings.Contains(err.Error(), "closed"))
}

func vfC16Established(t *testing.T, res *vfResult, c vfC16Case) {
	replay := map[string]any{"case": c}
	violate := func(sig, what string) { res.Violate("C16:"+sig, what+"; "+c.ID(), replay) }
	cfg := vfC16Cfg(c.Variant)
	co, so := cfg.Options(nil, nil)
	n := vfNewNet()
	p, err := vfNewPair(n, co, so)
	if err != nil {
		res.Count("config_rejected", 1)

		return
	}
	if ce, se := p.Handshake(time.Minute); ce != nil || se != nil {
		res.Count("handshake_failed", 1)
		p.Close()
		synctest.Wait()

		return
	}
	tk, terr := vfNewToolkit(p)
	if terr != nil {
		tk = nil
		res.Count("toolkit_unavailable", 1)
	}
	x, y := p.C, p.S
	if c.Actor == "s" {
		x, y = p.S, p.C
	}
	cidX, cidY := vfCIDLenOf(x.Conn), vfCIDLenOf(y.Conn)
	calls := &vfCalls{n: n}
	// one payload each way so that both sides are past their first record
	if rt := func() string { p.C.StartPump(); p.S.StartPump(); return vfRoundTrip(p, "c16", 10*time.Second) }(); rt != "" {
		res.Count("warmup_failed", 1)
	}
	// stop the pumps' reads from racing with the monitored calls: pumps keep running, monitored Reads are extra
	mark := n.LogLen()
	rdX := calls.Go("X.Read", func() (int, error) { return x.Conn.Read(make([]byte, 2048)) })
	rdY := calls.Go("Y.Read", func() (int, error) { return y.Conn.Read(make([]byte, 2048)) })
	_ = rdX
	_ = rdY
	var blocked *vfCall
	synctest.Wait()
	blockedFrom := n.Now()
	closers := 0
	appClosedX := false
	switch c.Action {
	case "close-1", "close-3", "close-3-write-blocked", "close-then-close":
		closers = 1
		if strings.HasPrefix(c.Action, "close-3") {
			closers = 3
		}
		if c.Action == "close-3-write-blocked" {
			blk := make(chan struct{})
			x.EP.mu.Lock()
			x.EP.blockWrites = blk
			x.EP.mu.Unlock()
			blocked = calls.Go("X.Write(blocked)", func() (int, error) { return x.Conn.Write([]byte("stuck")) })
			synctest.Wait()
			// the socket accepts datagrams again after 3 s (a socket that never does would also hold Close's own close_notify)
			time.AfterFunc(3*time.Second, func() { close(blk) })
		}
		for i := 0; i < closers; i++ {
			calls.Go(fmt.Sprintf("X.Close#%d", i), func() (int, error) { return 0, x.Conn.Close() })
		}
		appClosedX = true
		synctest.Wait()
		if c.Action == "close-then-close" {
			calls.Go("X.Close#again", func() (int, error) { return 0, x.Conn.Close() })
		}
	case "both-close":
		calls.Go("X.Close", func() (int, error) { return 0, x.Conn.Close() })
		calls.Go("Y.Close", func() (int, error) { return 0, y.Conn.Close() })
		appClosedX = true
	case "fatal-alert-injected", "close-notify-injected":
		if tk == nil {
			return
		}
		body := []byte{2, 40}
		if c.Action == "close-notify-injected" {
			body = []byte{1, 0}
		}
		ep, first := tk.reserve(y.Name, 1)
		rec, err := tk.Seal(y.Name, ep, first, 21, body, uint64(first)+5)
		if err != nil {
			return
		}
		n.Deliver(string(x.EP.addr), rec, y.EP.addr)
	case "peer-close-transport-cannot-send":
		// the peer closes while X's transport refuses to send (network unreachable): X cannot answer the close_notify,
		// but it has received it - its Read returns EOF and the connection is closed all the same
		x.EP.mu.Lock()
		x.EP.wrErr = errors.New("sendto: network is unreachable")
		x.EP.mu.Unlock()
		calls.Go("Y.Close", func() (int, error) { return 0, y.Conn.Close() })
	case "read-deadline":
		_ = x.Conn.SetReadDeadline(time.Now().Add(2 * time.Second))
	case "write-deadline-blocked":
		blk := make(chan struct{})
		x.EP.mu.Lock()
		x.EP.blockWrites = blk
		x.EP.mu.Unlock()
		time.AfterFunc(6*time.Second, func() { close(blk) })
		_ = x.Conn.SetWriteDeadline(time.Now().Add(2 * time.Second))
		blocked = calls.Go("X.Write(blocked,deadline)", func() (int, error) { return x.Conn.Write([]byte("stuck")) })
	case "close-with-accessors":
		for i := 0; i < 2; i++ {
			calls.Go("X.ConnectionState", func() (int, error) {
				_, _ = x.Conn.ConnectionState()
				_ = x.Conn.RemoteAddr()
				_ = x.Conn.LocalAddr()
				return 0, nil
			})
		}
		calls.Go("X.Close", func() (int, error) { return 0, x.Conn.Close() })
		appClosedX = true
	}
	time.Sleep(10 * time.Second)
	synctest.Wait()
	res.NonTrivial(c.ID())
	// --- oracle
	xClosed := x.Conn.isConnectionClosed()
	switch c.Action {
	case "read-deadline":
		if !rdX.Returned.Load() {
			violate("deadline-did-not-interrupt:Read", "Read still blocked 8 s after its deadline")
		} else if !errors.Is(rdX.Err, dtlserrors.ErrDeadlineExceeded) && !vfIsTimeout(rdX.Err) {
			violate("deadline-wrong-error:Read", fmt.Sprintf("Read interrupted by its deadline returned %v", rdX.Err))
		}
		res.Count("deadline_interruptions_checked", 1)
		// the connection stays usable
		_ = x.Conn.SetReadDeadline(time.Time{})
		synctest.Wait()
		x.StartPump() // the deadline ended X's pump as well
		rt := vfRoundTrip(p, "c16b", 10*time.Second)
		if rt != "" && strings.Contains(rt, "never read") && rdY.Returned.Load() && rdY.Err == nil && rdY.N > 0 {
			// Y has two readers, its pump and the monitored extra Read; which of them a payload wakes is the
			// scheduler's choice. The payload arrived, at the reader the round trip does not look at.
			res.Count("roundtrip_payload_taken_by_monitored_read", 1)
			rt = ""
		}
		if rt != "" {
			violate("connection-unusable-after-deadline", "after a Read deadline the connection no longer carries data: "+rt)
		}
	case "write-deadline-blocked":
		if blocked != nil && (!blocked.Returned.Load() || blocked.At > 5*time.Second+blockedFrom) {
			violate("deadline-did-not-interrupt:Write", "a Write parked in the socket did not return at its 2 s deadline (socket blocked for 6 s)")
		} else if blocked != nil && blocked.Err == nil {
			violate("deadline-ignored:Write", "Write returned nil although the socket did not accept the datagram before the deadline")
		}
		res.Count("deadline_interruptions_checked", 1)
	default:
		if !xClosed {
			violate("connection-not-closed:"+c.Action, "X is not closed 10 s after "+c.Action)
		}
		for _, call := range calls.calls {
			if !call.Returned.Load() && call.Name == "Y.Read" && !appClosedX && c.Action != "close-notify-injected" {
				continue // nothing told Y that X went away (a fatal alert is not answered)
			}
			if !call.Returned.Load() {
				violate("call-did-not-return:"+vfCallClass(call.Name)+":"+c.Action, call.Name+" has not returned 10 s after "+c.Action)

				continue
			}
			switch {
			case strings.HasPrefix(call.Name, "X.Close"):
				if call.Err != nil && !vfClosedErr(call.Err) {
					violate("close-error:"+c.Action, fmt.Sprintf("%s returned %v", call.Name, call.Err))
				}
			case call.Name == "X.Read":
				if call.Err == nil {
					res.Count("x_read_returned_data", 1)
				} else if !vfClosedErr(call.Err) && !vfIsAlertErr(call.Err) {
					violate("read-error-after-close:"+c.Action, fmt.Sprintf("X.Read returned %v", call.Err))
				}
				res.Seen("x_read_results", c.Action+": "+vfErrNorm(call.Err))
			case strings.HasPrefix(call.Name, "X.Write"):
				res.Seen("x_parked_write_results", c.Action+": "+vfErrNorm(call.Err))
				if call.At > blockedFrom+time.Second {
					// Close interrupts a Write that is parked in the transport (the socket is released only after 3 s)
					violate("close-did-not-interrupt-parked-write", fmt.Sprintf("%s returned at +%v, i.e. only when the socket accepted datagrams again, not when Close was called", call.Name, call.At-blockedFrom))
				}
			case call.Name == "Y.Read":
				res.Seen("y_read_results", c.Action+": "+vfErrNorm(call.Err))
			}
		}
		// the peer: after X's close_notify (or X answering an injected close_notify) Y.Read returns EOF
		if appClosedX && c.Action != "both-close" && c.Action != "close-3-write-blocked" {
			if !rdY.Returned.Load() {
				violate("peer-read-not-unblocked:"+c.Action, "Y.Read still blocked 10 s after X closed an established session")
			} else if !errors.Is(rdY.Err, io.EOF) {
				violate("peer-read-not-eof:"+c.Action, fmt.Sprintf("Y.Read returned %v after X's close_notify", rdY.Err))
			}
			res.Count("peer_eof_checked", 1)
		}
		// later calls on X
		if _, err := x.Conn.Write([]byte("late")); err == nil {
			violate("write-after-close-succeeded:"+c.Action, "Write on the closed connection returned nil")
		}
		if _, err := x.Conn.Read(make([]byte, 64)); err == nil {
			violate("read-after-close-succeeded:"+c.Action, "Read on the closed connection returned data")
		}
		if err := x.Conn.Close(); err != nil && !vfClosedErr(err) {
			violate("close-again-error:"+c.Action, fmt.Sprintf("Close on the closed connection returned %v", err))
		}
		// close_notify accounting
		cnX, fatalX, _, opaqueX := vfCountAlerts(n, tk, x.Name, mark, cidY)
		cnY, _, _, opaqueY := vfCountAlerts(n, tk, y.Name, mark, cidX)
		res.Count("alerts_decoded", int64(cnX+cnY+fatalX))
		res.Count("records_not_decodable", int64(opaqueX+opaqueY))
		if cnX > 1 {
			violate("close-notify-sent-twice:"+c.Action, fmt.Sprintf("X emitted %d close_notify alerts", cnX))
		}
		if cnY > 1 {
			violate("close-notify-sent-twice:peer:"+c.Action, fmt.Sprintf("Y emitted %d close_notify alerts", cnY))
		}
		if appClosedX && c.Action != "close-3-write-blocked" && cnX == 0 && opaqueX == 0 {
			violate("no-close-notify:"+c.Action, "the application closed an established, open session and no close_notify left X")
		}
		if c.Action == "close-notify-injected" && cnX == 0 && opaqueX == 0 {
			res.Count("injected_close_notify_not_answered", 1)
		}
		res.Count("close_notify_accounted", 1)
	}
	p.Close()
	time.Sleep(2 * time.Second)
	synctest.Wait()
	if pend := calls.Pending(); len(pend) > 0 {
		violate("call-did-not-return-after-teardown:"+vfCallClass(pend[0]), fmt.Sprintf("still pending after both connections were closed: %v", pend))
	}
	if leaks := vfBubbleLeaks(); len(leaks) > 0 {
		violate("goroutine-left-behind:"+c.Action, fmt.Sprintf("%d library goroutines remain after teardown: %s", len(leaks), vfLeakSummary(leaks)))
	}
	res.Count("teardowns_inspected", 1)
}

func vfCallClass(name string) string {
	if i := strings.IndexAny(name, "#("); i >= 0 {
		name = name[:i]
	}

	return name
}

func vfIsTimeout(err error) bool {
	var ne net.Error

	return errors.As(err, &ne) && ne.Timeout()
}

func vfIsAlertErr(err error) bool {
	return err != nil && strings.Contains(strings.ToLower(err.Error()), "alert")
}

// vfC16Handshake: the action is placed after the K-th delivered datagram of a handshake in progress.
func vfC16Handshake(t *testing.T, res *vfResult, c vfC16Case) {
	replay := map[string]any{"case": c}
	violate := func(sig, what string) { res.Violate("C16:"+sig, what+"; "+c.ID(), replay) }
	cfg := vfC16Cfg(c.Variant)
	co, so := cfg.Options(nil, nil)
	n := vfNewNet()
	p, err := vfNewPair(n, co, so)
	if err != nil {
		return
	}
	x, y := p.C, p.S
	if c.Actor == "s" {
		x, y = p.S, p.C
	}
	calls := &vfCalls{n: n}
	ctxX, cancelX := context.WithTimeout(context.Background(), 40*time.Second)
	ctxY, cancelY := context.WithTimeout(context.Background(), 40*time.Second)
	defer cancelX()
	defer cancelY()
	var delivered atomic.Int64
	fired := make(chan struct{})
	var once sync.Once
	n.SetOnSend(func(n *vfNet, w *vfWire) {
		if int(delivered.Load()) == c.K {
			once.Do(func() { close(fired) })
		}
		delivered.Add(1)
		n.Deliver(w.Dst, w.Data, vfAddrOf(w.From))
	})
	hx := calls.Go("X.HandshakeContext", func() (int, error) { return 0, x.Conn.HandshakeContext(ctxX) })
	hy := calls.Go("Y.HandshakeContext", func() (int, error) { return 0, y.Conn.HandshakeContext(ctxY) })
	acted := false
	act := func() {
		acted = true
		switch c.Action {
		case "close-1":
			calls.Go("X.Close", func() (int, error) { return 0, x.Conn.Close() })
		case "close-3":
			for i := 0; i < 3; i++ {
				calls.Go(fmt.Sprintf("X.Close#%d", i), func() (int, error) { return 0, x.Conn.Close() })
			}
		case "cancel":
			cancelX()
		case "plaintext-fatal-alert":
			n.Deliver(string(x.EP.addr), vfLegacyRecord(21, 0xfefd, 0, 900, nil, -1, []byte{2, 40}), y.EP.addr)
		case "read-write-during-handshake":
			calls.Go("X.Read", func() (int, error) { return x.Conn.Read(make([]byte, 64)) })
			calls.Go("X.Write", func() (int, error) { return x.Conn.Write([]byte("early")) })
			calls.Go("X.Close", func() (int, error) { return 0, x.Conn.Close() })
		}
	}
	// the trigger runs in its own goroutine: onSend must not block the sender
	go func() {
		select {
		case <-fired:
			act()
		case <-time.After(30 * time.Second):
		}
	}()
	time.Sleep(90 * time.Second)
	synctest.Wait()
	res.NonTrivial(c.ID())
	if !acted {
		res.Count("handshake_action_not_reached", 1)
	} else {
		res.Count("handshake_actions_placed", 1)
	}
	for _, call := range calls.calls {
		if !call.Returned.Load() {
			violate("call-did-not-return:"+vfCallClass(call.Name)+":handshake:"+c.Action, fmt.Sprintf("%s has not returned 90 s after the action (its context ended at 40 s)", call.Name))
		}
	}
	if acted && strings.HasPrefix(c.Action, "close") && hx.Returned.Load() && hx.Err != nil && !vfClosedErr(hx.Err) && !x.Conn.isHandshakeCompletedSuccessfully() {
		violate("handshake-interrupted-by-close-wrong-error", fmt.Sprintf("HandshakeContext interrupted by Close returned %q, neither a closed nor an EOF error", hx.Err))
	}
	if acted && strings.HasPrefix(c.Action, "close") && hx.Returned.Load() && hx.Err == nil && !x.Conn.isHandshakeCompletedSuccessfully() {
		violate("handshake-nil-on-closed-connection", "HandshakeContext returned nil on a connection closed mid-handshake without completing")
	}
	res.Seen("handshake_results", fmt.Sprintf("%s k=%d: X=%s Y=%s", c.Action, c.K, vfErrNorm(hx.Err), vfErrNorm(hy.Err)))
	mark := 0
	cnX, _, _, _ := vfCountAlerts(n, nil, x.Name, mark, 0)
	cnY, _, _, _ := vfCountAlerts(n, nil, y.Name, mark, 0)
	if cnX > 1 || cnY > 1 {
		violate("close-notify-sent-twice:handshake:"+c.Action, fmt.Sprintf("plaintext close_notify alerts: X %d, Y %d", cnX, cnY))
	}
	p.Close()
	time.Sleep(2 * time.Second)
	synctest.Wait()
	if pend := calls.Pending(); len(pend) > 0 {
		violate("call-did-not-return-after-teardown:"+vfCallClass(pend[0]), fmt.Sprintf("still pending after both connections were closed: %v", pend))
	}
	if leaks := vfBubbleLeaks(); len(leaks) > 0 {
		violate("goroutine-left-behind:handshake:"+c.Action, fmt.Sprintf("%d library goroutines remain after teardown: %s", len(leaks), vfLeakSummary(leaks)))
	}
	res.Count("teardowns_inspected", 1)
}

// vfC16Pre: calls issued before any handshake, with a deadline, no peer answering.
func vfC16Pre(t *testing.T, res *vfResult, c vfC16Case) {
	replay := map[string]any{"case": c}
	cfg := vfC16Cfg(c.Variant)
	co, so := cfg.Options(nil, nil)
	n := vfNewNet()
	n.SetOnSend(func(*vfNet, *vfWire) {}) // nobody answers
	p, err := vfNewPair(n, co, so)
	if err != nil {
		return
	}
	x := p.C
	if c.Actor == "s" {
		x = p.S
	}
	calls := &vfCalls{n: n}
	var call *vfCall
	switch c.Action {
	case "write-deadline-before-handshake":
		_ = x.Conn.SetWriteDeadline(time.Now().Add(2 * time.Second))
		call = calls.Go("X.Write", func() (int, error) { return x.Conn.Write([]byte("early")) })
	case "read-deadline-before-handshake":
		_ = x.Conn.SetReadDeadline(time.Now().Add(2 * time.Second))
		call = calls.Go("X.Read", func() (int, error) { return x.Conn.Read(make([]byte, 64)) })
	case "close-before-handshake":
		call = calls.Go("X.Write", func() (int, error) { return x.Conn.Write([]byte("early")) })
		synctest.Wait()
		calls.Go("X.Close", func() (int, error) { return 0, x.Conn.Close() })
	}
	time.Sleep(30 * time.Second)
	synctest.Wait()
	res.NonTrivial(c.ID())
	if call != nil && !call.Returned.Load() {
		res.Violate("C16:deadline-did-not-interrupt:"+c.Action, fmt.Sprintf("%s issued with a 2 s deadline while no handshake had completed (no peer) is still blocked after 30 s; %s", call.Name, c.ID()), replay)
	} else if call != nil {
		res.Seen("pre_handshake_results", c.Action+": "+vfErrNorm(call.Err))
	}
	res.Count("pre_handshake_calls_checked", 1)
	p.Close()
	time.Sleep(2 * time.Second)
	synctest.Wait()
	if pend := calls.Pending(); len(pend) > 0 {
		res.Violate("C16:call-did-not-return-after-teardown:"+vfCallClass(pend[0]), fmt.Sprintf("still pending after Close: %v; %s", pend, c.ID()), replay)
	}
	if leaks := vfBubbleLeaks(); len(leaks) > 0 {
		res.Violate("C16:goroutine-left-behind:pre:"+c.Action, fmt.Sprintf("%d library goroutines remain after teardown: %s; %s", len(leaks), vfLeakSummary(leaks), c.ID()), replay)
	}
}

func vfC16Cases() []vfC16Case {
	var out []vfC16Case
	idx := 0
	add := func(c vfC16Case) { c.Idx = idx; idx++; out = append(out, c) }
	// one-way connection IDs: the closing side's close_notify must be framed for the side that reads it
	for _, v := range []string{"12-cid-oneway-c", "12-cid-oneway-s"} {
		for _, actor := range []string{"c", "s"} {
			for _, a := range []string{"close-1", "both-close", "close-notify-injected"} {
				add(vfC16Case{Variant: v, Phase: "established", Actor: actor, Action: a})
			}
		}
	}
	for _, v := range []string{"12-ecdsa", "12-cid", "12-psk-cbc", "13", "13-cid"} {
		for _, actor := range []string{"c", "s"} {
			for _, a := range []string{"close-1", "close-3", "close-then-close", "both-close", "fatal-alert-injected",
				"close-notify-injected", "read-deadline", "write-deadline-blocked", "close-with-accessors", "peer-close-transport-cannot-send"} {
				add(vfC16Case{Variant: v, Phase: "established", Actor: actor, Action: a})
			}
			kmax := vfPick(8, 14)
			for k := 0; k <= kmax; k++ {
				for _, a := range []string{"close-1", "close-3", "cancel", "plaintext-fatal-alert", "read-write-during-handshake"} {
					add(vfC16Case{Variant: v, Phase: "handshake", Actor: actor, Action: a, K: k})
				}
			}
			for _, a := range []string{"write-deadline-before-handshake", "read-deadline-before-handshake", "close-before-handshake"} {
				add(vfC16Case{Variant: v, Phase: "pre", Actor: actor, Action: a})
			}
		}
	}

	return out
}

func vfC16Run(t *testing.T, res *vfResult, c vfC16Case) {
	res.Eval(1)
	switch c.Phase {
	case "established":
		vfC16Established(t, res, c)
	case "handshake":
		vfC16Handshake(t, res, c)
	default:
		vfC16Pre(t, res, c)
	}
}

// vfC16Stress: concurrent callers on one established pair, real scheduler (race detector build).
func vfC16Stress(res *vfResult, iter int) {
	variants := []string{"12-ecdsa", "12-cid", "13", "13-cid", "12-psk-cbc"}
	cfg := vfC16Cfg(variants[iter%len(variants)])
	co, so := cfg.Options(nil, nil)
	n := vfNewNet()
	p, err := vfNewPair(n, co, so)
	res.Eval(1)
	if err != nil {
		return
	}
	ctx, cancel := context.WithTimeout(context.Background(), 20*time.Second)
	defer cancel()
	var hs sync.WaitGroup
	hs.Add(2)
	go func() { defer hs.Done(); p.C.Err = p.C.Conn.HandshakeContext(ctx) }()
	go func() { defer hs.Done(); p.S.Err = p.S.Conn.HandshakeContext(ctx) }()
	hs.Wait()
	if p.C.Err != nil || p.S.Err != nil {
		res.Count("stress_handshake_failed", 1)
		p.Close()

		return
	}
	r := vfRand("C16/stress", iter)
	var wg sync.WaitGroup
	stop := make(chan struct{})
	var ops atomic.Int64
	var order []string
	var omu sync.Mutex
	note := func(s string) {
		omu.Lock()
		if len(order) < 64 {
			order = append(order, s)
		}
		omu.Unlock()
	}
	for _, side := range []*vfSide{p.C, p.S} {
		side := side
		for g := 0; g < 2; g++ {
			wg.Add(2)
			go func(g int) {
				defer wg.Done()
				buf := make([]byte, 2048)
				for {
					_ = side.Conn.SetReadDeadline(time.Now().Add(50 * time.Millisecond))
					_, err := side.Conn.Read(buf)
					ops.Add(1)
					if err != nil && (errors.Is(err, io.EOF) || errors.Is(err, ErrConnClosed) || side.Conn.isConnectionClosed()) {
						note(side.Name + "R!")

						return
					}
					select {
					case <-stop:
						return
					default:
					}
				}
			}(g)
			go func(g int) {
				defer wg.Done()
				for i := 0; ; i++ {
					_, err := side.Conn.Write([]byte(fmt.Sprintf("st-%s-%d-%d", side.Name, g, i)))
					ops.Add(1)
					if err != nil {
						note(side.Name + "W!")

						return
					}
					select {
					case <-stop:
						return
					default:
					}
					if i%16 == 0 {
						runtime.Gosched()
					}
				}
			}(g)
		}
		wg.Add(1)
		go func() {
			defer wg.Done()
			for i := 0; i < 200; i++ {
				_, _ = side.Conn.ConnectionState()
				_ = side.Conn.RemoteAddr()
				_ = side.Conn.LocalAddr()
				_, _ = side.Conn.SelectedSRTPProtectionProfile()
				_ = side.Conn.SetWriteDeadline(time.Now().Add(time.Second))
				_ = side.Conn.SetDeadline(time.Time{})
				ops.Add(1)
			}
		}()
	}
	closeAfter := time.Duration(5+r.IntN(40)) * time.Millisecond
	time.Sleep(closeAfter)
	closers := 1 + r.IntN(3)
	var cw sync.WaitGroup
	for i := 0; i < closers; i++ {
		cw.Add(1)
		who := p.C
		if (iter+i)%2 == 0 {
			who = p.S
		}
		go func() { defer cw.Done(); note(who.Name + "C"); _ = who.Conn.Close() }()
	}
	cdone := make(chan struct{})
	go func() { cw.Wait(); close(cdone) }()
	select {
	case <-cdone:
	case <-time.After(20 * time.Second):
		res.Violate("C16:close-did-not-return:stress", fmt.Sprintf("Close did not return within 20 s under concurrent Read/Write/accessor callers (%s)", cfg.FP()), map[string]any{"iter": iter})
	}
	time.Sleep(20 * time.Millisecond)
	close(stop)
	_ = p.C.Conn.Close()
	_ = p.S.Conn.Close()
	wdone := make(chan struct{})
	go func() { wg.Wait(); close(wdone) }()
	select {
	case <-wdone:
	case <-time.After(20 * time.Second):
		res.Violate("C16:callers-did-not-return:stress", fmt.Sprintf("Read/Write callers still blocked 20 s after both sides were closed (%s)", cfg.FP()), map[string]any{"iter": iter})
	}
	res.Count("stress_ops", ops.Load())
	res.Count("stress_iterations", 1)
	omu.Lock()
	res.Seen("stress_event_orders", strings.Join(order, ""))
	omu.Unlock()
	res.NonTrivial(fmt.Sprintf("stress/%d", iter))
}

// vfC16ParkedWrite: a Write parked in the transport when Close is called (real time: a goroutine blocked on the
// connection's write lock would freeze a synctest bubble's clock, so a missing interruption could not be told
// from a harness artefact there).
func vfC16ParkedWrite(res *vfResult, iter int) {
	variants := []string{"12-ecdsa", "12-cid", "13", "13-cid", "12-psk-cbc"}
	cfg := vfC16Cfg(variants[iter%len(variants)])
	co, so := cfg.Options(nil, nil)
	n := vfNewNet()
	p, err := vfNewPair(n, co, so)
	res.Eval(1)
	if err != nil {
		return
	}
	if ce, se := p.Handshake(20 * time.Second); ce != nil || se != nil {
		res.Count("parked_write_handshake_failed", 1)
		p.Close()

		return
	}
	x := p.C
	if iter%2 == 1 {
		x = p.S
	}
	time.Sleep(50 * time.Millisecond) // DTLS 1.3: tickets and ACKs are out
	blk := make(chan struct{})
	x.EP.mu.Lock()
	x.EP.blockWrites = blk
	x.EP.mu.Unlock()
	type ret struct {
		err error
		at  time.Duration
	}
	t0 := time.Now()
	wr := make(chan ret, 1)
	cl := make(chan ret, 1)
	go func() { _, err := x.Conn.Write([]byte("parked")); wr <- ret{err, time.Since(t0)} }()
	time.Sleep(100 * time.Millisecond)
	go func() { err := x.Conn.Close(); cl <- ret{err, time.Since(t0)} }()
	const release = 1500 * time.Millisecond
	var w ret
	interrupted := false
	select {
	case w = <-wr:
		interrupted = true
	case <-time.After(release - 100*time.Millisecond):
	}
	close(blk) // the transport accepts datagrams again
	if !interrupted {
		select {
		case w = <-wr:
		case <-time.After(20 * time.Second):
			res.Violate("C16:parked-write-never-returned", "a Write parked in the transport did not return within 20 s of Close and of the transport's release; "+cfg.FP(), map[string]any{"iter": iter, "parked": true})
		}
		res.Violate("C16:close-did-not-interrupt-parked-write", fmt.Sprintf("a Write parked in the transport returned (%v) only once the transport accepted datagrams again (+%v), not when Close was called at +100ms; %s",
			w.err, w.at, cfg.FP()), map[string]any{"iter": iter, "parked": true})
	} else if w.err == nil {
		res.Count("parked_write_returned_nil", 1)
	}
	select {
	case <-cl:
	case <-time.After(20 * time.Second):
		res.Violate("C16:close-did-not-return:parked-write", "Close did not return within 20 s although the transport was released; "+cfg.FP(), map[string]any{"iter": iter, "parked": true})
	}
	res.Count("parked_writes_checked", 1)
	res.Seen("x_parked_write_results", vfErrNorm(w.err))
	if interrupted && w.err != nil && !vfClosedErr(w.err) {
		res.Violate("C16:write-interrupted-by-close-wrong-error", fmt.Sprintf("a Write interrupted by Close returned %q, neither a closed nor an EOF error; %s", w.err, cfg.FP()), map[string]any{"iter": iter, "parked": true})
	}
	res.NonTrivial(fmt.Sprintf("parked/%d", iter))
	p.Close()
}

// vfC16ParkedWriteDeadline: the transport stalls, a Write with a write deadline is interrupted by that deadline;
// the transport recovers, the application clears the deadline and writes again. A deadline interrupts the call, not
// the connection: nobody closed it, so the later Write must not report a closed connection and the peer must get the
// payload. Real time (see vfC16ParkedWrite).
func vfC16ParkedWriteDeadline(res *vfResult, iter int) {
	variants := []string{"12-ecdsa", "13", "12-cid", "13-cid", "12-psk-cbc"}
	cfg := vfC16Cfg(variants[iter%len(variants)])
	co, so := cfg.Options(nil, nil)
	n := vfNewNet()
	p, err := vfNewPair(n, co, so)
	res.Eval(1)
	if err != nil {
		return
	}
	if ce, se := p.Handshake(20 * time.Second); ce != nil || se != nil {
		res.Count("parked_write_handshake_failed", 1)
		p.Close()

		return
	}
	x, y := p.C, p.S
	if (iter/len(variants))%2 == 1 {
		x, y = p.S, p.C
	}
	y.StartPump()
	x.StartPump()
	time.Sleep(50 * time.Millisecond)
	replay := map[string]any{"iter": iter, "parked_deadline": true}
	blk := make(chan struct{})
	x.EP.mu.Lock()
	x.EP.blockWrites = blk
	x.EP.mu.Unlock()
	_ = x.Conn.SetWriteDeadline(time.Now().Add(200 * time.Millisecond))
	type ret struct {
		err error
		at  time.Duration
	}
	t0 := time.Now()
	wr := make(chan ret, 1)
	go func() { _, err := x.Conn.Write([]byte("stalled")); wr <- ret{err, time.Since(t0)} }()
	var w ret
	select {
	case w = <-wr:
	case <-time.After(10 * time.Second):
		close(blk)
		res.Violate("C16:deadline-did-not-interrupt-parked-write", "a Write parked in the transport did not return within 10 s although its write deadline was 200 ms; "+cfg.FP(), replay)
		p.Close()

		return
	}
	close(blk) // the transport accepts datagrams again
	x.EP.mu.Lock()
	x.EP.blockWrites = nil
	x.EP.mu.Unlock()
	res.Seen("x_deadline_write_results", vfErrNorm(w.err))
	if w.err == nil || !vfIsTimeout(w.err) {
		res.Count("parked_deadline_write_not_a_timeout", 1)
	}
	_ = x.Conn.SetWriteDeadline(time.Time{})
	time.Sleep(300 * time.Millisecond)
	marker := []byte(fmt.Sprintf("after-the-deadline-%d", iter))
	_, err = x.Conn.Write(marker)
	res.Count("writes_after_expired_deadline", 1)
	if err != nil {
		res.Violate("C16:connection-unusable-after-write-deadline:"+map[bool]string{true: "dtls13", false: "dtls12"}[cfg.Is13()],
			fmt.Sprintf("a write deadline expired once on a stalled transport (that Write returned %v); after the deadline was cleared and the transport had recovered, Write returned %q on a connection nobody closed; %s",
				w.err, err, cfg.FP()), replay)
	} else {
		got := false
		for k := 0; k < 100 && !got; k++ {
			for _, rd := range y.ReadsSnapshot() {
				if bytes.Equal(rd, marker) {
					got = true
				}
			}
			if !got {
				time.Sleep(20 * time.Millisecond)
			}
		}
		if !got {
			res.Violate("C16:payload-lost-after-write-deadline:"+map[bool]string{true: "dtls13", false: "dtls12"}[cfg.Is13()],
				"a Write issued after an expired (and cleared) write deadline returned nil but the peer never read the payload; "+cfg.FP(), replay)
		}
	}
	res.NonTrivial(fmt.Sprintf("parked-deadline/%d", iter))
	p.Close()
}

// vfC16CloseFromCallback: "Close may be called at any time, from any goroutine": here from the application's own
// certificate-verification callback, which the library runs in the middle of the handshake. Close has to return and
// the pending HandshakeContext has to end. Real time with a watchdog: a deadlock would otherwise stop the bubble.
func vfC16CloseFromCallback(res *vfResult, iter int) {
	ver := []string{"12", "13"}[iter%2]
	which := []string{"VerifyPeerCertificate", "VerifyConnection"}[(iter/2)%2]
	res.Eval(1)
	pki := vfGetPKI()
	var cO, sO []Option
	if ver == "13" {
		cO, sO = vfV13(), vfV13()
	} else {
		cO, sO = vfV12(), vfV12()
	}
	var connRef atomic.Pointer[Conn]
	closeRet := make(chan struct{}, 4)
	inCallback := func() {
		if c := connRef.Load(); c != nil {
			_ = c.Close()
		}
		closeRet <- struct{}{}
	}
	cO = append(cO, WithInsecureSkipVerify(true))
	if which == "VerifyPeerCertificate" {
		cO = append(cO, WithVerifyPeerCertificate(func([][]byte, [][]*x509.Certificate) error { inCallback(); return nil }))
	} else {
		cO = append(cO, WithVerifyConnection(func(*State) error { inCallback(); return nil }))
	}
	sO = append(sO, WithCertificates(pki.Leaf("ecdsa", "server")))
	n := vfNewNet()
	p, err := vfNewPair(n, vfCO(cO...), append(vfSO(sO...), WithInsecureSkipVerifyHello(true)))
	if err != nil {
		return
	}
	connRef.Store(p.C.Conn)
	hsRet := make(chan error, 1)
	ctx, cancel := context.WithTimeout(context.Background(), 30*time.Second)
	defer cancel()
	go func() { _ = p.S.Conn.HandshakeContext(ctx) }()
	go func() { hsRet <- p.C.Conn.HandshakeContext(ctx) }()
	id := fmt.Sprintf("close-from-callback/v%s/%s", ver, which)
	res.NonTrivial(id + fmt.Sprint(iter))
	closed, returned := false, false
	deadline := time.After(8 * time.Second)
	for !(closed && returned) {
		select {
		case <-closeRet:
			closed = true
		case <-hsRet:
			returned = true
		case <-deadline:
			res.Violate(fmt.Sprintf("C16:close-from-handshake-callback-deadlocks:%s", which),
				fmt.Sprintf("%s: Close called from the application's %s callback: Close returned=%v, HandshakeContext returned=%v after 8 s (a 30 s context is still pending)", id, which, closed, returned),
				map[string]any{"iter": iter, "close_from_callback": true})
			cancel()
			_ = p.S.Conn.Close()

			return
		}
	}
	res.Count("close_from_callback_returned", 1)
	_ = p.S.Conn.Close()
}

// vfC16LateFinalFlight: the side that sends the last flight is slow, the other side retransmits, and in the end the
// final flight arrives twice - once as the original, once as the answer to the retransmission. The connection is
// established all the same: data arrives, the peer's Close gives EOF, and after Close nothing of it is left behind.
func vfC16LateFinalFlight(t *testing.T, res *vfResult, idx int) {
	variants := []string{"12-ecdsa", "12-cid", "12-psk-cbc", "13", "13-cid"}
	cfg := vfC16Cfg(variants[idx%len(variants)])
	res.Eval(1)
	co, so := cfg.Options(nil, nil)
	n := vfNewNet()
	delay := []time.Duration{1500 * time.Millisecond, 1100 * time.Millisecond, 3500 * time.Millisecond}[(idx/len(variants))%3]
	late := 0
	n.SetOnSend(func(n *vfNet, w *vfWire) {
		k := vfKind(w.Data)
		// the server's last flight (DTLS 1.2: ChangeCipherSpec + Finished; DTLS 1.3: the protected flight) is slow once
		if w.From == "s" && late < 2 && (strings.Contains(k, "ChangeCipherSpec") || strings.Contains(k, "protected-e2")) {
			late++
			n.DeliverAfter(delay, w.Dst, w.Data, vfAddrOf(w.From))

			return
		}
		n.Deliver(w.Dst, w.Data, vfAddrOf(w.From))
	})
	p, err := vfNewPair(n, co, so)
	if err != nil {
		return
	}
	id := fmt.Sprintf("late-final-flight/%s/%v", variants[idx%len(variants)], delay)
	replay := map[string]any{"late_final_flight": idx}
	if ce, se := p.Handshake(2 * time.Minute); ce != nil || se != nil {
		res.Count("late_final_flight_handshake_failed", 1)
		p.Close()
		synctest.Wait()

		return
	}
	n.SetOnSend(nil)
	res.NonTrivial(fmt.Sprintf("%s/%d", id, idx))
	time.Sleep(5 * time.Second) // retransmissions and their answers drain
	synctest.Wait()
	for _, dir := range [][2]*vfSide{{p.S, p.C}, {p.C, p.S}} {
		from, to := dir[0], dir[1]
		pl := []byte("ping-from-" + from.Name)
		_, _ = from.Conn.Write(pl)
		buf := make([]byte, 256)
		_ = to.Conn.SetReadDeadline(time.Now().Add(10 * time.Second))
		nr, rerr := to.Conn.Read(buf)
		if rerr != nil || !bytes.Equal(buf[:nr], pl) {
			res.Violate("C16:established-connection-does-not-deliver:after-duplicated-final-flight:"+to.Name,
				fmt.Sprintf("%s: after a handshake in which the final flight arrived twice, Read on %s returned (%q, %v) instead of the peer's payload", id, to.Name, buf[:nr], rerr), replay)
		}
	}
	_ = p.S.Conn.Close()
	buf := make([]byte, 256)
	_ = p.C.Conn.SetReadDeadline(time.Now().Add(10 * time.Second))
	if _, rerr := p.C.Conn.Read(buf); !errors.Is(rerr, io.EOF) {
		res.Violate("C16:peer-close-not-eof:after-duplicated-final-flight", fmt.Sprintf("%s: the server closed; the client's Read returned %v instead of EOF", id, rerr), replay)
	}
	_ = p.C.Conn.Close()
	p.Close()
	time.Sleep(2 * time.Second)
	synctest.Wait()
	if leaks := vfBubbleLeaks(); len(leaks) > 0 {
		res.Violate("C16:goroutine-left-behind:after-duplicated-final-flight", fmt.Sprintf("%s: %d library goroutines remain after both sides closed: %s", id, len(leaks), vfLeakSummary(leaks)), replay)
	}
	res.Count("late_final_flight_cases", 1)
}

// vfC16CloseImported: a connection imported with ResumeWithOptions is an established, still-open session. Closed by
// the application before it was ever read from or written to, it still owes the peer a close_notify: the peer's Read
// returns EOF.
func vfC16CloseImported(t *testing.T, res *vfResult, idx int) {
	res.Eval(1)
	c := vfC19Case{Suite: []string{"ECDSA-GCM128", "ECDSA-CBC", "PSK-CCM8"}[idx%3], CID: []int{-1, 4}[(idx/3)%2], Side: []string{"c", "s"}[idx%2], Idx: idx}
	w, err := vfC19Setup(c)
	if err != nil {
		res.Count("close_imported_setup_failed", 1)

		return
	}
	x, y := w.c, w.s
	if c.Side == "s" {
		x, y = w.s, w.c
	}
	id := fmt.Sprintf("close-imported/%s/cid%d/%s", c.Suite, c.CID, c.Side)
	res.NonTrivial(fmt.Sprintf("%s/%d", id, idx))
	if msg, _ := w.send(x, "before"); msg != "" {
		w.close()

		return
	}
	// export x exactly as vfC19World.export does, but do nothing on the imported connection except Close
	_, st, ok := vfC19Snapshot(x.conn)
	raw, merr := st.MarshalBinary()
	var st2 State
	if !ok || merr != nil || st2.UnmarshalBinary(raw) != nil {
		w.close()

		return
	}
	x.sock.Detach()
	_ = x.conn.Close()
	synctest.Wait()
	if x.done != nil {
		<-x.done
	}
	_ = x.ep.SetReadDeadline(time.Time{})
	nc, err := ResumeWithOptions(&st2, &vfDetach{ep: x.ep}, x.raddr)
	if err != nil {
		w.close()

		return
	}
	mark := len(w.n.Emissions(x.name))
	_ = nc.Close()
	time.Sleep(time.Second)
	synctest.Wait()
	emitted := len(w.n.Emissions(x.name)) - mark
	select {
	case <-y.done:
		res.Count("close_imported_peer_saw_eof", 1)
	default:
		res.Violate("C16:no-close-notify:imported-connection-closed-before-first-io",
			fmt.Sprintf("%s: the imported connection was closed by the application before any Read or Write; Close emitted %d datagrams and the peer's Read is still blocked one second later (no EOF)", id, emitted),
			map[string]any{"close_imported": idx})
	}
	x.conn = nc
	w.close()
}

// vfC16DeadlineBehindHandshake (real time: a goroutine parked on a plain mutex would freeze a virtual clock): another
// goroutine is already inside HandshakeContext (no peer, 8 s to go); a Read / Write with a 300 ms deadline, or a
// HandshakeContext with a 300 ms context, has to wait for that handshake - and its own deadline still counts.
func vfC16DeadlineBehindHandshake(res *vfResult, iter int) {
	res.Eval(1)
	variants := []string{"12-ecdsa", "13", "12-psk-cbc", "13-cid"}
	v := variants[iter%len(variants)]
	op := []string{"Read", "Write", "HandshakeContext"}[(iter/len(variants))%3]
	actor := []string{"c", "s"}[(iter/12)%2]
	cfg := vfC16Cfg(v)
	co, so := cfg.Options(nil, nil)
	n := vfNewNet()
	n.SetOnSend(func(*vfNet, *vfWire) {}) // nobody answers
	p, err := vfNewPair(n, co, so)
	if err != nil {
		return
	}
	x := p.C
	if actor == "s" {
		x = p.S
	}
	id := fmt.Sprintf("deadline-behind-handshake/%s/%s/%s", v, actor, op)
	res.NonTrivial(fmt.Sprintf("%s/%d", id, iter))
	hctx, hcancel := context.WithTimeout(context.Background(), 8*time.Second)
	defer hcancel()
	first := make(chan struct{})
	go func() { defer close(first); _ = x.Conn.HandshakeContext(hctx) }()
	time.Sleep(100 * time.Millisecond)
	start := time.Now()
	done := make(chan error, 1)
	switch op {
	case "Read":
		_ = x.Conn.SetReadDeadline(time.Now().Add(300 * time.Millisecond))
		go func() { _, e := x.Conn.Read(make([]byte, 64)); done <- e }()
	case "Write":
		_ = x.Conn.SetWriteDeadline(time.Now().Add(300 * time.Millisecond))
		go func() { _, e := x.Conn.Write([]byte("early")); done <- e }()
	default:
		cctx, ccancel := context.WithTimeout(context.Background(), 300*time.Millisecond)
		defer ccancel()
		go func() { done <- x.Conn.HandshakeContext(cctx) }()
	}
	select {
	case e := <-done:
		res.Count("deadlines_behind_handshake_honoured", 1)
		res.Seen("behind_handshake_results", op+": "+vfErrNorm(e))
		if e == nil {
			res.Violate("C16:deadline-ignored:behind-handshake:"+op, fmt.Sprintf("%s: the call returned nil although no peer exists", id), map[string]any{"iter": iter, "behind": true})
		}
	case <-time.After(4 * time.Second):
		res.Violate("C16:deadline-did-not-interrupt:behind-handshake:"+op,
			fmt.Sprintf("%s: %s with a 300 ms deadline, issued while another goroutine is inside HandshakeContext (no peer, 8 s context), is still blocked %v later", id, op, time.Since(start).Round(100*time.Millisecond)),
			map[string]any{"iter": iter, "behind": true})
	}
	hcancel()
	p.Close()
	<-first
	select {
	case <-done:
	case <-time.After(10 * time.Second):
	}
}

// vfC16BothCloseStress (real scheduler): both applications close at the same moment, so that each side's read loop answers
// the peer's close_notify while its own Close is sending one. Whatever the interleaving, one close_notify per side.
func vfC16BothCloseStress(res *vfResult, iter int) {
	variants := []string{"12-ecdsa", "12-cid", "13", "13-cid", "12-psk-cbc"}
	cfg := vfC16Cfg(variants[iter%len(variants)])
	co, so := cfg.Options(nil, nil)
	n := vfNewNet()
	p, err := vfNewPair(n, co, so)
	res.Eval(1)
	if err != nil {
		return
	}
	if ce, se := p.Handshake(20 * time.Second); ce != nil || se != nil {
		p.Close()

		return
	}
	time.Sleep(20 * time.Millisecond)
	tk, terr := vfNewToolkit(p)
	if terr != nil {
		p.Close()

		return
	}
	cidC, cidS := vfCIDLenOf(p.C.Conn), vfCIDLenOf(p.S.Conn)
	mark := n.LogLen()
	start := make(chan struct{})
	done := make(chan struct{}, 2)
	// the second closer starts a little after the first: the offset walks through the window in which the first
	// side's close_notify arrives while the second side's Close is on its way
	off := time.Duration(iter%16) * 40 * time.Microsecond
	go func() { <-start; _ = p.C.Conn.Close(); done <- struct{}{} }()
	go func() { <-start; time.Sleep(off); _ = p.S.Conn.Close(); done <- struct{}{} }()
	close(start)
	for i := 0; i < 2; i++ {
		select {
		case <-done:
		case <-time.After(20 * time.Second):
			res.Violate("C16:close-did-not-return:both-close-stress", "Close did not return within 20 s; "+cfg.FP(), map[string]any{"iter": iter, "both": true})
		}
	}
	time.Sleep(30 * time.Millisecond)
	res.Count("both_close_stress_checked", 1)
	for _, side := range []struct {
		name string
		cid  int
	}{{"c", cidS}, {"s", cidC}} {
		cn, _, _, _ := vfCountAlerts(n, tk, side.name, mark, side.cid)
		if cn > 1 {
			res.Violate("C16:close-notify-sent-twice:both-close-stress", fmt.Sprintf("%d close_notify alerts left endpoint %s when both applications closed at once; %s", cn, side.name, cfg.FP()),
				map[string]any{"iter": iter, "both": true})
		}
	}
	res.NonTrivial(fmt.Sprintf("bothclose/%d", iter))
	p.Close()
}

// vfC16CloseRace: the peer closes; this side's read loop answers with close_notify, and that datagram is still
// being written (socket slow for a moment) when the application calls Close here as well. One close_notify may
// leave this endpoint. Real time, for the same reason as vfC16ParkedWrite.
func vfC16CloseRace(res *vfResult, iter int) {
	variants := []string{"12-ecdsa", "12-cid", "13", "13-cid", "12-psk-cbc"}
	cfg := vfC16Cfg(variants[iter%len(variants)])
	co, so := cfg.Options(nil, nil)
	n := vfNewNet()
	p, err := vfNewPair(n, co, so)
	res.Eval(1)
	if err != nil {
		return
	}
	if ce, se := p.Handshake(20 * time.Second); ce != nil || se != nil {
		p.Close()

		return
	}
	x, y := p.C, p.S
	if iter%2 == 1 {
		x, y = p.S, p.C
	}
	time.Sleep(50 * time.Millisecond)
	tk, terr := vfNewToolkit(p)
	if terr != nil {
		p.Close()

		return
	}
	cidY := vfCIDLenOf(y.Conn)
	mark := n.LogLen()
	blk := make(chan struct{})
	x.EP.mu.Lock()
	x.EP.blockWrites = blk
	x.EP.mu.Unlock()
	done := make(chan struct{}, 2)
	go func() { _ = y.Conn.Close(); done <- struct{}{} }()
	time.Sleep(80 * time.Millisecond) // X's read loop has the peer's close_notify and its answer is parked in the socket
	go func() { _ = x.Conn.Close(); done <- struct{}{} }()
	time.Sleep(80 * time.Millisecond)
	close(blk)
	for i := 0; i < 2; i++ {
		select {
		case <-done:
		case <-time.After(20 * time.Second):
			res.Violate("C16:close-did-not-return:close-race", "Close did not return within 20 s; "+cfg.FP(), map[string]any{"iter": iter, "race": true})
		}
	}
	time.Sleep(50 * time.Millisecond)
	cn, _, _, opaque := vfCountAlerts(n, tk, x.Name, mark, cidY)
	res.Count("close_races_checked", 1)
	res.Count("close_race_undecodable_records", int64(opaque))
	if cn > 1 {
		res.Violate("C16:close-notify-sent-twice:close-racing-reply", fmt.Sprintf("%d close_notify alerts left the endpoint whose application closed while its read loop was answering the peer's close_notify; %s", cn, cfg.FP()),
			map[string]any{"iter": iter, "race": true})
	}
	res.NonTrivial(fmt.Sprintf("closerace/%d", iter))
	p.Close()
}

func TestVF_C16(t *testing.T) {
	vfGetPKI()
	res := vfNewResult("C16", "Close (1-3 concurrent callers, repeated, with a Write parked in the socket), forged fatal alerts and close_notify, "+
		"read/write deadlines and context cancellation placed on established connections and after every k-th delivered datagram of a handshake, "+
		"for five configurations and both roles, in virtual time: every API call's return is logged, alerts are decrypted and counted, goroutines of "+
		"the bubble are inspected after teardown; plus race-detector stress with concurrent Read/Write/Close/deadline/accessor callers on the real "+
		"scheduler. Distinct = placements and stress iterations")
	res.Assume("a call counts as returned when it returns within 10 s (established) / 90 s (handshake with a 40 s context) of virtual time after the action",
		"close_notify counting relies on decrypting the closing side's records with keys captured before Close; records that cannot be decrypted are counted, not judged")
	if vfEnv().Replay != "" {
		var rf struct {
			Replay struct {
				Case   vfC16Case `json:"case"`
				Iter   *int      `json:"iter"`
				Parked bool      `json:"parked"`
				ParkDL bool      `json:"parked_deadline"`
				Race   bool      `json:"race"`
				CloseI *int      `json:"close_imported"`
				Behind bool      `json:"behind"`
				Both   bool      `json:"both"`
			} `json:"replay"`
		}
		vfLoadReplay(t, &rf)
		vfDumpWire = true
		if rf.Replay.Iter != nil && rf.Replay.Both {
			for k := 0; k < 50; k++ {
				vfC16BothCloseStress(res, *rf.Replay.Iter)
			}
		} else if rf.Replay.Iter != nil && rf.Replay.Behind {
			vfC16DeadlineBehindHandshake(res, *rf.Replay.Iter)
		} else if rf.Replay.CloseI != nil {
			synctest.Test(t, func(t *testing.T) { vfC16CloseImported(t, res, *rf.Replay.CloseI) })
		} else if rf.Replay.Iter != nil && rf.Replay.ParkDL {
			vfC16ParkedWriteDeadline(res, *rf.Replay.Iter)
		} else if rf.Replay.Iter != nil && rf.Replay.Race {
			vfC16CloseRace(res, *rf.Replay.Iter)
		} else if rf.Replay.Iter != nil && rf.Replay.Parked {
			vfC16ParkedWrite(res, *rf.Replay.Iter)
		} else if rf.Replay.Iter != nil {
			vfC16Stress(res, *rf.Replay.Iter)
		} else {
			synctest.Test(t, func(t *testing.T) { vfC16Run(t, res, rf.Replay.Case) })
		}
		res.NonTrivial("replay-extra")
		res.Sample("replay")
		res.Finish(t)

		return
	}
	cases := vfC16Cases()
	vfBubbles(t, len(cases), func(t *testing.T, i int) { vfC16Run(t, res, cases[i]) })
	vfBubbles(t, vfPick(15, 90), func(t *testing.T, i int) { vfC16LateFinalFlight(t, res, i) })
	vfBubbles(t, vfPick(12, 48), func(t *testing.T, i int) { vfC16CloseImported(t, res, i) })
	vfParallel(vfPick(10, 100), func(_, i int) { vfC16ParkedWrite(res, i) })
	vfParallel(vfPick(20, 200), func(_, i int) { vfC16CloseRace(res, i) })
	vfParallel(vfPick(240, 1200), func(_, i int) { vfC16BothCloseStress(res, i) })
	vfParallel(vfPick(10, 100), func(_, i int) { vfC16ParkedWriteDeadline(res, i) })
	vfParallel(vfPick(4, 16), func(_, i int) { vfC16CloseFromCallback(res, i) })
	vfParallel(vfPick(24, 72), func(_, i int) { vfC16DeadlineBehindHandshake(res, i) })
	ns := vfPick(150, 3000)
	vfParallel(ns, func(_, i int) { vfC16Stress(res, i) })
	res.Sample(map[string]any{"placements": len(cases), "stress_iterations": ns, "x_read_results": res.SetSize("x_read_results")})
	res.Floor("teardowns_inspected", int64(len(cases)*8/10))
	res.Floor("close_notify_accounted", 20)
	res.Floor("alerts_decoded", 20)
	res.Floor("stress_iterations", int64(ns*8/10))
	res.Floor("parked_writes_checked", 8)
	res.Floor("close_races_checked", 15)
	res.Floor("writes_after_expired_deadline", 8)
	res.Finish(t)
}

var _ = bytes.Equal
