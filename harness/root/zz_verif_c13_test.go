//go:build verif

package dtls

import (
	"bytes"
	"context"
	"encoding/binary"
	"fmt"
	"strings"
	"testing"
	"testing/synctest"
	"time"

	dtlsstate "github.com/pion/dtls/v3/internal/state"
	"github.com/pion/dtls/v3/pkg/crypto/elliptic"
)

// C13 — cookie exchange. A real server with hello verification on is driven by a scripted raw
// client. The script's ClientHello bytes come from a real client that is kept as a puppet on a
// held network (its first hello, and the second hello it builds from the server's own cookie
// request), so every injected hello is either the genuine one or one named edit away from it.
//
// Oracle (every datagram the server emits is attributed to the script step that preceded it):
//   - until a ClientHello that the model calls valid (exact issued cookie, otherwise identical to
//     the first hello; DTLS 1.3: RFC 8446 4.1.2 differences only) has been delivered, the server
//     emits nothing but HelloVerifyRequest / HelloRetryRequest (alerts are counted, not judged)
//     and holds no key-exchange key pair;
//   - a cookie request appears only in the step that delivered a ClientHello, at most one per
//     delivered hello, and never in a step that only lets virtual time pass.

type vfC13Cfg struct {
	Name      string
	Ver       string // 12 | 13 | dual
	SVer      string
	PSK       bool
	CID       int
	Group     bool // DTLS 1.3: the server refuses the client's first key share (HRR carries selected_group)
	Base      string
	Resume    bool
	NoBackoff bool // the server runs with WithDisableRetransmitBackoff(true)
}

type vfC13Case struct {
	Cfg      vfC13Cfg
	Pre      int    // deliveries of the first hello before anything else
	SilenceA bool   // 10 virtual minutes of silence after the first cookie request
	Mutant   string // what is sent instead of the valid second hello
	Reps     int
	Junk     string // non-hello datagram delivered before the mutant ("" none)
	Cold     bool   // the mutant is the very first datagram the server sees
	Paced    bool   // repeated first hellos come a retransmission interval apart, not back to back
}

func (c vfC13Case) ID() string {
	id := fmt.Sprintf("%s|base=%s|pre=%d|silA=%v|junk=%s|cold=%v|mut=%s|x%d", c.Cfg.Name, c.Cfg.Base, c.Pre, c.SilenceA, c.Junk, c.Cold, c.Mutant, c.Reps)
	if c.Paced {
		id += "|paced"
	}

	return id
}

func vfC13Cfgs() []vfC13Cfg {
	var out []vfC13Cfg
	for _, base := range []string{"", "session-id-set", "ext-append-unknown", "suites-append"} {
		out = append(out,
			vfC13Cfg{Name: "12-ecdsa", Ver: "12", SVer: "12", CID: -1, Base: base},
			vfC13Cfg{Name: "12-psk", Ver: "12", SVer: "12", PSK: true, CID: -1, Base: base},
			vfC13Cfg{Name: "12-cid8", Ver: "12", SVer: "12", CID: 8, Base: base},
			vfC13Cfg{Name: "13", Ver: "13", SVer: "13", CID: -1, Base: base},
			vfC13Cfg{Name: "13-group", Ver: "13", SVer: "13", CID: -1, Group: true, Base: base},
			vfC13Cfg{Name: "13-cid4", Ver: "13", SVer: "13", CID: 4, Base: base},
			vfC13Cfg{Name: "12client-dualserver", Ver: "12", SVer: "dual", CID: -1, Base: base},
			vfC13Cfg{Name: "13client-dualserver", Ver: "13", SVer: "dual", CID: -1, Base: base},
			vfC13Cfg{Name: "dual-dual", Ver: "dual", SVer: "dual", CID: -1, Base: base},
		)
		if base == "" {
			// retransmission settings must not turn the timer into a source of cookie requests
			out = append(out,
				vfC13Cfg{Name: "12-ecdsa-nobackoff", Ver: "12", SVer: "12", CID: -1, Base: base, NoBackoff: true},
				vfC13Cfg{Name: "13-nobackoff", Ver: "13", SVer: "13", CID: -1, Base: base, NoBackoff: true},
				vfC13Cfg{Name: "dual-dual-nobackoff", Ver: "dual", SVer: "dual", CID: -1, Base: base, NoBackoff: true},
			)
		}
	}

	return out
}

func vfC13Options(c vfC13Cfg) ([]ClientOption, []ServerOption) {
	suite := vfSuiteInfo{Name: "default", Auth: "ecdsa"}
	kind := "ecdsa"
	if c.PSK {
		suite, kind = vfSuiteByName("PSK-GCM"), ""
	}
	cfg := vfBaseCfg(suite, kind)
	cfg.CVer, cfg.SVer, cfg.CIDc, cfg.CIDs, cfg.HelloVerify = c.Ver, c.SVer, c.CID, c.CID, true
	co, so := cfg.Options(nil, nil)
	if c.NoBackoff {
		so = append(so, WithDisableRetransmitBackoff(true))
	}
	// classical groups only: a hybrid key share does not fit one datagram and the script works on
	// single-fragment hellos
	if c.Group {
		co = append(co, WithEllipticCurves(elliptic.X25519, elliptic.P256))
		so = append(so, WithEllipticCurves(elliptic.P256))
	} else {
		co = append(co, WithEllipticCurves(elliptic.X25519, elliptic.P256, elliptic.P384))
		so = append(so, WithEllipticCurves(elliptic.X25519, elliptic.P256, elliptic.P384))
	}

	return co, so
}

// vfC13Hello is one plaintext single-fragment ClientHello datagram taken apart.
type vfC13Hello struct {
	RecVer uint16
	RecSeq uint64
	MsgSeq uint16
	Body   []byte
}

func vfC13ParseCH(d []byte) (h vfC13Hello, ok bool) {
	recs, pok := vfParseDatagram(d, 0)
	if !pok || len(recs) != 1 || recs[0].Unified || recs[0].Type != 22 || recs[0].Epoch != 0 {
		return h, false
	}
	hs, rest, hok := vfParseHS(recs[0].Body)
	if !hok || len(rest) != 0 || hs.Type != 1 || hs.FragOff != 0 || hs.FragLen != hs.Length {
		return h, false
	}

	return vfC13Hello{RecVer: recs[0].Version, RecSeq: recs[0].Seq, MsgSeq: hs.MsgSeq, Body: append([]byte(nil), hs.Body...)}, true
}

func (h vfC13Hello) Datagram(seq uint64) []byte {
	return vfLegacyRecord(22, h.RecVer, 0, seq, nil, -1,
		vfHSFragment(1, uint32(len(h.Body)), h.MsgSeq, 0, uint32(len(h.Body)), h.Body))
}

// vfC13Cookie extracts the cookie of a cookie request datagram ("" = not a cookie request).
func vfC13Cookie(d []byte) (cookie []byte, kind string) {
	recs, _ := vfParseDatagram(d, 0)
	for _, r := range recs {
		if r.Unified || r.Type != 22 || r.Epoch != 0 {
			continue
		}
		hs, _, ok := vfParseHS(r.Body)
		if !ok {
			continue
		}
		switch {
		case hs.Type == 3 && len(hs.Body) >= 3 && int(hs.Body[2]) == len(hs.Body)-3:
			return hs.Body[3:], "HelloVerifyRequest"
		case hs.Type == 2:
			sh, ok := vfParseHello(hs.Body, false)
			if !ok || vfHex(sh.Random) != "cf21ad74e59a6111be1d8c021e65b891c2a211167abb8c5e079e09e2c8a8339c" {
				continue
			}
			for _, e := range sh.Exts {
				if e.Type == 44 && len(e.Data) >= 2 {
					return e.Data[2:], "HelloRetryRequest"
				}
			}

			return nil, "HelloRetryRequest"
		}
	}

	return nil, ""
}

// vfC13SetCookie puts cookie into the hello (DTLS 1.2 field, or the DTLS 1.3 cookie extension when
// the hello carries one / asExt is set). nil removes it.
func vfC13SetCookie(body []byte, cookie []byte, asExt bool) []byte {
	h, ok := vfParseHello(body, true)
	if !ok {
		return nil
	}
	if !asExt {
		h.Cookie = cookie

		return h.Marshal()
	}
	var exts []vfExt
	done := false
	for _, e := range h.Exts {
		if e.Type != 44 {
			exts = append(exts, e)

			continue
		}
		if cookie != nil {
			exts = append(exts, vfExt{44, append(binary.BigEndian.AppendUint16(nil, uint16(len(cookie))), cookie...)})
		}
		done = true
	}
	if !done && cookie != nil {
		exts = append(exts, vfExt{44, append(binary.BigEndian.AppendUint16(nil, uint16(len(cookie))), cookie...)})
	}
	h.Exts = exts

	return h.Marshal()
}

func vfC13GetCookie(body []byte) (cookie []byte, asExt bool) {
	h, ok := vfParseHello(body, true)
	if !ok {
		return nil, false
	}
	for _, e := range h.Exts {
		if e.Type == 44 && len(e.Data) >= 2 {
			return e.Data[2:], true
		}
	}

	return h.Cookie, false
}

// vfC13Mutants names the second-hello variants. Each returns the new body (nil = not applicable) and
// whether the model still calls the result a valid answer to the cookie request.
type vfC13Mutant struct {
	Name string
	F    func(ch1, ch2 []byte, stale []byte, groupSelected bool) (body []byte, valid bool)
}

func vfC13Mutants() []vfC13Mutant {
	var ms []vfC13Mutant
	cookieOp := func(name string, f func(c []byte, stale []byte) []byte) {
		ms = append(ms, vfC13Mutant{Name: name, F: func(ch1, ch2, stale []byte, _ bool) ([]byte, bool) {
			c, asExt := vfC13GetCookie(ch2)
			if len(c) == 0 {
				return nil, false
			}
			nc := f(append([]byte(nil), c...), stale)
			if nc != nil && bytes.Equal(nc, c) {
				return nil, false
			}

			return vfC13SetCookie(ch2, nc, asExt), false
		}})
	}
	ms = append(ms, vfC13Mutant{Name: "valid", F: func(_, ch2, _ []byte, _ bool) ([]byte, bool) { return ch2, true }})
	ms = append(ms, vfC13Mutant{Name: "first-hello-again", F: func(ch1, _, _ []byte, _ bool) ([]byte, bool) { return ch1, false }})
	cookieOp("cookie-removed", func(c, _ []byte) []byte { return nil })
	cookieOp("cookie-empty", func(c, _ []byte) []byte { return []byte{} })
	cookieOp("cookie-flip-first", func(c, _ []byte) []byte { c[0] ^= 1; return c })
	cookieOp("cookie-flip-last", func(c, _ []byte) []byte { c[len(c)-1] ^= 0x80; return c })
	cookieOp("cookie-truncated", func(c, _ []byte) []byte { return c[:len(c)-1] })
	cookieOp("cookie-extended", func(c, _ []byte) []byte { return append(c, 0) })
	cookieOp("cookie-prefix-1", func(c, _ []byte) []byte { return c[:1] })
	cookieOp("cookie-zero", func(c, _ []byte) []byte { return make([]byte, len(c)) })
	cookieOp("cookie-stale", func(c, stale []byte) []byte {
		if len(stale) == 0 {
			return c
		}

		return append([]byte(nil), stale...)
	})
	for _, rw := range vfHelloRewrites() {
		rw := rw
		if strings.HasPrefix(rw.Name, "server-") || strings.HasPrefix(rw.Name, "hvr-") || rw.Name == "cookie-flip" ||
			strings.HasPrefix(rw.Name, "ext44-") {
			continue
		}
		ms = append(ms, vfC13Mutant{Name: "rightcookie+" + rw.Name, F: func(_, ch2, _ []byte, groupSelected bool) ([]byte, bool) {
			b := rw.F(1, append([]byte(nil), ch2...))
			if b == nil || bytes.Equal(b, ch2) {
				return nil, false
			}
			// RFC 8446 4.1.2: after a HelloRetryRequest naming a group the key_share is replaced, and
			// padding may change: such edits stay within what the statement calls "otherwise identical".
			valid := (groupSelected && strings.HasPrefix(rw.Name, "ext51-")) || strings.HasPrefix(rw.Name, "ext21-")

			return b, valid
		}})
	}

	return ms
}

func vfC13Junk(kind string, ch vfC13Hello, seq uint64) []byte {
	switch kind {
	case "garbage":
		return []byte{0x17, 0xfe, 0xfd, 0, 1, 0, 0, 0, 0, 0, 1, 0, 4, 1, 2, 3, 4}
	case "finished":
		body := bytes.Repeat([]byte{7}, 12)

		return vfLegacyRecord(22, ch.RecVer, 0, seq, nil, -1, vfHSFragment(20, 12, ch.MsgSeq+1, 0, 12, body))
	case "client-key-exchange":
		body := append([]byte{32}, bytes.Repeat([]byte{9}, 32)...)

		return vfLegacyRecord(22, ch.RecVer, 0, seq, nil, -1, vfHSFragment(16, uint32(len(body)), ch.MsgSeq+1, 0, uint32(len(body)), body))
	case "finished-seq0":
		// a non-hello message that claims the sequence number of the first hello
		body := bytes.Repeat([]byte{7}, 12)

		return vfLegacyRecord(22, ch.RecVer, 0, seq, nil, -1, vfHSFragment(20, 12, 0, 0, 12, body))
	case "finished-continuation-seq0":
		// ... and does so with a fragment that is not the first of its message (offset 12 of 24)
		body := bytes.Repeat([]byte{7}, 12)

		return vfLegacyRecord(22, ch.RecVer, 0, seq, nil, -1, vfHSFragment(20, 24, 0, 12, 12, body))
	case "empty-fragment-seq0":
		return vfLegacyRecord(22, ch.RecVer, 0, seq, nil, -1, vfHSFragment(1, uint32(len(ch.Body)), 0, 0, 0, nil))
	case "empty-ack":
		// a plaintext ACK record that acknowledges nothing
		return vfLegacyRecord(26, ch.RecVer, 0, seq, nil, -1, []byte{0, 0})
	case "ack-of-record-0":
		return vfLegacyRecord(26, ch.RecVer, 0, seq, nil, -1, append([]byte{0, 16}, make([]byte, 16)...))
	case "alert-warning":
		return vfLegacyRecord(21, ch.RecVer, 0, seq, nil, -1, []byte{1, 90})
	case "hello-fragment":
		// the first half of the hello only (a second hello never completes)
		half := len(ch.Body) / 2

		return vfLegacyRecord(22, ch.RecVer, 0, seq, nil, -1, vfHSFragment(1, uint32(len(ch.Body)), ch.MsgSeq+3, 0, uint32(half), ch.Body[:half]))
	}

	return nil
}

type vfC13Step struct {
	Name      string
	Hello     bool // the step delivered a complete ClientHello
	Valid     bool // ... that the model calls a valid answer to the cookie request
	Emissions []*vfWire
}

// vfC13ServerKeyed reports whether the server state holds a key-exchange key pair.
func vfC13ServerKeyed(c *Conn) bool {
	switch st := c.state.(type) {
	case *dtlsstate.State12:
		return st.LocalKeypair != nil
	case *dtlsstate.State13:
		return st.LocalKeypair != nil || len(st.LocalKeypairs) > 0
	}

	return false
}

func vfC13Run(t *testing.T, res *vfResult, c vfC13Case, stale []byte) (issued []byte) {
	co, so := vfC13Options(c.Cfg)
	n := vfNewNet()
	n.SetOnSend(func(*vfNet, *vfWire) {}) // held network: the script is the only carrier
	p, err := vfNewPair(n, co, so)
	res.Eval(1)
	if err != nil {
		res.Count("config_rejected", 1)

		return nil
	}
	ctx, cancel := context.WithTimeout(context.Background(), 3*time.Hour)
	defer cancel()
	done := make(chan struct{}, 2)
	go func() { p.C.Err = p.C.Conn.HandshakeContext(ctx); done <- struct{}{} }()
	go func() { p.S.Err = p.S.Conn.HandshakeContext(ctx); done <- struct{}{} }()
	synctest.Wait()
	defer func() {
		cancel()
		p.Close()
		<-done
		<-done
		synctest.Wait()
	}()
	replay := map[string]any{"case": c}
	cem := n.Emissions("c")
	if len(cem) == 0 {
		res.Count("no_first_hello", 1)

		return nil
	}
	ch1, ok := vfC13ParseCH(cem[0].Data)
	if !ok {
		res.Count("first_hello_not_single_fragment", 1)

		return nil
	}
	base := func(body []byte) []byte {
		if c.Cfg.Base == "" {
			return body
		}
		for _, rw := range vfHelloRewrites() {
			if rw.Name == c.Cfg.Base {
				if b := rw.F(1, append([]byte(nil), body...)); b != nil {
					return b
				}
			}
		}

		return body
	}
	ch1.Body = base(ch1.Body)
	var steps []*vfC13Step
	seq := ch1.RecSeq + 100
	validated := false
	cookieRequests, helloDeliveries := 0, 0
	step := func(name string, data []byte, hello, valid bool) *vfC13Step {
		mark := n.LogLen()
		switch {
		case data != nil:
			n.Deliver(vfServerAddr, data, vfAddr(vfClientAddr))
		case strings.HasPrefix(name, "pause"):
			time.Sleep(1500 * time.Millisecond) // what a client's retransmission timer lets pass between two copies
		default:
			time.Sleep(10 * time.Minute)
		}
		synctest.Wait()
		st := &vfC13Step{Name: name, Hello: hello, Valid: valid}
		for _, w := range n.LogSince(mark) {
			if !w.Deliver && w.From == "s" {
				st.Emissions = append(st.Emissions, w)
			}
		}
		steps = append(steps, st)
		if hello {
			helloDeliveries++
		}
		if valid {
			validated = true
		}
		// --- oracle, applied per step
		reqs := 0
		for _, w := range st.Emissions {
			kind := vfKind(w.Data)
			_, ck := vfC13Cookie(w.Data)
			switch {
			case ck != "" && (kind == "HelloVerifyRequest" || kind == "HelloRetryRequest"):
				reqs++
				cookieRequests++
				res.Count("cookie_requests_observed", 1)
				// a sender that never sees the request (spoofed source) can only guess: a cookie made of one repeated
				// byte value is a guess that succeeds, so issuing one defeats the exchange
				if ckb, _ := vfC13Cookie(w.Data); len(ckb) >= 8 && bytes.Count(ckb, ckb[:1]) == len(ckb) {
					res.Violate(fmt.Sprintf("C13:%s:predictable-cookie-issued:%s", vfC13Family(c.Cfg), vfC13StepClass(name)),
						fmt.Sprintf("the server issued the cookie %x (%d equal bytes) in step %q: a blind sender can echo it without having received the request; %s", ckb, len(ckb), name, c.ID()), replay)
				}
			case strings.HasPrefix(kind, "type21-"):
				res.Count("alerts_observed", 1)
			case !validated:
				res.Violate(fmt.Sprintf("C13:%s:proceeded-before-cookie-validated:after=%s:%s", vfC13Family(c.Cfg), vfC13StepClass(name), vfC13Difference(c, name)),
					fmt.Sprintf("server emitted %s (%d bytes) after step %q although no valid cookie-bearing ClientHello had been delivered; %s",
						vfDescribe(w.Data, 0), len(w.Data), name, c.ID()), replay)
				validated = true // what follows is a consequence of the same event
			default:
				res.Count("post_validation_emissions", 1)
			}
		}
		if reqs > 0 && !hello {
			res.Violate(fmt.Sprintf("C13:%s:cookie-request-without-clienthello:%s", vfC13Family(c.Cfg), name),
				fmt.Sprintf("%d cookie request(s) emitted in step %q, which delivered no ClientHello (timer- or junk-driven); %s", reqs, name, c.ID()), replay)
		}
		if reqs > 1 {
			res.Violate(fmt.Sprintf("C13:%s:several-cookie-requests-per-hello:%s", vfC13Family(c.Cfg), vfC13StepClass(name)),
				fmt.Sprintf("%d cookie requests answered one delivered ClientHello in step %q; %s", reqs, name, c.ID()), replay)
		}
		if !validated && vfC13ServerKeyed(p.S.Conn) {
			// same event class as an emitted flight: the server went past the cookie check (seen in its state)
			res.Violate(fmt.Sprintf("C13:%s:proceeded-before-cookie-validated:after=%s:%s", vfC13Family(c.Cfg), vfC13StepClass(name), vfC13Difference(c, name)),
				fmt.Sprintf("server state holds an ephemeral key pair after step %q although no valid cookie-bearing ClientHello had been delivered; %s", name, c.ID()), replay)
			validated = true
		}
		res.Count("steps_judged", 1)

		return st
	}
	next := func() uint64 { seq += 3; return seq }

	var ch2 vfC13Hello
	groupSelected := false
	if c.Cold {
		// no first hello: the second-hello variant built from a cookie the server never issued
		fake := bytes.Repeat([]byte{0xa5}, 20)
		if len(stale) > 0 {
			fake = stale
		}
		ch2 = ch1
		ch2.MsgSeq = ch1.MsgSeq
		ch2.Body = vfC13SetCookie(ch1.Body, fake, c.Cfg.Ver != "12" && c.Cfg.Name != "12client-dualserver")
		if ch2.Body == nil {
			return nil
		}
		st := step("cold:hello-with-unissued-cookie", ch2.Datagram(next()), true, false)
		for _, w := range st.Emissions {
			if ck, kind := vfC13Cookie(w.Data); kind != "" {
				issued = ck
			}
		}
		res.NonTrivial(c.ID())
		step("cold:silence", nil, false, false)

		return issued
	}
	var request []byte
	for i := 0; i < c.Pre; i++ {
		if i > 0 && c.Paced {
			// the repeated first hello comes a retransmission interval later, as from a client whose request was lost
			step("pause-before-repeated-hello", nil, false, false)
		}
		st := step(fmt.Sprintf("first-hello#%d", i), ch1.Datagram(next()), true, false)
		for _, w := range st.Emissions {
			if ck, kind := vfC13Cookie(w.Data); kind != "" {
				issued, request = ck, w.Data
			}
		}
	}
	if request == nil {
		res.Count("no_cookie_request_for_first_hello", 1)
		res.Seen("no_cookie_request", c.Cfg.Name+"|"+c.Cfg.Base)

		return nil
	}
	if c.SilenceA {
		step("silence-after-request", nil, false, false)
	}
	// let the puppet client answer the request: its second hello is the genuine one
	before := len(n.Emissions("c"))
	n.Deliver(vfClientAddr, request, vfAddr(vfServerAddr))
	synctest.Wait()
	cem = n.Emissions("c")
	found := false
	for _, w := range cem[before:] {
		if h, ok := vfC13ParseCH(w.Data); ok {
			if ck, _ := vfC13GetCookie(h.Body); len(ck) > 0 {
				ch2, found = h, true

				break
			}
		}
	}
	if !found {
		res.Count("client_refused_cookie_request", 1)
		res.Seen("client_refused", c.Cfg.Name+"|"+c.Cfg.Base)

		return issued
	}
	ch2.Body = base(ch2.Body)
	if h1, ok1 := vfParseHello(ch1.Body, true); ok1 {
		if h2, ok2 := vfParseHello(ch2.Body, true); ok2 {
			for _, e := range h2.Exts {
				if e.Type == 51 {
					for _, e1 := range h1.Exts {
						if e1.Type == 51 && !bytes.Equal(e.Data, e1.Data) {
							groupSelected = true
						}
					}
				}
			}
		}
	}
	var mut *vfC13Mutant
	for _, m := range vfC13Mutants() {
		if m.Name == c.Mutant {
			m := m
			mut = &m
		}
	}
	if mut == nil {
		res.Inconc("unknown mutant " + c.Mutant)

		return issued
	}
	body, valid := mut.F(ch1.Body, ch2.Body, stale, groupSelected)
	if body == nil {
		res.Count("mutant_not_applicable", 1)

		return issued
	}
	if c.Junk != "" {
		if j := vfC13Junk(c.Junk, ch2, next()); j != nil {
			// a fragment that carries the ClientHello type and the first hello's sequence number is, for the
			// server, part of a repeated first hello: answering it is "in direct response to a ClientHello"
			step("junk:"+c.Junk, j, c.Junk == "empty-fragment-seq0", false)
		}
	}
	m := ch2
	m.Body = body
	for i := 0; i < c.Reps; i++ {
		st := step(fmt.Sprintf("second-hello:%s#%d", c.Mutant, i), m.Datagram(next()), true, valid)
		if valid {
			proceeded := false
			for _, w := range st.Emissions {
				if _, kind := vfC13Cookie(w.Data); kind == "" && strings.Contains(vfKind(w.Data), "ServerHello") {
					proceeded = true
				}
			}
			if proceeded {
				res.Count("valid_second_hello_answered_with_serverhello", 1)
			}
		}
	}
	res.NonTrivial(c.ID())
	if !valid {
		res.Count("invalid_second_hellos_judged", 1)
		res.Seen("invalid_mutants_exercised", c.Cfg.Name+"|"+c.Mutant)
		step("silence-after-invalid", nil, false, false)
		// the genuine answer afterwards: counted (a server may also have given up), never judged
		st := step("valid-after-invalid", ch2.Datagram(next()), true, true)
		for _, w := range st.Emissions {
			if strings.Contains(vfKind(w.Data), "ServerHello") {
				res.Count("recovered_with_valid_hello_after_invalid", 1)

				break
			}
		}
	}
	if res.Get("samples_taken") < 8 && len(steps) > 1 {
		res.Count("samples_taken", 1)
		var tr []string
		for _, s := range steps {
			var em []string
			for _, w := range s.Emissions {
				em = append(em, fmt.Sprintf("%s(%dB)", vfKind(w.Data), len(w.Data)))
			}
			tr = append(tr, fmt.Sprintf("%s -> [%s]", s.Name, strings.Join(em, ", ")))
		}
		res.Sample(map[string]any{"case": c.ID(), "trace": tr})
	}

	return issued
}

// vfC13StepClass is the script step without its repetition index and variant name.
func vfC13StepClass(name string) string {
	if i := strings.IndexAny(name, "#:"); i >= 0 {
		name = name[:i]
	}

	return name
}

// vfC13Family: the handshake family the server speaks with this client.
func vfC13Family(c vfC13Cfg) string {
	if c.Ver == "12" {
		return "v12"
	}

	return "v13"
}

// vfC13Difference names, for a second-hello step, how the delivered hello differs from a valid answer.
func vfC13Difference(c vfC13Case, step string) string {
	if !strings.HasPrefix(step, "second-hello:") && !strings.HasPrefix(step, "cold:") {
		return "-"
	}
	m := strings.TrimPrefix(c.Mutant, "rightcookie+")
	if strings.HasPrefix(m, "ext") {
		return "right-cookie-but-extensions-differ"
	}
	if m != c.Mutant {
		return "right-cookie-but-" + m
	}

	return m
}

func vfC13Cases() []vfC13Case {
	var cases []vfC13Case
	muts := vfC13Mutants()
	for _, cfg := range vfC13Cfgs() {
		for _, m := range muts {
			// exhaustive over mutants for the plain script ...
			cases = append(cases, vfC13Case{Cfg: cfg, Pre: 1, Mutant: m.Name, Reps: 1})
			if cfg.Base != "" {
				continue
			}
			// ... and the script dimensions on the unmodified hello shape
			cases = append(cases, vfC13Case{Cfg: cfg, Pre: 3, SilenceA: true, Mutant: m.Name, Reps: 2})
			if m.Name == "valid" || m.Name == "cookie-flip-last" {
				cases = append(cases, vfC13Case{Cfg: cfg, Pre: 3, SilenceA: true, Mutant: m.Name, Reps: 1, Paced: true})
			}
		}
		for _, j := range []string{"garbage", "finished", "client-key-exchange", "alert-warning", "hello-fragment", "finished-seq0", "finished-continuation-seq0", "empty-fragment-seq0", "empty-ack", "ack-of-record-0"} {
			cases = append(cases, vfC13Case{Cfg: cfg, Pre: 2, Junk: j, Mutant: "cookie-flip-last", Reps: 1})
			cases = append(cases, vfC13Case{Cfg: cfg, Pre: 1, Junk: j, SilenceA: true, Mutant: "valid", Reps: 1})
		}
		cases = append(cases, vfC13Case{Cfg: cfg, Cold: true, Mutant: "cold", Reps: 1})
	}

	return cases
}

func TestVF_C13(t *testing.T) {
	vfGetPKI()
	res := vfNewResult("C13", "scripted raw client against a real server with hello verification on: genuine first and second ClientHello taken from a "+
		"puppet client, second-hello variants (cookie removed/empty/flipped/truncated/extended/stale, right cookie with every other field or "+
		"extension edited), repeated first hellos, junk datagrams and 10-minute silences in virtual time; every server emission is attributed to the "+
		"script step before it. Distinct = distinct (configuration, hello shape, script, variant) cases")
	res.Assume("alerts are counted, not judged (the statement forbids ServerHello, certificate and key exchange)",
		"a ClientHello that resumes a session the server knows is outside the statement and not generated",
		"DTLS 1.3: a replaced key_share after a HelloRetryRequest naming a group and padding changes count as 'otherwise identical' (RFC 8446 4.1.2)")
	if vfEnv().Replay != "" {
		var rf struct {
			Replay struct {
				Case vfC13Case `json:"case"`
			} `json:"replay"`
		}
		vfLoadReplay(t, &rf)
		vfDumpWire = true
		synctest.Test(t, func(t *testing.T) {
			stale := vfC13Run(t, vfNewResult("C13", "stale"), vfC13Case{Cfg: rf.Replay.Case.Cfg, Pre: 1, Mutant: "valid", Reps: 1}, nil)
			vfC13Run(t, res, rf.Replay.Case, stale)
		})
		res.NonTrivial("replay-extra")
		res.Sample("replay")
		res.Finish(t)

		return
	}
	cases := vfC13Cases()
	if vfThorough() {
		// PRNG scripts on top of the exhaustive table
		muts := vfC13Mutants()
		cfgs := vfC13Cfgs()
		junk := []string{"", "", "garbage", "finished", "client-key-exchange", "alert-warning", "hello-fragment", "finished-seq0", "finished-continuation-seq0", "empty-fragment-seq0", "empty-ack", "ack-of-record-0"}
		for i := 0; i < 30000; i++ {
			r := vfRand("C13", i)
			cases = append(cases, vfC13Case{
				Cfg: cfgs[r.IntN(len(cfgs))], Pre: 1 + r.IntN(4), SilenceA: r.IntN(2) == 0,
				Mutant: muts[r.IntN(len(muts))].Name, Reps: 1 + r.IntN(3), Junk: junk[r.IntN(len(junk))],
			})
		}
	}
	vfBubbles(t, len(cases), func(t *testing.T, i int) {
		c := cases[i]
		// the stale cookie comes from an earlier connection to an identically configured server
		stale := vfC13Run(t, vfNewResult("C13", "stale"), vfC13Case{Cfg: c.Cfg, Pre: 1, Mutant: "valid", Reps: 1}, nil)
		vfC13Run(t, res, c, stale)
	})
	res.Floor("invalid_second_hellos_judged", int64(len(cases)/3))
	res.Floor("cookie_requests_observed", int64(len(cases)/2))
	res.Floor("valid_second_hello_answered_with_serverhello", 20)
	res.Finish(t)
}
