//go:build verif

package dtls

// C05 Record authenticity. On an established pair the router holds each genuine application
// record R, injects its mutant set (every bit / field / truncation / extension / splice) one by
// one in lock step (deliver, wait for quiescence, observe), then releases R. Oracle: a non-authentic
// protected record has no effect (nothing delivered, nothing emitted, R still accepted); the
// delivered payloads are exactly the written ones, once each.

import (
	"bytes"
	"encoding/binary"
	"fmt"
	"strings"
	"testing"
	"testing/synctest"
	"time"
)

type vfC05Case struct {
	Suite   vfSuiteInfo
	CIDc    int
	CIDs    int
	Padding bool
	Size    int
	Dir     string // "c" = client writes, server receives
}

func (c vfC05Case) ID() string {
	return fmt.Sprintf("%s/cid%d,%d/pad%v/size%d/from-%s", c.Suite.Name, c.CIDc, c.CIDs, c.Padding, c.Size, c.Dir)
}

type vfMutant struct {
	Data  []byte
	Class string
	// Exempt: the mutant no longer "claims protection" in the sense of the statement
	// (epoch 0, or DTLS 1.2 content type change_cipher_spec which is unauthenticated by design)
	Exempt bool
}

// vfRecordMutants builds the mutant set of one datagram that consists of exactly one record.
func vfRecordMutants(r []byte, cidLen int, is13 bool, thorough bool, seed string) []vfMutant {
	var out []vfMutant
	add := func(b []byte, class string) {
		if bytes.Equal(b, r) || len(b) == 0 {
			return
		}
		m := vfMutant{Data: b, Class: class}
		if !is13 && b[0]&0xe0 != 0x20 && len(b) >= 5 {
			if b[0] == 20 {
				m.Exempt = true
			}
			if binary.BigEndian.Uint16(b[3:]) == 0 {
				m.Exempt = true
			}
		}
		if is13 && b[0]&0xe0 != 0x20 {
			// became a plaintext-format record: epoch must be non-zero to claim protection
			if len(b) >= 5 && binary.BigEndian.Uint16(b[3:]) == 0 {
				m.Exempt = true
			}
		}
		out = append(out, m)
	}
	hdrLen := 13
	if !is13 && r[0] == 25 {
		hdrLen = 13 + cidLen
	}
	if r[0]&0xe0 == 0x20 {
		hdrLen = 1
		if r[0]&0x10 != 0 {
			hdrLen += cidLen
		}
		if r[0]&0x08 != 0 {
			hdrLen += 2
		} else {
			hdrLen++
		}
		if r[0]&0x04 != 0 {
			hdrLen += 2
		}
	}
	rr := vfRand("C05/mut/"+seed, len(r))
	// bit flips: every bit for short records / headers, one bit per byte beyond
	for i := 0; i < len(r); i++ {
		allBits := i < hdrLen || len(r) <= 64 || thorough && len(r) <= 300
		if !allBits && len(r) > 2000 && i%7 != 0 && !thorough {
			continue
		}
		if allBits {
			for b := uint(0); b < 8; b++ {
				m := bytes.Clone(r)
				m[i] ^= 1 << b
				region := "body"
				if i < hdrLen {
					region = fmt.Sprintf("header-byte%d", i)
				}
				add(m, "bitflip:"+region)
			}
		} else {
			m := bytes.Clone(r)
			m[i] ^= 1 << uint(rr.IntN(8))
			add(m, "bitflip:body")
		}
	}
	// unified header: the same record re-framed without its length field (legal for the last record of a datagram).
	// The header as sent is part of the additional data, so the re-framed record is not authentic.
	if r[0]&0xe0 == 0x20 && r[0]&0x04 != 0 && len(r) > hdrLen {
		m := append([]byte{r[0] &^ 0x04}, r[1:hdrLen-2]...)
		m = append(m, r[hdrLen:]...)
		add(m, "unified-header:length-field-removed")
	}
	// truncation at every length (stride for big records), extension inside the record
	step := 1
	if len(r) > 400 && !thorough {
		step = len(r) / 200
	}
	for l := 0; l < len(r); l += step {
		add(bytes.Clone(r[:l]), "truncate")
	}
	if r[0]&0xe0 != 0x20 && len(r) >= hdrLen {
		// legacy header: fix the length field so the extension is inside the record
		for _, extra := range []int{1, 16} {
			m := append(bytes.Clone(r), vfRandBytes(rr, extra)...)
			binary.BigEndian.PutUint16(m[hdrLen-2:], uint16(len(m)-hdrLen))
			add(m, "extend")
		}
		for _, d := range []int{-1, 1} {
			m := bytes.Clone(r)
			binary.BigEndian.PutUint16(m[hdrLen-2:], uint16(int(binary.BigEndian.Uint16(m[hdrLen-2:]))+d))
			add(m, "length-field")
		}
		// field edits
		for _, ct := range []byte{20, 21, 22, 23, 24, 25, 26} {
			m := bytes.Clone(r)
			m[0] = ct
			add(m, "content-type")
		}
		for _, v := range [][2]byte{{0xfe, 0xff}, {0xfe, 0xfc}, {3, 3}} {
			m := bytes.Clone(r)
			m[1], m[2] = v[0], v[1]
			add(m, "version")
		}
		ep := binary.BigEndian.Uint16(r[3:])
		for _, e := range []uint16{ep + 1, ep - 1, ep + 2} {
			m := bytes.Clone(r)
			binary.BigEndian.PutUint16(m[3:], e)
			add(m, "epoch")
		}
		seq := uint64(r[5])<<40 | uint64(r[6])<<32 | uint64(r[7])<<24 | uint64(r[8])<<16 | uint64(r[9])<<8 | uint64(r[10])
		for _, s2 := range []uint64{seq + 1, seq - 1, seq + 1<<16, seq + 2} {
			m := bytes.Clone(r)
			s2 &= 0xffffffffffff
			m[5], m[6], m[7], m[8], m[9], m[10] = byte(s2>>40), byte(s2>>32), byte(s2>>24), byte(s2>>16), byte(s2>>8), byte(s2)
			add(m, "sequence-number")
		}
		if r[0] == 25 && cidLen > 0 {
			m := bytes.Clone(r)
			m[11] ^= 0xff
			add(m, "cid")
			// re-framed without the CID header form
			m2 := append(bytes.Clone(r[:11]), r[11+cidLen:]...)
			m2[0] = 23
			add(m2, "reframe-no-cid")
		} else if r[0] != 25 {
			// re-framed as a tls12_cid record with an invented CID
			m2 := append(append(bytes.Clone(r[:11]), 0xAA, 0xBB, 0xCC, 0xDD), r[11:]...)
			m2[0] = 25
			add(m2, "reframe-with-cid")
		}
	} else if r[0]&0xe0 == 0x20 {
		for _, bit := range []byte{0x10, 0x08, 0x04, 0x01, 0x02, 0x03} {
			m := bytes.Clone(r)
			m[0] ^= bit
			add(m, "unified-header-bits")
		}
		m := append(bytes.Clone(r), vfRandBytes(rr, 16)...)
		add(m, "extend")
	}

	return out
}

func vfC05Run(t *testing.T, res *vfResult, c vfC05Case) {
	cfg := vfBaseCfg(c.Suite, "ecdsa")
	if c.Suite.Auth == "rsa" {
		cfg.CertKind = "rsa"
	}
	if c.Suite.Auth == "tls13" {
		cfg.CVer, cfg.SVer, cfg.HelloVerify = "13", "13", false
	}
	cfg.CIDc, cfg.CIDs, cfg.Padding = c.CIDc, c.CIDs, c.Padding
	mk := func() (*vfPair, *vfNet, bool) {
		n := vfNewNet()
		co, so := cfg.Options(nil, nil)
		p, err := vfNewPair(n, co, so)
		if err != nil {
			return nil, nil, false
		}
		if ce, se := p.Handshake(time.Minute); ce != nil || se != nil {
			p.Close()
			synctest.Wait()

			return nil, nil, false
		}
		p.C.StartPump()
		p.S.StartPump()
		time.Sleep(3 * time.Second) // let post-handshake flights (tickets, ACKs) settle
		synctest.Wait()

		return p, n, true
	}
	p, n, ok := mk()
	res.Eval(1)
	if !ok {
		res.Count("session_failed", 1)

		return
	}
	// parallel session with the same configuration, for splices
	p2, n2, ok2 := mk()
	sender, receiver := vfSideOf(p, c.Dir)
	is13 := vfIs13(p.C.Conn)
	cidLen := vfCIDLenOf(receiver.Conn)
	// hold the sender's records
	var held [][]byte
	n.SetOnSend(func(n *vfNet, w *vfWire) {
		if w.From == sender.Name {
			held = append(held, w.Data)

			return
		}
		n.Deliver(w.Dst, w.Data, vfAddrOf(w.From))
	})
	r := vfRand("C05/"+c.ID(), 0)
	payload := append([]byte(fmt.Sprintf("P-%s-", vfShortHash(c.ID()))), vfRandBytes(r, c.Size)...)
	payload = payload[len(payload)-c.Size:]
	if c.Size >= 16 {
		copy(payload, []byte("P-"+vfShortHash(c.ID())))
	}
	if _, err := sender.Conn.Write(payload); err != nil {
		res.Count("write_failed", 1)
		res.Seen("write_errors", fmt.Sprintf("%s size %d: %v", c.Suite.Name, c.Size, err))
		p.Close()
		if ok2 {
			p2.Close()
		}
		synctest.Wait()

		return
	}
	synctest.Wait()
	if len(held) == 1 && strings.Contains(c.Suite.Name, "CBC") && c.Size%2 == 0 && c.Size <= 4000 {
		// the same payload as a peer would send it that pads generously (RFC 5246 allows up to 255 padding bytes; this
		// library pads minimally): sealed with the sender's own keys, 251 bytes of padding
		if tk, terr := vfNewToolkit(p); terr == nil {
			tk.padLen = 251
			ep, first := tk.reserve(sender.Name, 1)
			if rec, serr := tk.Seal(sender.Name, ep, first, 23, payload, r.Uint64()); serr == nil {
				held[0] = rec
				res.Count("cbc_records_with_long_padding", 1)
			}
		}
	}
	if len(held) != 1 {
		res.Count("unexpected_record_count", 1)
		p.Close()
		if ok2 {
			p2.Close()
		}
		synctest.Wait()

		return
	}
	R := held[0]
	recs, okp := vfParseDatagram(R, cidLen)
	if !okp || len(recs) != 1 {
		res.Count("datagram_not_single_record", 1)
	}
	muts := vfRecordMutants(R, cidLen, is13, vfThorough(), c.ID())
	if ok2 {
		// same-index record of the parallel session
		s2, _ := vfSideOf(p2, c.Dir)
		var held2 [][]byte
		n2.SetOnSend(func(n *vfNet, w *vfWire) {
			if w.From == s2.Name {
				held2 = append(held2, w.Data)
			}
		})
		_, _ = s2.Conn.Write(payload)
		synctest.Wait()
		for _, h := range held2 {
			muts = append(muts, vfMutant{Data: h, Class: "splice-parallel-session"})
		}
	}
	// Records that claim a protected epoch but carry plain content (never sealed by anybody): every epoch from 1 up
	// to the receiver's current read epoch and one beyond, every content type that has an effect when obeyed.
	{
		cur := int(vfCommon(receiver.Conn).RemoteEpoch())
		localCID := vfCommon(receiver.Conn).LocalConnectionIDForInboundRecords()
		bodies := map[uint8][]byte{
			21: {2, 40},                               // fatal handshake_failure
			23: []byte("PLAINTEXT-CLAIMING-AN-EPOCH"), // application data
			22: vfHSFragment(1, 40, 9, 0, 40, make([]byte, 40)),
			26: {0, 0},
		}
		seq := uint64(5000)
		for e := 1; e <= cur+1 && e <= 8; e++ {
			for _, ct := range []uint8{21, 23, 22, 26} {
				seq++
				muts = append(muts, vfMutant{Data: vfLegacyRecord(ct, 0xfefd, uint16(e), seq, nil, -1, bodies[ct]),
					Class: fmt.Sprintf("plaintext-claiming-epoch:type%d:%s", ct, map[bool]string{true: "current-or-later", false: "earlier"}[e >= cur])})
				if len(localCID) > 0 {
					seq++
					inner := append(append([]byte{}, bodies[ct]...), ct)
					muts = append(muts, vfMutant{Data: vfLegacyRecord(25, 0xfefd, uint16(e), seq, localCID, -1, inner),
						Class: fmt.Sprintf("plaintext-claiming-epoch:cid-framed-type%d:%s", ct, map[bool]string{true: "current-or-later", false: "earlier"}[e >= cur])})
				}
			}
		}
	}
	layout := "nocid"
	if cidLen > 0 {
		layout = "cid"
	}
	kind := c.Suite.Name
	sigBase := fmt.Sprintf("%s:%s", kind, layout)
	readsBefore := len(receiver.ReadsSnapshot())
	judged := 0
	for _, m := range muts {
		e0 := len(n.Emissions(receiver.Name))
		r0 := len(receiver.ReadsSnapshot())
		// what the connection would export about the records it has received (ConnectionState is a copy of it)
		st0, _ := receiver.Conn.ConnectionState()
		n.Deliver(string(receiver.EP.addr), m.Data, vfAddrOf(sender.Name))
		synctest.Wait()
		emitted := len(n.Emissions(receiver.Name)) - e0
		delivered := len(receiver.ReadsSnapshot()) - r0
		if st1, ok := receiver.Conn.ConnectionState(); ok && !m.Exempt && st1.acceptedRemoteSequence != st0.acceptedRemoteSequence {
			res.Violate("C05:forgery-left-a-trace-in-exported-state:"+sigBase,
				fmt.Sprintf("%s: a non-authentic record (%s) changed the connection's exportable state: highest accepted record number %d -> %d", c.ID(), m.Class, st0.acceptedRemoteSequence, st1.acceptedRemoteSequence),
				map[string]any{"case": c.ID(), "mutant": vfHex(m.Data[:min(len(m.Data), 200)])})
		}
		res.Count("mutants_injected", 1)
		if m.Exempt {
			res.Count("mutants_exempt", 1)

			continue
		}
		judged++
		res.Count("mutants/"+strings.SplitN(m.Class, ":", 2)[0], 1)
		if delivered > 0 {
			got := receiver.ReadsSnapshot()[r0]
			res.Violate("C05:forgery-delivered:"+sigBase+":"+m.Class,
				fmt.Sprintf("%s: a non-authentic record (%s) made Read return %d bytes (%s...)", c.ID(), m.Class, len(got), vfHex(got[:min(len(got), 16)])),
				map[string]any{"case": c.ID(), "genuine": vfHex(R[:min(len(R), 200)]), "mutant": vfHex(m.Data[:min(len(m.Data), 200)])})
		}
		if emitted > 0 {
			em := n.Emissions(receiver.Name)[e0]
			res.Violate("C05:emission-on-forgery:"+sigBase+":"+m.Class,
				fmt.Sprintf("%s: a non-authentic record (%s) made the receiver emit %d datagram(s): %s", c.ID(), m.Class, emitted, vfDescribe(em.Data, 0)),
				map[string]any{"case": c.ID(), "mutant": vfHex(m.Data[:min(len(m.Data), 200)])})
		}
		if receiver.EP.IsClosed() {
			res.Violate("C05:closed-by-forgery:"+sigBase+":"+m.Class, fmt.Sprintf("%s: a non-authentic record (%s) closed the connection", c.ID(), m.Class), nil)

			break
		}
	}
	// now the genuine record
	n.Deliver(string(receiver.EP.addr), R, vfAddrOf(sender.Name))
	synctest.Wait()
	reads := receiver.ReadsSnapshot()[readsBefore:]
	matches := 0
	for _, got := range reads {
		if bytes.Equal(got, payload) {
			matches++
		}
	}
	if matches != 1 {
		res.Violate("C05:genuine-record-not-accepted:"+sigBase,
			fmt.Sprintf("%s: after %d non-authentic variants the genuine record was delivered %d times (reads in this phase: %d)", c.ID(), judged, matches, len(reads)),
			map[string]any{"case": c.ID()})
	} else {
		res.Count("genuine_accepted_after_mutants", 1)
	}
	if len(reads) > matches {
		res.Count("extra_reads", int64(len(reads)-matches))
	}
	res.NonTrivial(c.ID())
	res.Count("sessions/"+c.Suite.Name, 1)
	if res.Get("samples_taken") < 6 {
		res.Count("samples_taken", 1)
		res.Sample(map[string]any{"case": c.ID(), "record_bytes": len(R), "mutants": len(muts), "judged": judged, "genuine_delivered": matches})
	}
	p.Close()
	if ok2 {
		p2.Close()
	}
	synctest.Wait()
}

func TestVF_C05(t *testing.T) {
	vfGetPKI()
	res := vfNewResult("C05", "per cipher suite x CID layout {none, 4/4, 0/8, 8/0} x padding x payload size {0,1,15,16,17,255,1200,8000} x direction: "+
		"the genuine record is held, every mutant (each bit of header and short bodies, one bit per byte beyond, content type, version, epoch, "+
		"sequence number, length field, CID, unified-header bits, truncation at every length, extension, re-framing, same-index record of a "+
		"parallel session) is delivered in lock step, then the genuine record. Distinct = distinct (suite, layout, padding, size, direction)")
	res.Assume("mutants whose content type becomes change_cipher_spec (DTLS 1.2) or whose epoch becomes 0 no longer claim protection and are exempt",
		"no virtual time passes during the mutant phase, so every emission is a reaction to the injected record")
	var cases []vfC05Case
	sizes := []int{0, 1, 15, 16, 17, 255, 1200, 8000}
	layouts := [][2]int{{-1, -1}, {4, 4}, {0, 8}, {8, 0}}
	k := 0
	for _, s := range vfAllSuites() {
		for li, l := range layouts {
			for _, pad := range []bool{false, true} {
				if pad && l[0] < 0 {
					continue
				}
				for si, size := range sizes {
					for _, dir := range []string{"c", "s"} {
						k++
						if !vfThorough() && (k+li+si)%7 != 0 {
							continue
						}
						cases = append(cases, vfC05Case{Suite: s, CIDc: l[0], CIDs: l[1], Padding: pad, Size: size, Dir: dir})
					}
				}
			}
		}
	}
	vfCaseName = func(i int) string { return cases[i].ID() }
	vfBubbles(t, len(cases), func(t *testing.T, i int) { vfC05Run(t, res, cases[i]) })
	vfCaseName = nil
	for _, s := range vfAllSuites() {
		if res.Get("sessions/"+s.Name) == 0 {
			res.Inconc("no session for suite " + s.Name)
		}
	}
	res.Floor("mutants_injected", 10000)
	res.Floor("genuine_accepted_after_mutants", 50)
	res.Finish(t)
}
