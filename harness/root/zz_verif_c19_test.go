//go:build verif

package dtls

import (
	"bytes"
	"context"
	"encoding/gob"
	"errors"
	"fmt"
	"net"
	"reflect"
	"strings"
	"sync"
	"sync/atomic"
	"testing"
	"testing/synctest"
	"time"

	"github.com/pion/dtls/v3/pkg/protocol"
)

// C19 — exported state. After i payloads one way and j the other, side X's ConnectionState() is
// marshalled, the old Conn is cut off from the socket without a word to the peer, and a new Conn is
// resumed from the bytes on the same address. Oracle: payloads in both directions arrive intact and
// once; exporter output and negotiated parameters equal the original's; the (epoch, sequence number)
// pairs X put on the wire after the export are all new and above the ones before. Corrupted bytes
// (every truncation, one bit per byte, bytes zeroed, junk appended) are fed through the same path in a
// child-process-safe way: no panic, and the peer never delivers a payload nobody wrote.

// vfDetach is the socket as one Conn sees it: it can be cut off without closing the endpoint.
type vfDetach struct {
	ep   *vfEndpoint
	mu   sync.Mutex
	gone bool
}

func (d *vfDetach) ReadFrom(b []byte) (int, net.Addr, error) {
	for {
		d.mu.Lock()
		gone := d.gone
		d.mu.Unlock()
		if gone {
			return 0, nil, net.ErrClosed
		}
		n, a, err := d.ep.ReadFrom(b)
		d.mu.Lock()
		gone = d.gone
		d.mu.Unlock()
		if gone {
			return 0, nil, net.ErrClosed
		}

		return n, a, err
	}
}

func (d *vfDetach) WriteTo(b []byte, a net.Addr) (int, error) {
	d.mu.Lock()
	gone := d.gone
	d.mu.Unlock()
	if gone {
		return len(b), nil // the abandoned Conn's close_notify never reaches the wire
	}

	return d.ep.WriteTo(b, a)
}

// Detach cuts the Conn off; a pending ReadFrom returns.
func (d *vfDetach) Detach() {
	d.mu.Lock()
	d.gone = true
	d.mu.Unlock()
	_ = d.ep.SetReadDeadline(time.Unix(1, 0))
}
func (d *vfDetach) Close() error                       { return nil }
func (d *vfDetach) LocalAddr() net.Addr                { return d.ep.LocalAddr() }
func (d *vfDetach) SetDeadline(t time.Time) error      { return nil }
func (d *vfDetach) SetReadDeadline(t time.Time) error  { return d.ep.SetReadDeadline(t) }
func (d *vfDetach) SetWriteDeadline(t time.Time) error { return nil }

type vfC19Case struct {
	Suite string
	CID   int // -1 none
	SRTP  bool
	ALPN  bool
	Side  string // c | s | both
	I, J  int
	Idx   int
	// Forward: before the pre-export traffic the exported side's send counter is advanced to this value (a
	// connection that has been running for a long time; sequence numbers have 48 bits). 0: untouched.
	Forward uint64
	// DualOpts: the exported endpoint was created, and is resumed, with options that enable DTLS 1.2 and 1.3 (its peer
	// is 1.2-only, so DTLS 1.2 was negotiated). Poll: the first call on the resumed connection is a Read whose deadline
	// has already passed (the non-blocking poll idiom).
	DualOpts bool
	Poll     bool
	// Move: the resumed connection speaks from another UDP address (only where the untouched peer receives records
	// with a connection ID and can therefore follow)
	Move bool
	// Forged: before the export the exported side receives an unauthentic record of its read epoch with a record number
	// far ahead (2^40). It is dropped; the exported state must not remember it.
	Forged bool
}

func (c vfC19Case) ID() string {
	id := fmt.Sprintf("%s|cid%d|srtp%v|alpn%v|export=%s|i=%d,j=%d", c.Suite, c.CID, c.SRTP, c.ALPN, c.Side, c.I, c.J)
	if c.Forward > 0 {
		id += fmt.Sprintf("|forward=%d", c.Forward)
	}
	if c.Move {
		id += "|moved"
	}
	if c.DualOpts {
		id += "|dual-stack-options"
	}
	if c.Poll {
		id += "|first-call-expired-read"
	}
	if c.Forged {
		id += "|forgery-before-export"
	}

	return id
}

type vfC19Peer struct {
	name  string
	conn  *Conn
	sock  *vfDetach
	ep    *vfEndpoint
	raddr vfAddr
	mu    sync.Mutex
	reads [][]byte
	done  chan struct{}
}

func (p *vfC19Peer) pump() {
	p.done = make(chan struct{})
	c := p.conn
	go func() {
		defer close(p.done)
		buf := make([]byte, 8192)
		for {
			n, err := c.Read(buf)
			if err != nil {
				if c.isConnectionClosed() || errors.Is(err, net.ErrClosed) {
					return
				}
				p.mu.Lock()
				k := len(p.reads)
				p.mu.Unlock()
				if k > 100000 {
					return
				}

				continue
			}
			p.mu.Lock()
			p.reads = append(p.reads, append([]byte(nil), buf[:n]...))
			p.mu.Unlock()
		}
	}()
}

func (p *vfC19Peer) snapshot() [][]byte {
	p.mu.Lock()
	defer p.mu.Unlock()

	return append([][]byte(nil), p.reads...)
}

type vfC19Snap struct {
	Suite    CipherSuiteID
	SRTP     uint16
	ALPN     string
	Session  string
	Certs    int
	Hint     string
	LCID     string
	RCID     string
	Exporter string
}

func vfC19Snapshot(c *Conn) (vfC19Snap, State, bool) {
	st, ok := c.ConnectionState()
	if !ok {
		return vfC19Snap{}, st, false
	}
	s := vfC19Snap{Suite: st.CipherSuiteID, ALPN: st.NegotiatedProtocol, Session: vfHex(st.SessionID), Certs: len(st.PeerCertificates),
		Hint: vfHex(st.IdentityHint), LCID: vfHex(st.localConnectionID), RCID: vfHex(st.remoteConnectionID)}
	if p, ok := c.SelectedSRTPProtectionProfile(); ok {
		s.SRTP = uint16(p)
	}
	if e, err := st.ExportKeyingMaterial("EXPERIMENTAL vf c19", nil, 40); err == nil {
		s.Exporter = vfHex(e)
	} else {
		s.Exporter = "err:" + err.Error()
	}

	return s, st, true
}

type vfC19World struct {
	resumeOpts []Option // options the exported side is resumed with
	poll       bool
	preIO      string // what the resumed connection reported before its first Read/Write/Handshake ("" = same as before)
	moves      int
	n          *vfNet
	c, s       *vfC19Peer
	seq        int
	cfg        vfCfg
	failed     string
}

func vfC19Setup(c vfC19Case) (*vfC19World, error) {
	cfg := vfBaseCfg(vfSuiteByName(c.Suite), "")
	switch cfg.Suite.Auth {
	case "ecdsa":
		cfg.CertKind = "ecdsa"
	case "rsa":
		cfg.CertKind = "rsa"
	}
	cfg.CIDc, cfg.CIDs = c.CID, c.CID
	if c.CID == 0 {
		cfg.CIDc, cfg.CIDs = 0, 6
	}
	if c.SRTP {
		cfg.SRTP = 3
	}
	if c.ALPN {
		cfg.ALPN = 1
	}
	cfg.HelloVerify = c.Idx%2 == 0
	co, so := cfg.Options(nil, nil)
	w := &vfC19World{n: vfNewNet(), cfg: cfg, poll: c.Poll}
	if c.DualOpts {
		dual := []Option{WithMinVersion(protocol.Version1_2), WithMaxVersion(protocol.Version1_3)}
		w.resumeOpts = dual
		if c.Side == "s" {
			so = append(so, WithMinVersion(protocol.Version1_2), WithMaxVersion(protocol.Version1_3))
		} else {
			co = append(co, WithMinVersion(protocol.Version1_2), WithMaxVersion(protocol.Version1_3))
		}
	}
	w.c = &vfC19Peer{name: "c", raddr: vfAddr(vfServerAddr)}
	w.s = &vfC19Peer{name: "s", raddr: vfAddr(vfClientAddr)}
	w.c.ep, w.s.ep = w.n.Endpoint("c", vfClientAddr), w.n.Endpoint("s", vfServerAddr)
	w.c.sock, w.s.sock = &vfDetach{ep: w.c.ep}, &vfDetach{ep: w.s.ep}
	var err error
	if w.c.conn, err = ClientWithOptions(w.c.sock, w.c.raddr, co...); err != nil {
		return nil, err
	}
	if w.s.conn, err = ServerWithOptions(w.s.sock, w.s.raddr, so...); err != nil {
		return nil, err
	}
	var wg sync.WaitGroup
	var ce, se error
	wg.Add(2)
	go func() {
		defer wg.Done()
		_ = w.c.conn.SetDeadline(time.Now().Add(time.Minute))
		ce = w.c.conn.Handshake()
	}()
	go func() {
		defer wg.Done()
		_ = w.s.conn.SetDeadline(time.Now().Add(time.Minute))
		se = w.s.conn.Handshake()
	}()
	wg.Wait()
	if ce != nil || se != nil {
		return nil, fmt.Errorf("handshake: %v / %v", ce, se)
	}
	_ = w.c.conn.SetDeadline(time.Time{})
	_ = w.s.conn.SetDeadline(time.Time{})
	w.c.pump()
	w.s.pump()

	return w, nil
}

// send writes one unique payload from `from` and reports whether the other side delivered exactly it as its next read.
func (w *vfC19World) send(from *vfC19Peer, tag string) (string, []byte) {
	to := w.s
	if from == w.s {
		to = w.c
	}
	w.seq++
	pl := []byte(fmt.Sprintf("c19-%s-%s-%d-%s", from.name, tag, w.seq, vfShortHash(tag, fmt.Sprint(w.seq))))
	before := len(to.snapshot())
	if _, err := from.conn.Write(pl); err != nil {
		return "write: " + err.Error(), pl
	}
	synctest.Wait()
	time.Sleep(50 * time.Millisecond)
	synctest.Wait()
	got := to.snapshot()
	if len(got) != before+1 {
		return fmt.Sprintf("peer delivered %d payloads for one write", len(got)-before), pl
	}
	if !bytes.Equal(got[before], pl) {
		return fmt.Sprintf("peer read %q, wrote %q", got[before], pl), pl
	}

	return "", pl
}

// export replaces p's Conn by one resumed from its marshalled state (optionally altered by mutate).
func (w *vfC19World) export(p *vfC19Peer, mutate func([]byte) []byte) (before, after vfC19Snap, stage string, err error) {
	return w.exportMove(p, mutate, false)
}

func (w *vfC19World) exportMove(p *vfC19Peer, mutate func([]byte) []byte, move bool) (before, after vfC19Snap, stage string, err error) {
	before, st, ok := vfC19Snapshot(p.conn)
	if !ok {
		return before, after, "ConnectionState", errors.New("no state")
	}
	raw, err := st.MarshalBinary()
	if err != nil {
		return before, after, "MarshalBinary", err
	}
	if mutate != nil {
		raw = mutate(raw)
	}
	// cut the old Conn off silently
	p.sock.Detach()
	_ = p.conn.Close()
	synctest.Wait()
	if p.done != nil {
		<-p.done
	}
	_ = p.ep.SetReadDeadline(time.Time{})
	// the decode target is a State that already holds another session's values: UnmarshalBinary replaces its receiver
	// (an application that keeps one State variable and decodes one session after another into it), so whatever the
	// serialised session does not carry must read as absent afterwards, not as the previous occupant's value
	st2 := State{
		srtpProtectionProfile: SRTP_AEAD_AES_256_GCM, peerSRTPMKI: []byte{0xde, 0xc0}, NegotiatedProtocol: "verif-decoy",
		IdentityHint: []byte("decoy-hint"), SessionID: []byte{0xde, 0xc0, 0x01}, PeerCertificates: [][]byte{{0x30, 0x00}},
		localConnectionID: []byte{0xd1}, remoteConnectionID: []byte{0xd2}, rrcNegotiated: true,
	}
	if err = st2.UnmarshalBinary(raw); err != nil {
		return before, after, "UnmarshalBinary", err
	}
	if move {
		w.moves++
		p.ep = w.n.Endpoint(p.name, fmt.Sprintf("10.0.9.%d:%d", w.moves, 4000+w.moves))
	}
	p.sock = &vfDetach{ep: p.ep}
	nc, err := ResumeWithOptions(&st2, p.sock, p.raddr, w.resumeOpts...)
	if err != nil {
		return before, after, "ResumeWithOptions", err
	}
	p.conn = nc
	// what the imported connection reports before anything was read or written on it
	w.preIO = ""
	if pre, _, ok := vfC19Snapshot(nc); !ok {
		w.preIO = "ConnectionState() reports no state"
	} else if pre != before {
		w.preIO = fmt.Sprintf("%+v", pre)
	}
	if w.poll {
		_ = nc.SetReadDeadline(time.Now().Add(-time.Second))
		buf := make([]byte, 64)
		if _, rerr := nc.Read(buf); rerr == nil {
			return before, after, "Read", errors.New("a Read with an expired deadline returned data")
		}
		_ = nc.SetReadDeadline(time.Time{})
	}
	if err = nc.Handshake(); err != nil {
		p.pump()

		return before, after, "Handshake", err
	}
	p.pump()
	after, _, _ = vfC19Snapshot(nc)
	if e, eerr := st2.ExportKeyingMaterial("EXPERIMENTAL vf c19", nil, 40); eerr == nil && vfHex(e) != before.Exporter {
		return before, after, "State.ExportKeyingMaterial", fmt.Errorf("exporter of the unmarshalled state differs")
	}

	return before, after, "", nil
}

func (w *vfC19World) close() {
	w.c.sock.Detach()
	w.s.sock.Detach()
	_ = w.c.conn.Close()
	_ = w.s.conn.Close()
	_ = w.c.ep.Close()
	_ = w.s.ep.Close()
	synctest.Wait()
}

// vfSeqsOf lists the (epoch, seq) of the protected records `from` emitted in log[lo:hi) (DTLS 1.2: readable headers).
func vfSeqsOf(n *vfNet, from string, lo, hi int, cidLen int) [][2]uint64 {
	var out [][2]uint64
	log := n.LogSince(lo)
	for i, w := range log {
		if lo+i >= hi {
			break
		}
		if w.Deliver || w.From != from {
			continue
		}
		recs, ok := vfParseDatagram(w.Data, cidLen)
		if !ok {
			continue
		}
		for _, rc := range recs {
			if !rc.Unified && rc.Epoch > 0 {
				out = append(out, [2]uint64{uint64(rc.Epoch), rc.Seq})
			}
		}
	}

	return out
}

func vfC19Run(t *testing.T, res *vfResult, c vfC19Case) {
	res.Eval(1)
	replay := map[string]any{"case": c}
	violate := func(sig, what string) { res.Violate("C19:"+sig, what+"; "+c.ID(), replay) }
	w, err := vfC19Setup(c)
	if err != nil {
		res.Count("setup_failed", 1)
		res.Seen("setup_failures", c.Suite+": "+vfErrNorm(err))

		return
	}
	defer w.close()
	if c.Forward > 0 {
		for _, x := range map[string][]*vfC19Peer{"c": {w.c}, "s": {w.s}, "both": {w.c, w.s}}[c.Side] {
			cm := vfCommon(x.conn)
			ep := cm.LocalEpoch()
			x.conn.lock.Lock()
			for len(cm.LocalSequenceNumber) <= int(ep) {
				cm.LocalSequenceNumber = append(cm.LocalSequenceNumber, 0)
			}
			atomic.StoreUint64(&cm.LocalSequenceNumber[ep], c.Forward)
			x.conn.lock.Unlock()
			if msg, _ := w.send(x, "pre-forwarded"); msg != "" {
				res.Count("pre_export_traffic_failed", 1)

				return
			}
		}
	}
	for k := 0; k < c.I; k++ {
		if msg, _ := w.send(w.c, "pre"); msg != "" {
			res.Count("pre_export_traffic_failed", 1)

			return
		}
	}
	for k := 0; k < c.J; k++ {
		if msg, _ := w.send(w.s, "pre"); msg != "" {
			res.Count("pre_export_traffic_failed", 1)

			return
		}
	}
	sides := []*vfC19Peer{w.c}
	switch c.Side {
	case "s":
		sides = []*vfC19Peer{w.s}
	case "both":
		sides = []*vfC19Peer{w.c, w.s}
	}
	res.NonTrivial(c.ID())
	for round, x := range sides {
		y := w.s
		if x == w.s {
			y = w.c
		}
		if c.Forged {
			cm := vfCommon(x.conn)
			body := bytes.Repeat([]byte{0xa5}, 48)
			ct, cid := uint8(23), []byte(nil)
			if l := cm.LocalConnectionID(); len(l) > 0 {
				ct, cid = 25, l
			}
			w.n.Deliver(string(x.ep.addr), vfLegacyRecord(ct, 0xfefd, cm.RemoteEpoch(), 1<<40, cid, -1, body), y.ep.addr)
			synctest.Wait()
			res.Count("forgeries_before_export", 1)
		}
		cidY := vfCIDLenOf(y.conn)
		mark := w.n.LogLen()
		move := c.Move && vfCIDLenOf(y.conn) > 0
		if move {
			res.Count("exports_resumed_from_another_address", 1)
		}
		before, after, stage, err := w.exportMove(x, nil, move)
		if err != nil {
			violate("export-failed:"+stage, fmt.Sprintf("exporting %s at stage %s: %v", x.name, stage, err))

			return
		}
		res.Count("exports", 1)
		if w.preIO != "" {
			violate("parameters-not-reported-before-first-io", fmt.Sprintf("right after ResumeWithOptions, before any Read/Write/Handshake, the resumed %s reported %s instead of %+v", x.name, w.preIO, before))
		}
		if before != after {
			violate("parameters-differ-after-resume", fmt.Sprintf("negotiated parameters / exporter of the resumed %s differ: before %+v after %+v", x.name, before, after))
		}
		for k := 0; k < 2+round; k++ {
			if msg, _ := w.send(x, "post"); msg != "" {
				violate("data-after-resume:from-resumed", fmt.Sprintf("payload from the resumed %s to its untouched peer: %s", x.name, msg))

				return
			}
			if msg, _ := w.send(y, "post"); msg != "" {
				violate("data-after-resume:to-resumed", fmt.Sprintf("payload from the untouched peer to the resumed %s: %s", x.name, msg))

				return
			}
		}
		res.Count("post_export_round_trips", int64(2+round))
		// observation (not judged here, see DESIGN.md 8.5): the serialised state carries no receive window, so a
		// record the original Conn had already delivered is accepted again by the resumed one
		if c.I+c.J > 0 {
			var old *vfWire
			for _, e := range w.n.LogSince(0)[:mark] {
				if !e.Deliver && e.From == y.name {
					if recs, ok := vfParseDatagram(e.Data, vfCIDLenOf(x.conn)); ok && len(recs) == 1 && recs[0].Epoch > 0 && (recs[0].Type == 23 || recs[0].Type == 25) {
						old = e
					}
				}
			}
			if old != nil {
				nb := len(x.snapshot())
				w.n.Deliver(string(x.ep.addr), old.Data, y.ep.addr)
				synctest.Wait()
				time.Sleep(50 * time.Millisecond)
				synctest.Wait()
				res.Count("replays_across_export_injected", 1)
				if len(x.snapshot()) > nb {
					res.Count("replays_across_export_delivered_again", 1)
				}
			}
		}
		// record numbers: everything x emitted after the export is new and continues the sequence
		pre := vfSeqsOf(w.n, x.name, 0, mark, cidY)
		post := vfSeqsOf(w.n, x.name, mark, 1<<30, cidY)
		seen := map[[2]uint64]bool{}
		maxPre := map[uint64]uint64{}
		for _, s := range pre {
			seen[s] = true
			if s[1] >= maxPre[s[0]] {
				maxPre[s[0]] = s[1]
			}
		}
		for _, s := range post {
			if seen[s] {
				violate("record-number-reused-after-resume", fmt.Sprintf("%s emitted (epoch %d, seq %d) before and after the export", x.name, s[0], s[1]))

				break
			}
			if m, ok := maxPre[s[0]]; ok && s[1] <= m {
				violate("record-number-not-continued", fmt.Sprintf("%s emitted seq %d after the export, highest before was %d (epoch %d)", x.name, s[1], m, s[0]))

				break
			}
			seen[s] = true
		}
		res.Count("record_numbers_checked", int64(len(pre)+len(post)))
		if len(post) == 0 {
			res.Count("no_post_export_records_parsed", 1)
		}
	}
	if res.Get("samples_taken") < 6 {
		res.Count("samples_taken", 1)
		res.Sample(map[string]any{"case": c.ID(), "client_reads": len(w.c.snapshot()), "server_reads": len(w.s.snapshot())})
	}
}

// vfC19Corrupt feeds altered serialised bytes through UnmarshalBinary / Resume and watches the peer.
func vfC19Corrupt(t *testing.T, res *vfResult, c vfC19Case, kind string, pos int) {
	res.Eval(1)
	replay := map[string]any{"case": c, "kind": kind, "pos": pos}
	w, err := vfC19Setup(c)
	if err != nil {
		res.Count("setup_failed", 1)

		return
	}
	defer w.close()
	if msg, _ := w.send(w.c, "pre"); msg != "" {
		return
	}
	x, y := w.c, w.s
	if c.Side == "s" {
		x, y = w.s, w.c
	}
	applied := false
	structName := ""
	mut := func(b []byte) []byte {
		n := append([]byte(nil), b...)
		p := pos % (len(n) + 1)
		switch kind {
		case "truncate":
			applied = p < len(n)

			return n[:p]
		case "bitflip":
			if p < len(n) {
				n[p] ^= 1 << (uint(pos/len(n)+pos) % 8)
				applied = true
			}
		case "zero":
			if p < len(n) {
				applied = n[p] != 0
				n[p] = 0
			}
		case "ff":
			if p < len(n) {
				applied = n[p] != 0xff
				n[p] = 0xff
			}
		case "set2", "set7":
			// small integers: epochs, lengths and enum fields take these values
			v := byte(2)
			if kind == "set7" {
				v = 7
			}
			if p < len(n) {
				applied = n[p] != v
				n[p] = v
			}
		case "append":
			applied = true
			n = append(n, bytes.Repeat([]byte{byte(pos)}, 1+pos%7)...)
		case "struct":
			// decode, put a boundary value into one field, encode again (values byte edits cannot reach)
			var st serializedState
			if err := gob.NewDecoder(bytes.NewReader(b)).Decode(&st); err != nil {
				return n
			}
			edits := vfC19StructEdits()
			e := edits[pos%len(edits)]
			e.f(&st)
			var buf bytes.Buffer
			if err := gob.NewEncoder(&buf).Encode(st); err != nil {
				return n
			}
			applied = true
			structName = e.name

			return buf.Bytes()
		}

		return n
	}
	wrote := map[string]bool{}
	for _, r := range y.snapshot() {
		wrote[string(r)] = true
	}
	_, _, stage, err := w.export(x, mut)
	res.NonTrivial(fmt.Sprintf("%s|%s@%d", c.ID(), kind, pos))
	if !applied {
		res.Count("corruption_not_applicable", 1)
	}
	outcome := "rejected:" + stage
	if err == nil {
		outcome = "accepted-and-works"
		msg, pl := w.send(x, "corrupt")
		wrote[string(pl)] = true
		if msg != "" {
			outcome = "accepted-but-dead"
		} else if m2, pl2 := w.send(y, "corrupt"); m2 != "" {
			wrote[string(pl2)] = true
			outcome = "accepted-one-way"
		} else {
			wrote[string(pl2)] = true
		}
	}
	if kind == "struct" {
		res.Seen("structured_corruptions", structName+" -> "+outcome)
		if structName == "version=1.3" && err == nil {
			res.Violate("C19:dtls13-state-accepted", "serialised bytes that declare DTLS 1.3 were accepted by UnmarshalBinary / ResumeWithOptions; "+c.ID(), replay)
		}
	}
	res.Count("corruption/"+kind+"/"+outcome, 1)
	res.Count("corrupted_states_fed", 1)
	// safety: the untouched peer never delivers a payload nobody wrote
	for _, r := range y.snapshot() {
		if !wrote[string(r)] {
			res.Violate("C19:peer-delivered-unwritten-payload:"+kind, fmt.Sprintf("after resuming from corrupted bytes (%s at %d) the peer delivered %q, which nobody wrote; %s", kind, pos, r, c.ID()), replay)
		}
	}
}

type vfC19Edit struct {
	name string
	f    func(*serializedState)
}

// vfC19StructEdits: boundary values per field of the serialised state.
func vfC19StructEdits() []vfC19Edit {
	var es []vfC19Edit
	for _, v := range []uint16{0, 2, 3, 255, 256, 32768, 65534, 65535} {
		v := v
		es = append(es, vfC19Edit{fmt.Sprintf("local-epoch=%d", v), func(s *serializedState) { s.LocalEpoch = v }})
		es = append(es, vfC19Edit{fmt.Sprintf("remote-epoch=%d", v), func(s *serializedState) { s.RemoteEpoch = v }})
	}
	for _, v := range []uint64{0, 1<<48 - 1, 1 << 48, 1<<48 + 1, 1<<63 + 5, 1<<64 - 1} {
		v := v
		es = append(es, vfC19Edit{fmt.Sprintf("sequence=%d", v), func(s *serializedState) { reflect.ValueOf(&s.SequenceNumber).Elem().SetUint(v) }})
	}
	for _, v := range []uint16{0, 1, 0x1301, 0xc02b, 0xc0a8, 0xffff} {
		v := v
		es = append(es, vfC19Edit{fmt.Sprintf("suite=%#04x", v), func(s *serializedState) { s.CipherSuiteID = v }})
	}
	for _, n := range []int{0, 1, 47, 49, 4096} {
		n := n
		es = append(es, vfC19Edit{fmt.Sprintf("master-secret-len=%d", n), func(s *serializedState) { s.MasterSecret = bytes.Repeat([]byte{7}, n) }})
	}
	for _, n := range []int{0, 1, 255, 256, 70000} {
		n := n
		es = append(es, vfC19Edit{fmt.Sprintf("local-cid-len=%d", n), func(s *serializedState) { s.LocalConnectionID = bytes.Repeat([]byte{9}, n) }})
		es = append(es, vfC19Edit{fmt.Sprintf("remote-cid-len=%d", n), func(s *serializedState) { s.RemoteConnectionID = bytes.Repeat([]byte{9}, n) }})
	}
	es = append(es,
		vfC19Edit{"srtp=0xffff", func(s *serializedState) { s.SRTPProtectionProfile = 0xffff }},
		vfC19Edit{"role-flipped", func(s *serializedState) { s.IsClient = !s.IsClient }},
		vfC19Edit{"randoms-swapped", func(s *serializedState) { s.LocalRandom, s.RemoteRandom = s.RemoteRandom, s.LocalRandom }},
		vfC19Edit{"version=1.3", func(s *serializedState) { s.Version = protocol.Version1_3 }},
		vfC19Edit{"version=0.0", func(s *serializedState) { s.Version = protocol.Version{} }},
		vfC19Edit{"version=9.9", func(s *serializedState) { s.Version = protocol.Version{Major: 9, Minor: 9} }},
		vfC19Edit{"mki-len=70000", func(s *serializedState) { s.PeerSRTPMKI = bytes.Repeat([]byte{1}, 70000) }},
		vfC19Edit{"session-id-len=70000", func(s *serializedState) { s.SessionID = bytes.Repeat([]byte{1}, 70000) }},
	)

	return es
}

func vfC19Suites() []string {
	var out []string
	for _, s := range vfSuites12 {
		out = append(out, s.Name)
	}

	return out
}

// vfC19LostFinalFlight: the DTLS 1.2 server's handshake is complete the moment it has sent its final flight. That
// flight is lost; the server's state is exported and resumed at this point ("at any point between records"). The
// untouched client retransmits its own last flight and must still be able to finish and exchange data.
func vfC19LostFinalFlight(t *testing.T, res *vfResult, sn string) {
	res.Eval(1)
	id := "lost-final-flight|" + sn
	cfg := vfBaseCfg(vfSuiteByName(sn), "ecdsa")
	co, so := cfg.Options(nil, nil)
	n := vfNewNet()
	var lose atomic.Bool
	lose.Store(true)
	n.SetOnSend(func(n *vfNet, w *vfWire) {
		if lose.Load() && w.From == "s" && strings.Contains(vfKind(w.Data), "ChangeCipherSpec") {
			return // the server's final flight never arrives
		}
		n.Deliver(w.Dst, w.Data, vfAddrOf(w.From))
	})
	cep, sep := n.Endpoint("c", vfClientAddr), n.Endpoint("s", vfServerAddr)
	ssock := &vfDetach{ep: sep}
	cc, err := ClientWithOptions(cep, vfAddr(vfServerAddr), co...)
	if err != nil {
		return
	}
	sc, err := ServerWithOptions(ssock, vfAddr(vfClientAddr), so...)
	if err != nil {
		return
	}
	cdone := make(chan error, 1)
	go func() {
		ctx, cancel := context.WithTimeout(context.Background(), 2*time.Minute)
		defer cancel()
		cdone <- cc.HandshakeContext(ctx)
	}()
	sctx, scancel := context.WithTimeout(context.Background(), 30*time.Second)
	serr := sc.HandshakeContext(sctx)
	scancel()
	res.NonTrivial(id)
	if serr != nil {
		res.Count("lost_final_flight_server_not_established", 1)
		_ = sc.Close()
		_ = cc.Close()
		<-cdone
		synctest.Wait()

		return
	}
	st, ok := sc.ConnectionState()
	var st2 State
	raw, merr := st.MarshalBinary()
	if !ok || merr != nil || st2.UnmarshalBinary(raw) != nil {
		res.Count("lost_final_flight_export_failed", 1)
		_ = sc.Close()
		_ = cc.Close()
		<-cdone
		synctest.Wait()

		return
	}
	ssock.Detach()
	_ = sc.Close()
	synctest.Wait()
	_ = sep.SetReadDeadline(time.Time{})
	lose.Store(false) // from here on the path is clean
	rs, err := ResumeWithOptions(&st2, &vfDetach{ep: sep}, vfAddr(vfClientAddr))
	if err != nil {
		res.Count("lost_final_flight_resume_failed", 1)
		_ = cc.Close()
		<-cdone
		synctest.Wait()

		return
	}
	go func() {
		buf := make([]byte, 2048)
		for {
			if _, err := rs.Read(buf); err != nil {
				return
			}
		}
	}()
	cerr := <-cdone
	res.Count("lost_final_flight_cases", 1)
	if cerr != nil {
		res.Violate("C19:peer-cannot-finish-handshake-after-resume:final-flight-lost",
			fmt.Sprintf("%s: the server had completed its handshake (final flight sent, lost on the way) and was exported and resumed; the untouched client retransmitted its last flight for two minutes and never completed: %v", id, cerr),
			map[string]any{"lost_final_flight": sn})
	}
	_ = rs.Close()
	_ = cc.Close()
	synctest.Wait()
}

func TestVF_C19(t *testing.T) {
	vfGetPKI()
	res := vfNewResult("C19", "export/resume at every point (i, j) of a payload exchange for every DTLS 1.2 suite x {no CID, CID, zero-length CID} x SRTP x ALPN x "+
		"{client, server, both in turn}: data both ways, exporter, negotiated parameters, record-number continuity on the wire; serialised bytes truncated at "+
		"every length, one bit flipped / zeroed / set per byte, junk appended, fed through UnmarshalBinary and ResumeWithOptions; DTLS 1.3 state refused. "+
		"Distinct = (configuration, export point) and (corruption, position) instances")
	res.Assume("the abandoned Conn is cut off from the socket before it is closed (its close_notify never reaches the peer)",
		"corrupted bytes that only alter fields which do not enter the keys (certificates, session id, ALPN) legitimately yield a working connection: counted per outcome")
	if vfEnv().Replay != "" {
		var rf struct {
			Replay struct {
				Case vfC19Case `json:"case"`
				Kind string    `json:"kind"`
				Pos  int       `json:"pos"`
			} `json:"replay"`
		}
		vfLoadReplay(t, &rf)
		vfDumpWire = true
		synctest.Test(t, func(t *testing.T) {
			if rf.Replay.Kind != "" {
				vfC19Corrupt(t, res, rf.Replay.Case, rf.Replay.Kind, rf.Replay.Pos)
			} else {
				vfC19Run(t, res, rf.Replay.Case)
			}
		})
		res.NonTrivial("replay-extra")
		res.Sample("replay")
		res.Finish(t)

		return
	}
	var cases []vfC19Case
	idx := 0
	maxIJ := vfPick(2, 4)
	for _, s := range vfC19Suites() {
		for _, cid := range []int{-1, 4, 0} {
			for _, side := range []string{"c", "s", "both"} {
				for i := 0; i < maxIJ; i++ {
					for j := 0; j < maxIJ; j++ {
						if !vfThorough() && (i+j+idx)%3 != 0 {
							idx++

							continue
						}
						cases = append(cases, vfC19Case{Suite: s, CID: cid, SRTP: idx%2 == 0, ALPN: idx%3 == 0, Side: side, I: i, J: j, Idx: idx})
						idx++
					}
				}
			}
		}
	}
	// long-running connections (send counter beyond 2^32, 2^40, near the top) and resumption from another address
	for k, s := range []string{"ECDSA-GCM128", "PSK-CCM8", "ECDSA-CBC", "ECDSA-CHACHA"} {
		for si, side := range []string{"c", "s", "both"} {
			for fi, fwd := range []uint64{1<<32 + 7, 1<<40 + 3, 1<<47 + 11} {
				if !vfThorough() && (k+si+fi)%2 != 0 {
					continue
				}
				cases = append(cases, vfC19Case{Suite: s, CID: []int{-1, 4, 0}[(k+si)%3], Side: side, I: 1, J: 1, Idx: idx, Forward: fwd})
				idx++
			}
		}
		for _, cid := range []int{4, 0} {
			for _, side := range []string{"c", "s"} {
				cases = append(cases, vfC19Case{Suite: s, CID: cid, Side: side, I: 1, J: 1, Idx: idx, Move: true, SRTP: k%2 == 0})
				idx++
			}
		}
		for _, side := range []string{"c", "s", "both"} {
			cases = append(cases, vfC19Case{Suite: s, CID: []int{-1, 4, 0}[k%3], Side: side, I: 1, J: 1, Idx: idx, Forged: true})
			idx++
		}
	}
	for k, s := range []string{"ECDSA-GCM128", "ECDSA-CBC", "PSK-CCM8"} {
		for _, side := range []string{"c", "s"} {
			if s != "PSK-CCM8" { // (a PSK-only configuration never enables DTLS 1.3)
				cases = append(cases, vfC19Case{Suite: s, CID: []int{-1, 4}[k%2], Side: side, I: 1, J: 1, Idx: idx, DualOpts: true})
				idx++
			}
			cases = append(cases, vfC19Case{Suite: s, CID: []int{-1, 4}[k%2], Side: side, I: 1, J: 1, Idx: idx, Poll: true})
			idx++
		}
	}
	vfBubbles(t, len(cases), func(t *testing.T, i int) { vfC19Run(t, res, cases[i]) })
	// corruption: positions cover the whole encoding (its length is about 300-1200 bytes)
	type cor struct {
		c    vfC19Case
		kind string
		pos  int
	}
	var cors []cor
	base := []vfC19Case{
		{Suite: "ECDSA-GCM128", CID: -1, Side: "c"}, {Suite: "PSK-CCM8", CID: 4, Side: "s", SRTP: true}, {Suite: "ECDSA-CBC", CID: -1, Side: "s", ALPN: true},
	}
	for bi, b := range base {
		b.Idx = bi
		// the PSK state is short (no certificates): every offset, every kind, also in the quick tier
		step := vfPick(3, 1)
		limit := 1300
		if bi == 1 {
			step, limit = 1, 1300
		}
		for pos := 0; pos < limit; pos += step {
			for _, k := range []string{"truncate", "bitflip", "zero", "ff", "set2", "set7"} {
				if !vfThorough() && bi != 1 && (pos/step+len(k))%2 == 0 && k != "truncate" {
					continue
				}
				cors = append(cors, cor{b, k, pos})
			}
		}
		for pos := 0; pos < 16; pos++ {
			cors = append(cors, cor{b, "append", pos})
		}
		for pos := range vfC19StructEdits() {
			cors = append(cors, cor{b, "struct", pos})
			bs := b
			bs.Side = map[string]string{"c": "s", "s": "c"}[b.Side]
			cors = append(cors, cor{bs, "struct", pos})
		}
	}
	vfBubbles(t, len(cors), func(t *testing.T, i int) { vfC19Corrupt(t, res, cors[i].c, cors[i].kind, cors[i].pos) })
	lff := []string{"ECDSA-GCM128", "ECDSA-CBC"}
	vfBubbles(t, len(lff), func(t *testing.T, i int) { vfC19LostFinalFlight(t, res, lff[i]) })
	// DTLS 1.3 state is refused
	synctest.Test(t, func(t *testing.T) {
		cfg := vfBaseCfg(vfSuiteByName("13-GCM128"), "ecdsa")
		cfg.CVer, cfg.SVer, cfg.HelloVerify = "13", "13", false
		co, so := cfg.Options(nil, nil)
		p, err := vfNewPair(vfNewNet(), co, so)
		if err != nil {
			return
		}
		if ce, se := p.Handshake(time.Minute); ce == nil && se == nil {
			for _, side := range []*vfSide{p.C, p.S} {
				st, ok := side.Conn.ConnectionState()
				if !ok {
					continue
				}
				if raw, err := st.MarshalBinary(); err == nil {
					res.Violate("C19:dtls13-state-serialised", fmt.Sprintf("MarshalBinary of a DTLS 1.3 state returned %d bytes instead of an error", len(raw)), map[string]any{"side": side.Name})
				}
				res.Count("dtls13_refusals_checked", 1)
			}
		}
		p.Close()
		synctest.Wait()
	})
	res.Floor("exports", int64(len(cases)*8/10))
	res.Floor("corrupted_states_fed", int64(len(cors)*8/10))
	res.Floor("dtls13_refusals_checked", 2)
	res.Finish(t)
}
