//go:build verif

package dtls

import (
	"bytes"
	"context"
	"fmt"
	"sync"
	"sync/atomic"
	"testing"
	"testing/synctest"
	"time"

	dtlsstate "github.com/pion/dtls/v3/internal/state"
	ref "github.com/pion/dtls/v3/internal/zzverifref"
)

// C20 — DTLS 1.3 key updates. Both sides run writer goroutines with unique payloads and updater
// goroutines calling UpdateKeys while the network drops, duplicates and delays datagrams.
// Afterwards the complete wire log is decrypted with the reference implementation along the
// RFC 8446 "traffic upd" chain that starts at each side's application_traffic_secret_0:
//   K1  every protected record a side emitted decrypts under generation k of that chain, k >= 0
//       (so each new generation is the successor of the previous one), and the generation never
//       decreases in emission order;
//   K2  a payload is read at most once, unmodified, and only if it was written;
//   K3  a payload whose datagram the network delivered at once (not dropped, not delayed) is read;
//   K4  UpdateKeys returns nil only if a datagram from the peer was delivered between the call and
//       its return, and each nil return advanced the caller's write generation by exactly one;
//   K5  a record forged under the next, not yet authorised generation is not delivered.

type vfC20Case struct {
	Suite   string
	CID     int
	Updates int
	Writers int
	PerW    int
	Fault   string // none | x | x2 | x2sh | blackhole-acks
	Request int    // 0 never, 1 always, 2 alternate
	Idx     int
}

func (c vfC20Case) ID() string {
	return fmt.Sprintf("%s|cid%d|u%d|w%dx%d|%s|req%d|#%d", c.Suite, c.CID, c.Updates, c.Writers, c.PerW, c.Fault, c.Request, c.Idx)
}

type vfC20Fate struct {
	Ticket  int64
	Dropped bool
	Delayed time.Duration
	Dup     bool
}

type vfC20Rec struct {
	Ticket int64
	Gen    int
	Seq    uint64
	Type   uint8
	Body   []byte
}

// vfC20Decode decrypts everything `from` emitted after log index mark along the reference chain.
func vfC20Decode(n *vfNet, s13 ref.Suite13, secret0 []byte, epoch0 uint16, from string, mark int, cidLen int) (recs []vfC20Rec, undecodable int, maxGen int) {
	h := s13.Hash
	secrets := [][]byte{secret0}
	keys := []ref.Traffic13{ref.TrafficKeys13(s13, ref.DTLS13Prefix, secret0)}
	gen := func(k int) ref.Traffic13 {
		for len(secrets) <= k {
			nx := ref.NextTrafficSecret(h, ref.DTLS13Prefix, secrets[len(secrets)-1])
			secrets = append(secrets, nx)
			keys = append(keys, ref.TrafficKeys13(s13, ref.DTLS13Prefix, nx))
		}

		return keys[k]
	}
	next := map[int]uint64{}
	for _, w := range n.LogSince(mark) {
		if w.Deliver || w.From != from {
			continue
		}
		parsed, ok := vfParseDatagram(w.Data, cidLen)
		if !ok {
			undecodable++

			continue
		}
		for _, rc := range parsed {
			if !rc.Unified {
				continue
			}
			r13, _, err := ref.ParseRec13(rc.Raw, cidLen)
			if err != nil {
				undecodable++

				continue
			}
			done := false
			// candidate generations: those whose epoch has the record's low bits, nearest to the highest seen first
			for k := 0; k <= maxGen+2 && !done; k++ {
				if (int(epoch0)+k)&3 != int(rc.Epoch) {
					continue
				}
				body, typ, seq, err := ref.Open13(s13, gen(k), r13, next[k])
				if err != nil {
					continue
				}
				recs = append(recs, vfC20Rec{Ticket: w.Ticket, Gen: k, Seq: seq, Type: typ, Body: body})
				if seq+1 > next[k] {
					next[k] = seq + 1
				}
				if k > maxGen {
					maxGen = k
				}
				done = true
			}
			if !done {
				undecodable++
			}
		}
	}

	return recs, undecodable, maxGen
}

func vfC20Run(t *testing.T, res *vfResult, c vfC20Case, realTime bool) {
	res.Eval(1)
	replay := map[string]any{"case": c}
	violate := func(sig, what string) { res.Violate("C20:"+sig, what+"; "+c.ID(), replay) }
	cfg := vfBaseCfg(vfSuiteByName(c.Suite), "ecdsa")
	cfg.CVer, cfg.SVer, cfg.HelloVerify, cfg.CIDc, cfg.CIDs = "13", "13", false, c.CID, c.CID
	co, so := cfg.Options(nil, nil)
	n := vfNewNet()
	p, err := vfNewPair(n, co, so)
	if err != nil {
		res.Count("config_rejected", 1)

		return
	}
	wait := func() {
		if !realTime {
			synctest.Wait()
		}
	}
	var ackHole atomic.Bool
	if c.Fault == "nst-ack-lost" {
		// the client's epoch-3 datagrams (its ACK of the NewSessionTicket) are lost until the server starts a key
		// update: the ticket flight is still unacknowledged when the update begins
		ackHole.Store(true)
		n.SetOnSend(func(n *vfNet, w *vfWire) {
			if ackHole.Load() && w.From == "c" && len(w.Data) > 0 && w.Data[0]&0xe0 == 0x20 && w.Data[0]&3 == 3 {
				return
			}
			n.Deliver(w.Dst, w.Data, vfAddrOf(w.From))
		})
	}
	if ce, se := p.Handshake(time.Minute); ce != nil || se != nil {
		res.Count("handshake_failed", 1)
		p.Close()
		wait()

		return
	}
	p.C.StartPump()
	p.S.StartPump()
	if c.Fault != "nst-ack-lost" {
		time.Sleep(3 * time.Second) // tickets and their ACKs settle
	}
	wait()
	tk, err := vfNewToolkit(p)
	if err != nil || !tk.is13 {
		res.Count("toolkit_unavailable", 1)
		p.Close()
		wait()

		return
	}
	gen0 := map[string]uint64{}
	for _, side := range []*vfSide{p.C, p.S} {
		s13, _ := dtlsstate.As13(side.Conn.state)
		g, _ := s13.TrafficKeys.Clone().CurrentWrite()
		gen0[side.Name] = g.Generation
	}
	mark := n.LogLen()
	r := vfRand("C20", c.Idx)
	var fmu sync.Mutex
	fates := map[int64]*vfC20Fate{}
	var deliveredTo [2]atomic.Int64 // datagrams delivered to c / s
	blackhole := atomic.Bool{}
	idxOf := func(name string) int {
		if name == "c" {
			return 0
		}

		return 1
	}
	deliver := func(w *vfWire) {
		to := 1 - idxOf(w.From)
		deliveredTo[to].Add(1)
		n.Deliver(w.Dst, w.Data, vfAddrOf(w.From))
	}
	if c.Fault == "nst-ack-lost" {
		n.SetOnSend(func(n *vfNet, w *vfWire) {
			if ackHole.Load() && w.From == "c" && len(w.Data) > 0 && w.Data[0]&0xe0 == 0x20 && w.Data[0]&3 == 3 {
				fmu.Lock()
				fates[w.Ticket] = &vfC20Fate{Ticket: w.Ticket, Dropped: true}
				fmu.Unlock()

				return
			}
			deliver(w)
		})
	} else if c.Fault != "none" {
		n.SetOnSend(func(n *vfNet, w *vfWire) {
			f := &vfC20Fate{Ticket: w.Ticket}
			fmu.Lock()
			fates[w.Ticket] = f
			x := r.IntN(100)
			d := time.Duration(20+r.IntN(280)) * time.Millisecond
			fmu.Unlock()
			if c.Fault == "blackhole-acks" {
				if blackhole.Load() && w.From == "s" {
					f.Dropped = true

					return
				}
				deliver(w)

				return
			}
			switch {
			case x < 12:
				f.Dropped = true
			case x < 20 && c.Fault != "x":
				f.Dup = true
				deliver(w)
				deliver(w)
			case x < 32 && c.Fault == "x2sh":
				f.Delayed = d
				cp := *w
				time.AfterFunc(d, func() { deliver(&cp) })
			default:
				deliver(w)
			}
		})
	} else {
		n.SetOnSend(func(n *vfNet, w *vfWire) { deliver(w) })
	}
	written := map[string]map[string]bool{"c": {}, "s": {}}
	var wmu sync.Mutex
	var wg sync.WaitGroup
	type upd struct {
		side        string
		err         error
		delivBefore int64
		delivAfter  int64
		genBefore   uint64
		genAfter    uint64
		at          time.Duration
	}
	var updates []upd
	var umu sync.Mutex
	curGen := func(side *vfSide) uint64 {
		s13, _ := dtlsstate.As13(side.Conn.state)
		g, _ := s13.TrafficKeys.CurrentWrite()
		if g == nil {
			return 0
		}

		return g.Generation
	}
	for _, side := range []*vfSide{p.C, p.S} {
		side := side
		for g := 0; g < c.Writers; g++ {
			wg.Add(1)
			go func(g int) {
				defer wg.Done()
				for i := 0; i < c.PerW; i++ {
					pl := []byte(fmt.Sprintf("c20-%s-%d-%d-%d-%s", side.Name, c.Idx, g, i, vfShortHash(side.Name, fmt.Sprint(c.Idx, g, i))))
					wmu.Lock()
					written[side.Name][string(pl)] = true
					wmu.Unlock()
					_ = side.Conn.SetWriteDeadline(time.Now().Add(20 * time.Second))
					if _, err := side.Conn.Write(pl); err != nil {
						res.Count("write_errors", 1)
					}
					time.Sleep(time.Duration(5+(g*7+i*3)%40) * time.Millisecond)
				}
			}(g)
		}
		nUpd := c.Updates
		if c.Fault == "blackhole-acks" && side.Name == "s" {
			nUpd = 0
		}
		if c.Fault == "nst-ack-lost" && side.Name == "c" {
			nUpd = 0
		}
		wg.Add(1)
		go func() {
			defer wg.Done()
			for k := 0; k < nUpd; k++ {
				time.Sleep(time.Duration(30+k*17%90) * time.Millisecond)
				req := c.Request == 1 || (c.Request == 2 && k%2 == 0)
				ctx, cancel := context.WithTimeout(context.Background(), 20*time.Second)
				u := upd{side: side.Name, delivBefore: deliveredTo[idxOf(side.Name)].Load(), genBefore: curGen(side)}
				if c.Fault == "nst-ack-lost" {
					ackHole.Store(false) // from here on the path is clean: the KeyUpdate's own ACK gets through
				}
				if c.Fault == "blackhole-acks" {
					blackhole.Store(true)
					time.AfterFunc(4*time.Second, func() { blackhole.Store(false) })
				}
				u.err = side.Conn.UpdateKeys(ctx, KeyUpdateOptions{RequestPeerUpdate: req})
				cancel()
				u.delivAfter, u.genAfter, u.at = deliveredTo[idxOf(side.Name)].Load(), curGen(side), n.Now()
				umu.Lock()
				updates = append(updates, u)
				umu.Unlock()
			}
		}()
	}
	wg.Wait()
	time.Sleep(3 * time.Second)
	wait()
	n.SetOnSend(nil)
	// late duplicates across many updates: the wire shows only the two low bits of the epoch, so after four updates
	// an old generation looks like the current one; a duplicate of an already delivered old record stays a duplicate
	for _, side := range []*vfSide{p.C, p.S} {
		peer := p.S
		if side == p.S {
			peer = p.C
		}
		recs, _, maxGen := vfC20Decode(n, tk.s13, tk.sec13[side.Name], tk.ep13[side.Name], side.Name, mark, vfCIDLenOf(peer.Conn))
		if maxGen < 4 {
			continue
		}
		byTicket := map[int64][]byte{}
		for _, w := range n.LogSince(mark) {
			if !w.Deliver && w.From == side.Name {
				byTicket[w.Ticket] = w.Data
			}
		}
		sent := 0
		for i := len(recs) - 1; i >= 0 && sent < 4; i-- {
			rc := recs[i]
			if rc.Gen > maxGen-4 || rc.Type != 23 {
				continue
			}
			fmu.Lock()
			f := fates[rc.Ticket]
			fmu.Unlock()
			if f != nil && f.Dropped {
				continue
			}
			if d, ok := byTicket[rc.Ticket]; ok {
				n.Deliver(string(peer.EP.addr), d, side.EP.addr)
				sent++
			}
		}
		res.Count("late_duplicates_across_four_updates", int64(sent))
	}
	time.Sleep(200 * time.Millisecond)
	wait()
	// K5: a record under the next, not yet authorised generation
	forged := 0
	for _, side := range []*vfSide{p.C, p.S} {
		s13, _ := dtlsstate.As13(side.Conn.state)
		g, ok := s13.TrafficKeys.Clone().CurrentWrite()
		if !ok {
			continue
		}
		peerSide := p.S
		if side == p.S {
			peerSide = p.C
		}
		ps13, _ := dtlsstate.As13(peerSide.Conn.state)
		if rg, ok := ps13.TrafficKeys.Clone().CurrentRead(); !ok || rg.Epoch != g.Epoch {
			// a KeyUpdate whose ACK was lost has already moved the peer on: the next generation is authorised there
			res.Count("future_generation_already_authorised_skipped", 1)

			continue
		}
		h := tk.s13.Hash
		future := *tk
		future.sec13 = map[string][]byte{side.Name: ref.NextTrafficSecret(h, ref.DTLS13Prefix, g.Secret)}
		future.ep13 = map[string]uint16{side.Name: g.Epoch + 1}
		pl := []byte("c20-forged-future-" + side.Name)
		if rec, err := future.Seal(side.Name, g.Epoch+1, 5, 23, pl, 0); err == nil {
			peer := p.S
			if side == p.S {
				peer = p.C
			}
			n.Deliver(string(peer.EP.addr), rec, side.EP.addr)
			forged++
			time.Sleep(100 * time.Millisecond)
			wait()
			for _, rd := range peer.ReadsSnapshot() {
				if bytes.Equal(rd, pl) {
					violate("record-under-unauthorised-generation-accepted", fmt.Sprintf("%s delivered a record sealed under its peer's next write generation (epoch %d) before any KeyUpdate authorised it", peer.Name, g.Epoch+1))
				}
			}
		}
	}
	res.Count("future_generation_records_injected", int64(forged))
	res.NonTrivial(c.ID())
	// --- oracle over the decrypted wire
	for _, side := range []*vfSide{p.C, p.S} {
		peer := p.S
		if side == p.S {
			peer = p.C
		}
		cidLen := vfCIDLenOf(peer.Conn)
		recs, undec, maxGen := vfC20Decode(n, tk.s13, tk.sec13[side.Name], tk.ep13[side.Name], side.Name, mark, cidLen)
		res.Count("records_decrypted_along_reference_chain", int64(len(recs)))
		res.Max("max_generation_seen", int64(maxGen))
		if undec > 0 {
			violate("record-outside-traffic-update-chain", fmt.Sprintf("%d protected records emitted by %s do not decrypt under any generation of the RFC 8446 traffic-update chain from its application_traffic_secret_0 (highest generation that did: %d)", undec, side.Name, maxGen))
		}
		last := 0
		seenSeq := map[[2]uint64]bool{}
		for _, rc := range recs {
			if rc.Gen < last {
				violate("sending-epoch-decreased", fmt.Sprintf("%s emitted a record of generation %d after one of generation %d", side.Name, rc.Gen, last))

				break
			}
			last = rc.Gen
			k := [2]uint64{uint64(rc.Gen), rc.Seq}
			fmu.Lock()
			f := fates[rc.Ticket]
			fmu.Unlock()
			_ = f
			if seenSeq[k] {
				violate("record-number-reused", fmt.Sprintf("%s emitted (generation %d, seq %d) twice", side.Name, rc.Gen, rc.Seq))
			}
			seenSeq[k] = true
		}
		// K2 / K3
		reads := peer.ReadsSnapshot()
		count := map[string]int{}
		for _, rd := range reads {
			count[string(rd)]++
		}
		wmu.Lock()
		w := written[side.Name]
		wmu.Unlock()
		for pl, k := range count {
			if !w[pl] && !bytes.HasPrefix([]byte(pl), []byte("c16")) && !bytes.HasPrefix([]byte(pl), []byte("c20-forged")) {
				violate("payload-not-written-was-read", fmt.Sprintf("%s read %q which %s never wrote", peer.Name, pl, side.Name))
			}
			if k > 1 {
				violate("payload-delivered-twice", fmt.Sprintf("%s read %q %d times", peer.Name, pl, k))
			}
		}
		res.Count("payloads_read", int64(len(count)))
		for _, rc := range recs {
			if rc.Type != 23 || !w[string(rc.Body)] {
				continue
			}
			fmu.Lock()
			f := fates[rc.Ticket]
			fmu.Unlock()
			prompt := f == nil || (!f.Dropped && f.Delayed == 0)
			if prompt && count[string(rc.Body)] == 0 {
				violate("payload-lost-although-delivered", fmt.Sprintf("%s wrote %q (generation %d, seq %d), its datagram was delivered at once, yet %s never read it", side.Name, rc.Body, rc.Gen, rc.Seq, peer.Name))
			}
			if prompt {
				res.Count("prompt_payloads_checked", 1)
			}
		}
		// final generation agrees with the number of successful updates that advanced it
		g1 := curGen(side)
		if int(g1-gen0[side.Name]) < maxGen {
			violate("write-generation-behind-wire", fmt.Sprintf("%s reports write generation +%d but emitted records of generation +%d", side.Name, g1-gen0[side.Name], maxGen))
		}
	}
	// K4
	for _, u := range updates {
		res.Count("updatekeys_calls", 1)
		if u.err != nil {
			res.Count("updatekeys_failed", 1)
			res.Seen("updatekeys_errors", vfErrNorm(u.err))

			continue
		}
		res.Count("updatekeys_succeeded", 1)
		if u.delivAfter == u.delivBefore {
			violate("updatekeys-returned-without-ack", fmt.Sprintf("UpdateKeys on %s returned nil although no datagram from the peer was delivered to it during the call", u.side))
		}
		if u.genAfter < u.genBefore+1 {
			violate("updatekeys-nil-without-new-generation", fmt.Sprintf("UpdateKeys on %s returned nil but the write generation went %d -> %d", u.side, u.genBefore, u.genAfter))
		}
		if c.Fault == "blackhole-acks" && u.side == "c" {
			res.Count("blackhole_updates_checked", 1)
		}
	}
	if res.Get("samples_taken") < 6 {
		res.Count("samples_taken", 1)
		res.Sample(map[string]any{"case": c.ID(), "updates": len(updates), "client_reads": len(p.C.ReadsSnapshot()), "server_reads": len(p.S.ReadsSnapshot())})
	}
	p.Close()
	wait()
}

// vfC20Straggler: payloads written just before an update whose datagrams are overtaken by the KeyUpdate. The
// receiver still holds the old generation, the datagrams arrive a moment later ("in time"), so the payloads must be
// delivered - for a young epoch (control) and for one that has carried more than 2^16 records, where the 16 record
// number bits on the wire have to be completed from that epoch's own history.
func vfC20Straggler(t *testing.T, res *vfResult, suite string, before int, from string) {
	res.Eval(1)
	id := fmt.Sprintf("straggler|%s|records-before=%d|from=%s", suite, before, from)
	replay := map[string]any{"straggler": id}
	cfg := vfBaseCfg(vfSuiteByName(suite), "ecdsa")
	cfg.CVer, cfg.SVer, cfg.HelloVerify = "13", "13", false
	co, so := cfg.Options(nil, nil)
	n := vfNewNet()
	p, err := vfNewPair(n, co, so)
	if err != nil {
		res.Count("config_rejected", 1)

		return
	}
	if ce, se := p.Handshake(time.Minute); ce != nil || se != nil {
		res.Count("handshake_failed", 1)
		p.Close()
		synctest.Wait()

		return
	}
	p.C.StartPump()
	p.S.StartPump()
	time.Sleep(3 * time.Second)
	synctest.Wait()
	x, y := vfSideOf(p, from)
	for i := 0; i < before; i++ {
		if _, err := x.Conn.Write([]byte(fmt.Sprintf("bulk-%06d", i))); err != nil {
			res.Count("write_errors", 1)
		}
		if i%256 == 255 {
			synctest.Wait()
		}
	}
	synctest.Wait()
	var hold atomic.Bool
	var hmu sync.Mutex
	var held []*vfWire
	n.SetOnSend(func(n *vfNet, w *vfWire) {
		if hold.Load() && w.From == x.Name {
			hmu.Lock()
			held = append(held, w)
			hmu.Unlock()

			return
		}
		n.Deliver(w.Dst, w.Data, vfAddrOf(w.From))
	})
	hold.Store(true)
	var stragglers [][]byte
	for i := 0; i < 3; i++ {
		pl := []byte(fmt.Sprintf("written-before-the-update-%d-%s", i, vfShortHash(id, fmt.Sprint(i))))
		stragglers = append(stragglers, pl)
		_, _ = x.Conn.Write(pl)
	}
	synctest.Wait()
	hold.Store(false)
	ctx, cancel := context.WithTimeout(context.Background(), 30*time.Second)
	uerr := x.Conn.UpdateKeys(ctx, KeyUpdateOptions{})
	cancel()
	if uerr != nil {
		res.Count("straggler_update_failed", 1)
		res.Seen("straggler_update_errors", vfErrNorm(uerr))
		p.Close()
		synctest.Wait()

		return
	}
	after := []byte("written-after-the-update-" + vfShortHash(id))
	_, _ = x.Conn.Write(after)
	synctest.Wait()
	hmu.Lock()
	hs := held
	hmu.Unlock()
	for _, w := range hs {
		n.Deliver(w.Dst, w.Data, vfAddrOf(w.From))
	}
	time.Sleep(100 * time.Millisecond)
	synctest.Wait()
	got := map[string]int{}
	for _, rd := range y.ReadsSnapshot() {
		got[string(rd)]++
	}
	res.NonTrivial(id)
	res.Count("stragglers_released_after_update", int64(len(hs)))
	if got[string(after)] != 1 {
		res.Count("straggler_case_without_post_update_delivery", 1)
	}
	for _, pl := range stragglers {
		switch got[string(pl)] {
		case 1:
			res.Count("stragglers_delivered", 1)
		case 0:
			res.Violate(fmt.Sprintf(res.Property+":payload-lost-although-delivered:straggler:%s", map[bool]string{true: "epoch-beyond-65536-records", false: "young-epoch"}[before >= 65536]),
				fmt.Sprintf("%s: a payload written before UpdateKeys, whose datagram reached the peer right after the KeyUpdate, was never returned by Read (the peer read %d payloads in all)", id, len(y.ReadsSnapshot())), replay)
		default:
			res.Violate(res.Property+":payload-delivered-twice:straggler", fmt.Sprintf("%s: delivered %d times", id, got[string(pl)]), replay)
		}
	}
	p.Close()
	synctest.Wait()
}

// vfC20AbandonedQueuedUpdate: an UpdateKeys call waits behind an unacknowledged KeyUpdate and its caller gives up (the
// context expires) before its turn comes. The update that was never sent must leave no trace: the next UpdateKeys
// succeeds only when the peer really took it, and what is written afterwards is delivered.
func vfC20AbandonedQueuedUpdate(t *testing.T, res *vfResult, idx int) {
	res.Eval(1)
	suite := []string{"13-GCM128", "13-CHACHA", "13-GCM256"}[idx%3]
	from := []string{"c", "s"}[(idx/3)%2]
	id := fmt.Sprintf("abandoned-queued-update|%s|from=%s", suite, from)
	replay := map[string]any{"abandoned": idx}
	cfg := vfBaseCfg(vfSuiteByName(suite), "ecdsa")
	cfg.CVer, cfg.SVer, cfg.HelloVerify = "13", "13", false
	co, so := cfg.Options(nil, nil)
	n := vfNewNet()
	p, err := vfNewPair(n, co, so)
	if err != nil {
		res.Count("config_rejected", 1)

		return
	}
	if ce, se := p.Handshake(time.Minute); ce != nil || se != nil {
		p.Close()
		synctest.Wait()

		return
	}
	p.C.StartPump()
	p.S.StartPump()
	time.Sleep(3 * time.Second)
	synctest.Wait()
	x, y := vfSideOf(p, from)
	var mu sync.Mutex
	dark := true
	n.SetOnSend(func(n *vfNet, w *vfWire) {
		mu.Lock()
		d := dark
		mu.Unlock()
		if w.From == y.Name && d {
			return // the peer's ACKs are lost for a while
		}
		n.Deliver(w.Dst, w.Data, vfAddrOf(w.From))
	})
	first := make(chan error, 1)
	go func() {
		ctx, cancel := context.WithTimeout(context.Background(), time.Minute)
		defer cancel()
		first <- x.Conn.UpdateKeys(ctx, KeyUpdateOptions{})
	}()
	synctest.Wait()
	ctx2, cancel2 := context.WithTimeout(context.Background(), 100*time.Millisecond)
	err2 := x.Conn.UpdateKeys(ctx2, KeyUpdateOptions{}) // queued behind the first, abandoned
	cancel2()
	mu.Lock()
	dark = false
	mu.Unlock()
	err1 := <-first
	res.NonTrivial(fmt.Sprintf("%s/%d", id, idx))
	res.Count("abandoned_queued_update_cases", 1)
	if err1 != nil || err2 == nil {
		res.Count("abandoned_queued_update_not_as_scripted", 1)
		res.Seen("abandoned_queued_update_scripts", fmt.Sprintf("%s: first=%v second=%v", id, err1, err2))
		p.Close()
		synctest.Wait()

		return
	}
	ctx3, cancel3 := context.WithTimeout(context.Background(), 30*time.Second)
	err3 := x.Conn.UpdateKeys(ctx3, KeyUpdateOptions{})
	cancel3()
	pl := []byte(fmt.Sprintf("c20-after-abandoned-%d", idx))
	_, werr := x.Conn.Write(pl)
	time.Sleep(5 * time.Second)
	synctest.Wait()
	got := vfHasPayload(y.ReadsSnapshot(), pl)
	switch {
	case err3 == nil && werr == nil && !got:
		res.Violate("C20:payload-lost-after-successful-update:abandoned-queued-update",
			fmt.Sprintf("%s: an UpdateKeys that was abandoned while queued, then UpdateKeys returned nil (sender at write epoch %d, peer at read epoch %d) and the payload written afterwards was never delivered", id, vfCommon(x.Conn).LocalEpoch(), vfCommon(y.Conn).RemoteEpoch()), replay)
	case err3 != nil:
		res.Count("abandoned_queued_update_third_failed", 1)
	default:
		res.Count("abandoned_queued_update_delivered", 1)
	}
	n.SetOnSend(nil)
	p.Close()
	synctest.Wait()
}

func vfC20Cases() []vfC20Case {
	var out []vfC20Case
	idx := 0
	n := vfPick(1, 12)
	for rep := 0; rep < n; rep++ {
		for _, s := range []string{"13-GCM128", "13-GCM256", "13-CHACHA"} {
			for _, cid := range []int{-1, 4} {
				for _, f := range []string{"none", "x", "x2", "x2sh", "blackhole-acks", "nst-ack-lost"} {
					for _, u := range []int{1, 3, 6} {
						out = append(out, vfC20Case{Suite: s, CID: cid, Updates: u, Writers: 1 + idx%4, PerW: 6 + idx%5, Fault: f, Request: idx % 3, Idx: idx})
						idx++
					}
				}
			}
		}
	}

	return out
}

func TestVF_C20(t *testing.T) {
	vfGetPKI()
	res := vfNewResult("C20", "DTLS 1.3 pairs with 1-4 writer goroutines and an updater goroutine per side (1, 3 or 6 UpdateKeys calls, peer update requested "+
		"never / always / alternately) under no faults, drops, drops+duplicates, drops+duplicates+delays and a 4 s blackhole of the ACK direction, in virtual time, "+
		"plus race-detector runs on the real scheduler; the whole wire log is decrypted with the reference implementation along the traffic-update chain. "+
		"Distinct = scripts")
	res.Assume("all earlier read generations are retained by this implementation, so 'an epoch the receiver no longer retains' never occurs; only not-yet-authorised generations are injected",
		"a payload counts as 'arrived in time' when its datagram was neither dropped nor delayed by the harness")
	if vfEnv().Replay != "" {
		var rf struct {
			Replay struct {
				Case vfC20Case `json:"case"`
				Real bool      `json:"real"`
			} `json:"replay"`
		}
		vfLoadReplay(t, &rf)
		vfDumpWire = true
		if rf.Replay.Real {
			vfC20Run(t, res, rf.Replay.Case, true)
		} else {
			synctest.Test(t, func(t *testing.T) { vfC20Run(t, res, rf.Replay.Case, false) })
		}
		res.NonTrivial("replay-extra")
		res.Sample("replay")
		res.Finish(t)

		return
	}
	cases := vfC20Cases()
	vfBubbles(t, len(cases), func(t *testing.T, i int) { vfC20Run(t, res, cases[i], false) })
	type sg struct {
		suite  string
		before int
		from   string
	}
	sgs := []sg{{"13-GCM128", 200, "c"}, {"13-CHACHA", 200, "s"}, {"13-GCM128", 65536 + 20, "c"}}
	if vfThorough() {
		sgs = append(sgs, sg{"13-CHACHA", 65536 + 300, "s"}, sg{"13-GCM256", 2*65536 + 5, "c"}, sg{"13-GCM256", 65535, "s"})
	}
	vfBubbles(t, len(sgs), func(t *testing.T, i int) { vfC20Straggler(t, res, sgs[i].suite, sgs[i].before, sgs[i].from) })
	vfBubbles(t, 6, func(t *testing.T, i int) { vfC20AbandonedQueuedUpdate(t, res, i) })
	// real scheduler (race detector build): no injected faults, more writers
	nr := vfPick(24, 400)
	vfParallel(nr, func(_, i int) {
		c := vfC20Case{Suite: []string{"13-GCM128", "13-GCM256", "13-CHACHA"}[i%3], CID: []int{-1, 4}[i%2], Updates: 2 + i%4, Writers: 4, PerW: 10, Fault: "none", Request: i % 3, Idx: 100000 + i}
		vfC20Run(t, res, c, true)
		res.Count("real_scheduler_runs", 1)
	})
	res.Floor("updatekeys_succeeded", int64(len(cases)))
	res.Floor("records_decrypted_along_reference_chain", 2000)
	res.Floor("prompt_payloads_checked", 500)
	res.Floor("future_generation_records_injected", int64(len(cases)/2))
	res.Floor("stragglers_delivered", 6)
	res.Finish(t)
}
