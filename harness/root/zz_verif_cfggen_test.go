//go:build verif

package dtls

// Configuration generator shared by C01 / C07 / C11 and others.

import (
	"crypto/tls"
	"fmt"
	"math/rand/v2"
	"strings"
	"sync"
	"time"

	"github.com/pion/dtls/v3/pkg/crypto/elliptic"
)

type vfSuiteInfo struct {
	ID   CipherSuiteID
	Name string
	Auth string // ecdsa | rsa | psk | ecdhepsk | tls13
}

var vfSuites12 = []vfSuiteInfo{
	{TLS_ECDHE_ECDSA_WITH_AES_128_CCM, "ECDSA-CCM", "ecdsa"},
	{TLS_ECDHE_ECDSA_WITH_AES_128_CCM_8, "ECDSA-CCM8", "ecdsa"},
	{TLS_ECDHE_ECDSA_WITH_AES_128_GCM_SHA256, "ECDSA-GCM128", "ecdsa"},
	{TLS_ECDHE_ECDSA_WITH_AES_256_GCM_SHA384, "ECDSA-GCM256", "ecdsa"},
	{TLS_ECDHE_ECDSA_WITH_AES_256_CBC_SHA, "ECDSA-CBC", "ecdsa"},
	{TLS_ECDHE_ECDSA_WITH_CHACHA20_POLY1305_SHA256, "ECDSA-CHACHA", "ecdsa"},
	{TLS_ECDHE_RSA_WITH_AES_128_GCM_SHA256, "RSA-GCM128", "rsa"},
	{TLS_ECDHE_RSA_WITH_AES_256_GCM_SHA384, "RSA-GCM256", "rsa"},
	{TLS_ECDHE_RSA_WITH_AES_256_CBC_SHA, "RSA-CBC", "rsa"},
	{TLS_ECDHE_RSA_WITH_CHACHA20_POLY1305_SHA256, "RSA-CHACHA", "rsa"},
	{TLS_PSK_WITH_AES_128_CCM, "PSK-CCM", "psk"},
	{TLS_PSK_WITH_AES_128_CCM_8, "PSK-CCM8", "psk"},
	{TLS_PSK_WITH_AES_256_CCM_8, "PSK-256CCM8", "psk"},
	{TLS_PSK_WITH_AES_128_GCM_SHA256, "PSK-GCM", "psk"},
	{TLS_PSK_WITH_AES_128_CBC_SHA256, "PSK-CBC", "psk"},
	{TLS_PSK_WITH_CHACHA20_POLY1305_SHA256, "PSK-CHACHA", "psk"},
	{TLS_ECDHE_PSK_WITH_AES_128_CBC_SHA256, "ECDHEPSK-CBC", "ecdhepsk"},
}

var vfSuites13 = []vfSuiteInfo{
	{TLS_AES_128_GCM_SHA256, "13-GCM128", "tls13"},
	{TLS_AES_256_GCM_SHA384, "13-GCM256", "tls13"},
	{TLS_CHACHA20_POLY1305_SHA256, "13-CHACHA", "tls13"},
}

func vfAllSuites() []vfSuiteInfo {
	return append(append([]vfSuiteInfo{}, vfSuites12...), vfSuites13...)
}

// vfCfg is one point of the configuration space (both endpoints).
type vfCfg struct {
	Suite       vfSuiteInfo
	CertKind    string // ecdsa | rsa | ed25519 (certificate suites and 1.3)
	CVer, SVer  string // "12" | "13" | "dual"
	EMSc, EMSs  ExtendedMasterSecretType
	ClientAuth  ClientAuthType
	ClientCert  bool
	CIDc, CIDs  int // -1: no generator; otherwise CID length
	SRTP        int // 0 none, 1 same single, 2 overlapping lists different order, 3 with MKI
	ALPN        int // 0 none, 1 same, 2 overlapping different order, 3 offered by the client only
	MTU         int // 0 default
	HelloVerify bool
	Curves      int  // 0 default, 1 x25519 only, 2 p256 only, 3 p384,p256 / p256,x25519
	Verify      bool // certificate verification on (RootCAs/ServerName, ClientCAs)
	Padding     bool
	Store       bool
	LeafOnly    bool          // the certificate message carries the leaf alone (no CA certificate behind it)
	IvC, IvS    time.Duration // flight interval per side (0 = default 1 s)
	NoBackoffC  bool
}

func (c vfCfg) FP() string {
	return fmt.Sprintf("%s/%s/v%s-%s/ems%d%d/ca%d%v/cid%d,%d/srtp%d/alpn%d/mtu%d/hv%v/cv%d/vfy%v/pad%v/st%v",
		c.Suite.Name, c.CertKind, c.CVer, c.SVer, c.EMSc, c.EMSs, c.ClientAuth, c.ClientCert, c.CIDc, c.CIDs,
		c.SRTP, c.ALPN, c.MTU, c.HelloVerify, c.Curves, c.Verify, c.Padding, c.Store) + map[bool]string{true: "/leafonly", false: ""}[c.LeafOnly]
}

func (c vfCfg) Is13() bool { return c.Suite.Auth == "tls13" }

// Chain is the credential role presents under this configuration.
func (c vfCfg) Chain(role string) tls.Certificate {
	crt := vfGetPKI().Leaf(c.CertKind, role)
	if c.LeafOnly {
		crt.Certificate = crt.Certificate[:1]
	}

	return crt
}

func vfCIDGen(n int) func() []byte {
	var mu sync.Mutex
	ctr := byte(0)

	return func() []byte {
		mu.Lock()
		defer mu.Unlock()
		ctr++
		b := make([]byte, n)
		for i := range b {
			b[i] = ctr + byte(i)*17
		}

		return b
	}
}

var vfPSKKey = []byte{0xAB, 0xC1, 0x23, 0x45, 0x67, 0x89, 0x10, 0x11}

func vfVerOpts(v string) []Option {
	switch v {
	case "13":
		return vfV13()
	case "dual":
		return vfDual()
	default:
		return vfV12()
	}
}

// Options turns the point into option lists. stores may be nil.
func (c vfCfg) Options(cStore, sStore SessionStore) (co []ClientOption, so []ServerOption) {
	pki := vfGetPKI()
	var cO, sO []Option
	cO = append(cO, vfVerOpts(c.CVer)...)
	sO = append(sO, vfVerOpts(c.SVer)...)
	if c.Suite.ID != 0 {
		cO = append(cO, WithCipherSuites(c.Suite.ID))
		sO = append(sO, WithCipherSuites(c.Suite.ID))
	}
	switch c.Suite.Auth {
	case "psk", "ecdhepsk":
		psk := func([]byte) ([]byte, error) { return vfPSKKey, nil }
		cO = append(cO, WithPSK(psk), WithPSKIdentityHint([]byte("vf-client-id")))
		sO = append(sO, WithPSK(psk), WithPSKIdentityHint([]byte("vf-server-hint")))
	default:
		sO = append(sO, WithCertificates(c.Chain("server")))
		if c.ClientCert {
			cO = append(cO, WithCertificates(c.Chain("client")))
		}
		if c.Verify {
			cO = append(cO, WithRootCAs(pki.Pool), WithServerName(vfServerName))
		} else {
			cO = append(cO, WithInsecureSkipVerify(true))
		}
	}
	cO = append(cO, WithExtendedMasterSecret(c.EMSc))
	sO = append(sO, WithExtendedMasterSecret(c.EMSs))
	if c.CIDc >= 0 {
		cO = append(cO, WithConnectionIDGenerator(vfCIDGen(c.CIDc)))
	}
	if c.CIDs >= 0 {
		sO = append(sO, WithConnectionIDGenerator(vfCIDGen(c.CIDs)))
	}
	switch c.SRTP {
	case 1:
		cO = append(cO, WithSRTPProtectionProfiles(SRTP_AES128_CM_HMAC_SHA1_80))
		sO = append(sO, WithSRTPProtectionProfiles(SRTP_AES128_CM_HMAC_SHA1_80))
	case 2:
		cO = append(cO, WithSRTPProtectionProfiles(SRTP_AEAD_AES_128_GCM, SRTP_AES128_CM_HMAC_SHA1_80, SRTP_AEAD_AES_256_GCM))
		sO = append(sO, WithSRTPProtectionProfiles(SRTP_AES256_CM_SHA1_80, SRTP_AEAD_AES_256_GCM, SRTP_AEAD_AES_128_GCM))
	case 3:
		cO = append(cO, WithSRTPProtectionProfiles(SRTP_AEAD_AES_128_GCM), WithSRTPMasterKeyIdentifier([]byte{1, 2, 3, 4}))
		sO = append(sO, WithSRTPProtectionProfiles(SRTP_AEAD_AES_128_GCM), WithSRTPMasterKeyIdentifier([]byte{1, 2, 3, 4}))
	}
	switch c.ALPN {
	case 1:
		cO = append(cO, WithSupportedProtocols("vf-proto"))
		sO = append(sO, WithSupportedProtocols("vf-proto"))
	case 2:
		cO = append(cO, WithSupportedProtocols("a", "b", "c"))
		sO = append(sO, WithSupportedProtocols("x", "c", "b"))
	case 3:
		cO = append(cO, WithSupportedProtocols("a", "b", "c"))
	case 4: // nothing in common
		cO = append(cO, WithSupportedProtocols("a", "b"))
		sO = append(sO, WithSupportedProtocols("x", "y"))
	}
	if c.MTU > 0 {
		cO = append(cO, WithMTU(c.MTU))
		sO = append(sO, WithMTU(c.MTU))
	}
	switch c.Curves {
	case 1:
		cO = append(cO, WithEllipticCurves(elliptic.X25519))
		sO = append(sO, WithEllipticCurves(elliptic.X25519))
	case 2:
		cO = append(cO, WithEllipticCurves(elliptic.P256))
		sO = append(sO, WithEllipticCurves(elliptic.P256))
	case 3:
		cO = append(cO, WithEllipticCurves(elliptic.P384, elliptic.P256))
		sO = append(sO, WithEllipticCurves(elliptic.P256, elliptic.X25519))
	}
	if c.Padding {
		pad := func(l uint) uint { return (l*7 + 3) % 23 }
		cO = append(cO, WithPaddingLengthGenerator(pad))
		sO = append(sO, WithPaddingLengthGenerator(pad))
	}
	if c.Store && cStore != nil {
		cO = append(cO, WithSessionStore(cStore), WithServerName(vfServerName))
		sO = append(sO, WithSessionStore(sStore))
	}
	co = vfCO(cO...)
	so = vfSO(sO...)
	if c.IvC > 0 {
		co = append(co, WithFlightInterval(c.IvC))
	}
	if c.IvS > 0 {
		so = append(so, WithFlightInterval(c.IvS))
	}
	if c.NoBackoffC {
		co = append(co, WithDisableRetransmitBackoff(true))
	}
	if c.Suite.Auth != "psk" && c.Suite.Auth != "ecdhepsk" {
		so = append(so, WithClientAuth(c.ClientAuth))
		if c.Verify || c.ClientAuth >= VerifyClientCertIfGiven {
			so = append(so, WithClientCAs(pki.Pool))
		}
	}
	if !c.HelloVerify {
		so = append(so, WithInsecureSkipVerifyHello(true))
	}

	return co, so
}

// vfGenCompatCfg draws a configuration intended to be compatible (C01/C07 workloads).
func vfGenCompatCfg(r *rand.Rand, suite vfSuiteInfo) vfCfg {
	c := vfCfg{Suite: suite, CVer: "12", SVer: "12", CIDc: -1, CIDs: -1, HelloVerify: true}
	switch suite.Auth {
	case "ecdsa":
		c.CertKind = []string{"ecdsa", "ecdsa", "ed25519"}[r.IntN(3)]
	case "rsa":
		c.CertKind = "rsa"
	case "tls13":
		// RSA certificates are not usable with the DTLS 1.3 path of this tree (no RSA-PSS): not "compatible".
		c.CertKind = []string{"ecdsa", "ed25519"}[r.IntN(2)]
		c.CVer, c.SVer = "13", "13"
		switch r.IntN(4) {
		case 0:
			c.CVer = "dual"
		case 1:
			c.SVer = "dual"
		case 2:
			c.CVer, c.SVer = "dual", "dual"
		}
	}
	if suite.Auth != "tls13" && r.IntN(5) == 0 {
		// dual-stack endpoints that must settle on 1.2 because the peer is 1.2-only
		if r.IntN(2) == 0 {
			c.CVer = "dual"
		} else {
			c.SVer = "dual"
		}
	}
	ems := []ExtendedMasterSecretType{RequestExtendedMasterSecret, RequireExtendedMasterSecret, DisableExtendedMasterSecret}
	c.EMSc = ems[r.IntN(3)]
	c.EMSs = ems[r.IntN(3)]
	if (c.EMSc == RequireExtendedMasterSecret && c.EMSs == DisableExtendedMasterSecret) ||
		(c.EMSs == RequireExtendedMasterSecret && c.EMSc == DisableExtendedMasterSecret) {
		c.EMSs = RequestExtendedMasterSecret
		c.EMSc = RequestExtendedMasterSecret
	}
	if suite.Auth != "psk" && suite.Auth != "ecdhepsk" {
		c.ClientAuth = ClientAuthType(r.IntN(5))
		c.ClientCert = r.IntN(3) != 0
		if c.ClientAuth == RequireAnyClientCert || c.ClientAuth == RequireAndVerifyClientCert {
			c.ClientCert = true
		}
		c.Verify = r.IntN(2) == 0
	}
	cid := []int{-1, -1, 0, 4, 8}
	c.CIDc = cid[r.IntN(len(cid))]
	c.CIDs = cid[r.IntN(len(cid))]
	c.SRTP = r.IntN(4)
	c.ALPN = r.IntN(3)
	c.MTU = []int{0, 0, 256, 100, 60}[r.IntN(5)]
	c.HelloVerify = r.IntN(3) != 0
	c.LeafOnly = r.IntN(2) == 0
	c.Curves = r.IntN(4)
	c.Padding = r.IntN(4) == 0
	c.Store = suite.Auth != "tls13" && r.IntN(4) == 0

	return c
}

// vfMemStore is an instrumented in-memory SessionStore.
type vfMemStore struct {
	mu   sync.Mutex
	m    map[string]Session
	Log  []string
	name string
	// EmptyMiss: an unknown key is answered with an empty, non-nil Session (what a store that decodes a missing row
	// into make([]byte, 0) fields returns) instead of the zero Session
	EmptyMiss bool
	// Alias: Get hands out the stored slices themselves (a plain in-memory map does), not copies
	Alias bool
}

func vfNewMemStore(name string) *vfMemStore { return &vfMemStore{m: map[string]Session{}, name: name} }

func (s *vfMemStore) Set(key []byte, v Session) error {
	s.mu.Lock()
	defer s.mu.Unlock()
	s.m[string(key)] = Session{ID: append([]byte(nil), v.ID...), Secret: append([]byte(nil), v.Secret...)}
	s.Log = append(s.Log, fmt.Sprintf("set %x id=%x", key, v.ID))

	return nil
}

func (s *vfMemStore) Get(key []byte) (Session, error) {
	s.mu.Lock()
	defer s.mu.Unlock()
	v, hit := s.m[string(key)]
	s.Log = append(s.Log, fmt.Sprintf("get %x -> id=%x", key, v.ID))
	if !hit && s.EmptyMiss {
		return Session{ID: []byte{}, Secret: []byte{}}, nil
	}

	if s.Alias {
		return v, nil
	}

	return Session{ID: append([]byte(nil), v.ID...), Secret: append([]byte(nil), v.Secret...)}, nil
}

func (s *vfMemStore) Del(key []byte) error {
	s.mu.Lock()
	defer s.mu.Unlock()
	delete(s.m, string(key))
	s.Log = append(s.Log, fmt.Sprintf("del %x", key))

	return nil
}

func (s *vfMemStore) Len() int {
	s.mu.Lock()
	defer s.mu.Unlock()

	return len(s.m)
}

func (s *vfMemStore) Snapshot() map[string]Session {
	s.mu.Lock()
	defer s.mu.Unlock()
	out := map[string]Session{}
	for k, v := range s.m {
		out[k] = v
	}

	return out
}

func (s *vfMemStore) LogString() string {
	s.mu.Lock()
	defer s.mu.Unlock()

	return strings.Join(s.Log, "; ")
}

var _ = tls.Certificate{}
