//go:build verif

package dtls

// Fault masks over the first N emitted datagrams of each direction (C01, C02, C12, C14 ...).

import (
	"fmt"
	"math/rand/v2"
	"sync"
	"time"
)

// Actions: '.' deliver, 'x' drop, '2' duplicate, 's' swap with successor (held until the next
// emission of the same endpoint or 700ms), 'h' hold back 1.5 s (beyond the first retransmission),
// '3' deliver three copies.
type vfMask struct {
	C string `json:"c"` // actions for client emissions 0..len-1
	S string `json:"s"` // actions for server emissions
}

func (m vfMask) String() string { return fmt.Sprintf("c:%s|s:%s", m.C, m.S) }

// Faults returns the number of non-'.' actions.
func (m vfMask) Faults() int {
	n := 0
	for _, s := range []string{m.C, m.S} {
		for _, ch := range s {
			if ch != '.' {
				n++
			}
		}
	}

	return n
}

type vfMaskState struct {
	mu      sync.Mutex
	held    map[string][]*vfWire
	applied int
	dropped int
}

// Install makes net apply the mask. Returns a state from which the applied fault count is read.
func (m vfMask) Install(n *vfNet) *vfMaskState {
	st := &vfMaskState{held: map[string][]*vfWire{}}
	n.onSend = func(n *vfNet, w *vfWire) {
		acts := m.C
		if w.From == "s" {
			acts = m.S
		}
		act := byte('.')
		if w.Idx < len(acts) {
			act = acts[w.Idx]
		}
		from := vfAddr(vfClientAddr)
		if w.From == "s" {
			from = vfAddr(vfServerAddr)
		}
		// release anything held for "swap with successor"
		st.mu.Lock()
		held := st.held[w.From]
		st.held[w.From] = nil
		if act != '.' {
			st.applied++
		}
		st.mu.Unlock()
		switch act {
		case 'x':
			st.mu.Lock()
			st.dropped++
			st.mu.Unlock()
		case '2':
			n.Deliver(w.Dst, w.Data, from)
			n.Deliver(w.Dst, w.Data, from)
		case '3':
			n.Deliver(w.Dst, w.Data, from)
			n.Deliver(w.Dst, w.Data, from)
			n.Deliver(w.Dst, w.Data, from)
		case 's':
			st.mu.Lock()
			st.held[w.From] = append(st.held[w.From], w)
			st.mu.Unlock()
			time.AfterFunc(700*time.Millisecond, func() {
				st.mu.Lock()
				hs := st.held[w.From]
				var keep []*vfWire
				found := false
				for _, h := range hs {
					if h == w {
						found = true
					} else {
						keep = append(keep, h)
					}
				}
				st.held[w.From] = keep
				st.mu.Unlock()
				if found {
					n.Deliver(w.Dst, w.Data, from)
				}
			})
		case 'h':
			n.DeliverAfter(1500*time.Millisecond, w.Dst, w.Data, from)
		default:
			n.Deliver(w.Dst, w.Data, from)
		}
		for _, h := range held {
			n.Deliver(h.Dst, h.Data, from)
		}
	}

	return st
}

func (s *vfMaskState) Applied() int {
	s.mu.Lock()
	defer s.mu.Unlock()

	return s.applied
}

// vfRandMask draws a mask with the given per-datagram fault probability over n datagrams/direction.
func vfRandMask(r *rand.Rand, n int, p float64, actions string) vfMask {
	gen := func() string {
		b := make([]byte, n)
		for i := range b {
			b[i] = '.'
			if r.Float64() < p {
				b[i] = actions[r.IntN(len(actions))]
			}
		}

		return string(b)
	}

	return vfMask{C: gen(), S: gen()}
}

// vfDropMask builds the drop-only mask for bit pattern bits over n datagrams per direction
// (low n bits = client, next n bits = server).
func vfDropMask(bits uint64, n int) vfMask {
	c := make([]byte, n)
	s := make([]byte, n)
	for i := 0; i < n; i++ {
		c[i], s[i] = '.', '.'
		if bits&(1<<uint(i)) != 0 {
			c[i] = 'x'
		}
		if bits&(1<<uint(n+i)) != 0 {
			s[i] = 'x'
		}
	}

	return vfMask{C: string(c), S: string(s)}
}

// vfBackoffSum = sum_{i<k} min(2^i * I, 60s)
func vfBackoffSum(k int, interval time.Duration, backoff bool) time.Duration {
	var sum time.Duration
	cur := interval
	for i := 0; i < k; i++ {
		sum += cur
		if backoff {
			cur *= 2
			if cur > 60*time.Second {
				cur = 60 * time.Second
			}
		}
	}

	return sum
}
