//go:build verif

package dtls

// Fault masks over the first N emitted datagrams of each direction (C01, C02, C12, C14 ...).

import (
	"fmt"
	"math/rand/v2"
	"sync"
	"time"
)

// Actions: '.' deliver, 'x' drop, '2' duplicate, 's' swap with successor (held until the next
// emission of the same endpoint or 700ms), 'h' hold back 1.5 s (beyond the first retransmission),
// '3' deliver three copies.
type vfMask struct {
	C string `json:"c"` // actions for client emissions 0..len-1
	S string `json:"s"` // actions for server emissions
}

func (m vfMask) String() string { return fmt.Sprintf("c:%s|s:%s", m.C, m.S) }

// Faults returns the number of non-'.' actions.
func (m vfMask) Faults() int {
	n := 0
	for _, s := range []string{m.C, m.S} {
		for _, ch := range s {
			if ch != '.' {
				n++
			}
		}
	}

	return n
}

type vfMaskState struct {
	mu       sync.Mutex
	held     map[string][]*vfWire
	applied  int
	dropped  int
	delayed  int // datagrams that reached the peer later than the instant they were sent (hold, or a swap without successor)
	nonPlain int // faults that touched anything but a datagram made of epoch-0 handshake records only
}

// Install makes net apply the mask. Returns a state from which the applied fault count is read.
func (m vfMask) Install(n *vfNet) *vfMaskState {
	st := &vfMaskState{held: map[string][]*vfWire{}}
	n.onSend = func(n *vfNet, w *vfWire) {
		acts := m.C
		if w.From == "s" {
			acts = m.S
		}
		act := byte('.')
		if w.Idx < len(acts) {
			act = acts[w.Idx]
		}
		from := vfAddr(vfClientAddr)
		if w.From == "s" {
			from = vfAddr(vfServerAddr)
		}
		// release anything held for "swap with successor"
		st.mu.Lock()
		held := st.held[w.From]
		st.held[w.From] = nil
		if act != '.' {
			st.applied++
			if !vfPlainHandshakeOnly(w.Data) {
				st.nonPlain++
			}
		}
		for _, h := range held {
			if h.VTime != w.VTime {
				st.delayed++ // released by a later transmission, not by its neighbour in the same burst
			}
			if !vfPlainHandshakeOnly(w.Data) {
				st.nonPlain++ // the datagram it changes places with counts as touched
			}
		}
		st.mu.Unlock()
		switch act {
		case 'x':
			st.mu.Lock()
			st.dropped++
			st.mu.Unlock()
		case '2':
			n.Deliver(w.Dst, w.Data, from)
			n.Deliver(w.Dst, w.Data, from)
		case '3':
			n.Deliver(w.Dst, w.Data, from)
			n.Deliver(w.Dst, w.Data, from)
			n.Deliver(w.Dst, w.Data, from)
		case 's':
			st.mu.Lock()
			st.held[w.From] = append(st.held[w.From], w)
			st.mu.Unlock()
			time.AfterFunc(700*time.Millisecond, func() {
				st.mu.Lock()
				hs := st.held[w.From]
				var keep []*vfWire
				found := false
				for _, h := range hs {
					if h == w {
						found = true
					} else {
						keep = append(keep, h)
					}
				}
				st.held[w.From] = keep
				st.mu.Unlock()
				if found {
					st.mu.Lock()
					st.delayed++
					st.mu.Unlock()
					n.Deliver(w.Dst, w.Data, from)
				}
			})
		case 'h':
			st.mu.Lock()
			st.delayed++
			st.mu.Unlock()
			n.DeliverAfter(1500*time.Millisecond, w.Dst, w.Data, from)
		default:
			n.Deliver(w.Dst, w.Data, from)
		}
		for _, h := range held {
			n.Deliver(h.Dst, h.Data, from)
		}
	}

	return st
}

// Undisturbed reports that every datagram so far reached its destination at the instant it was sent: faults were
// duplications and reorderings within one burst only.
func (s *vfMaskState) Undisturbed() bool {
	s.mu.Lock()
	defer s.mu.Unlock()

	return s.dropped == 0 && s.delayed == 0
}

// PlainHandshakeOnly: every datagram a fault touched (including the successor a swapped datagram changed places
// with) consisted of unprotected handshake records only.
func (s *vfMaskState) PlainHandshakeOnly() bool {
	s.mu.Lock()
	defer s.mu.Unlock()

	return s.nonPlain == 0
}

func vfPlainHandshakeOnly(b []byte) bool {
	recs, ok := vfParseDatagram(b, 0)
	if !ok || len(recs) == 0 {
		return false
	}
	for _, r := range recs {
		if r.Unified || r.Type != 22 || r.Epoch != 0 {
			return false
		}
	}

	return true
}

func (s *vfMaskState) Applied() int {
	s.mu.Lock()
	defer s.mu.Unlock()

	return s.applied
}

// vfRandMask draws a mask with the given per-datagram fault probability over n datagrams/direction.
func vfRandMask(r *rand.Rand, n int, p float64, actions string) vfMask {
	gen := func() string {
		b := make([]byte, n)
		for i := range b {
			b[i] = '.'
			if r.Float64() < p {
				b[i] = actions[r.IntN(len(actions))]
			}
		}

		return string(b)
	}

	return vfMask{C: gen(), S: gen()}
}

// vfDropMask builds the drop-only mask for bit pattern bits over n datagrams per direction
// (low n bits = client, next n bits = server).
func vfDropMask(bits uint64, n int) vfMask {
	c := make([]byte, n)
	s := make([]byte, n)
	for i := 0; i < n; i++ {
		c[i], s[i] = '.', '.'
		if bits&(1<<uint(i)) != 0 {
			c[i] = 'x'
		}
		if bits&(1<<uint(n+i)) != 0 {
			s[i] = 'x'
		}
	}

	return vfMask{C: string(c), S: string(s)}
}

// vfBackoffSum = sum_{i<k} min(2^i * I, 60s)
func vfBackoffSum(k int, interval time.Duration, backoff bool) time.Duration {
	var sum time.Duration
	cur := interval
	for i := 0; i < k; i++ {
		sum += cur
		if backoff {
			// "double after each timeout up to 60 s": the cap ends the doubling, it never shortens an interval that
			// was configured above it
			if d := cur * 2; d > 60*time.Second {
				cur = max(60*time.Second, cur)
			} else {
				cur = d
			}
		}
	}

	return sum
}
