//go:build verif

package dtls

// Common harness plumbing shared by all /verif monitors that live in package dtls:
// environment (seed, tier, output dir), the result collector whose JSON the driver
// (/verif/check) turns into evidence, deterministic PRNG helpers and a bubble-parallel runner.

import (
	"crypto/sha256"
	"encoding/hex"
	"encoding/json"
	"fmt"
	"math/rand/v2"
	"os"
	"path/filepath"
	"runtime"
	"sort"
	"strconv"
	"strings"
	"sync"
	"sync/atomic"
	"testing"
	"testing/synctest"
	"time"
)

type vfEnvT struct {
	Seed     uint64
	Tier     string // quick | thorough
	Out      string // directory for result.json / current.* / replays
	Replay   string // path of a replay file, if any
	SkipCase map[string]bool
}

var vfEnvOnce sync.Once
var vfEnvV vfEnvT

func vfEnv() *vfEnvT {
	vfEnvOnce.Do(func() {
		vfEnvV.Tier = os.Getenv("VERIF_TIER")
		if vfEnvV.Tier == "" {
			vfEnvV.Tier = "quick"
		}
		if s := os.Getenv("VERIF_SEED"); s != "" {
			if v, err := strconv.ParseInt(s, 10, 64); err == nil {
				vfEnvV.Seed = uint64(v)
			} else if u, err2 := strconv.ParseUint(s, 10, 64); err2 == nil {
				vfEnvV.Seed = u
			}
		}
		vfEnvV.Out = os.Getenv("VERIF_OUT")
		if vfEnvV.Out == "" {
			vfEnvV.Out = os.TempDir()
		}
		vfEnvV.Replay = os.Getenv("VERIF_REPLAY")
		vfEnvV.SkipCase = map[string]bool{}
		for _, c := range strings.Split(os.Getenv("VERIF_SKIP_CASES"), "\x1f") {
			if c != "" {
				vfEnvV.SkipCase[c] = true
			}
		}
	})

	return &vfEnvV
}

func vfThorough() bool { return vfEnv().Tier == "thorough" }

// vfPick returns q in the quick tier and th in the thorough tier.
func vfPick(q, th int) int {
	if vfThorough() {
		return th
	}

	return q
}

// vfRand returns a PRNG determined by (VERIF_SEED, scope, idx) only.
func vfRand(scope string, idx int) *rand.Rand {
	h := sha256.Sum256([]byte(fmt.Sprintf("%d|%s|%d", vfEnv().Seed, scope, idx)))
	var a, b uint64
	for i := 0; i < 8; i++ {
		a = a<<8 | uint64(h[i])
		b = b<<8 | uint64(h[8+i])
	}

	return rand.New(rand.NewPCG(a, b))
}

func vfRandBytes(r *rand.Rand, n int) []byte {
	b := make([]byte, n)
	for i := range b {
		b[i] = byte(r.UintN(256))
	}

	return b
}

// ---------------------------------------------------------------------------------------------
// Result collector

type vfViolation struct {
	Property  string `json:"property"`
	Signature string `json:"signature"` // specific: known_findings are matched on it
	What      string `json:"what"`
	Replay    any    `json:"replay,omitempty"` // scenario that reproduces it
}

type vfResult struct {
	mu sync.Mutex

	Property     string              `json:"property"`
	Tier         string              `json:"tier"`
	Seed         uint64              `json:"seed"`
	Evaluations  int64               `json:"evaluations"`
	Rule         string              `json:"rule"`
	Samples      []any               `json:"samples"`
	Counters     map[string]int64    `json:"counters"`
	Distinct     map[string]int      `json:"-"`
	DistinctN    int                 `json:"distinct_nontrivial"`
	DistinctSets map[string]int      `json:"distinct_sets,omitempty"`
	SetValues    map[string][]string `json:"set_values,omitempty"`
	Violations   []vfViolation       `json:"violations"`
	Inconclusive []string            `json:"inconclusive"`
	Assumptions  []string            `json:"assumptions"`
	Exhaustive   bool                `json:"exhaustive"`
	Notes        []string            `json:"notes,omitempty"`
	WallS        float64             `json:"wall_s"`
	start        time.Time
	sets         map[string]map[string]struct{}
	maxSamples   int
}

func vfNewResult(property, rule string) *vfResult {
	return &vfResult{
		Property: property, Tier: vfEnv().Tier, Seed: vfEnv().Seed, Rule: rule,
		Counters: map[string]int64{}, Distinct: map[string]int{}, sets: map[string]map[string]struct{}{},
		start: time.Now(), maxSamples: 6, Violations: []vfViolation{}, Inconclusive: []string{},
		Samples: []any{}, Assumptions: []string{},
	}
}

func (r *vfResult) Eval(n int64) { atomic.AddInt64(&r.Evaluations, n) }

func (r *vfResult) Count(key string, n int64) {
	r.mu.Lock()
	r.Counters[key] += n
	r.mu.Unlock()
}

func (r *vfResult) Max(key string, v int64) {
	r.mu.Lock()
	if v > r.Counters[key] {
		r.Counters[key] = v
	}
	r.mu.Unlock()
}

func (r *vfResult) Get(key string) int64 {
	r.mu.Lock()
	defer r.mu.Unlock()

	return r.Counters[key]
}

// NonTrivial records the fingerprint of a case on which the monitor's floor of relevant events was met.
func (r *vfResult) NonTrivial(fp string) {
	r.mu.Lock()
	r.Distinct[fp]++
	r.mu.Unlock()
}

// Seen records a value into a named set whose cardinality is reported (distinct states, orders, ...).
func (r *vfResult) Seen(set, v string) {
	r.mu.Lock()
	m := r.sets[set]
	if m == nil {
		m = map[string]struct{}{}
		r.sets[set] = m
	}
	m[v] = struct{}{}
	r.mu.Unlock()
}

func (r *vfResult) SetSize(set string) int {
	r.mu.Lock()
	defer r.mu.Unlock()

	return len(r.sets[set])
}

func (r *vfResult) Sample(s any) {
	r.mu.Lock()
	if len(r.Samples) < r.maxSamples {
		r.Samples = append(r.Samples, s)
	}
	r.mu.Unlock()
}

func (r *vfResult) Violate(sig, what string, replay any) {
	r.mu.Lock()
	defer r.mu.Unlock()
	for _, v := range r.Violations {
		if v.Signature == sig {
			r.Counters["violation_repeats"]++

			return
		}
	}
	r.Violations = append(r.Violations, vfViolation{Property: r.Property, Signature: sig, What: what, Replay: replay})
}

func (r *vfResult) Inconc(why string) {
	r.mu.Lock()
	r.Inconclusive = append(r.Inconclusive, why)
	r.mu.Unlock()
}

func (r *vfResult) Assume(a ...string) { r.Assumptions = append(r.Assumptions, a...) }
func (r *vfResult) Note(a string) {
	r.mu.Lock()
	r.Notes = append(r.Notes, a)
	r.mu.Unlock()
}

// Floor makes the run inconclusive when a monitor saw fewer relevant events than it needs.
func (r *vfResult) Floor(key string, minimum int64) {
	if got := r.Get(key); got < minimum {
		r.Inconc(fmt.Sprintf("floor not met: %s=%d < %d", key, got, minimum))
	}
}

// Finish writes $VERIF_OUT/result.<property>.json; the driver merges it with known findings.
func (r *vfResult) Finish(t *testing.T) {
	t.Helper()
	r.mu.Lock()
	if len(r.Samples) == 0 {
		r.Inconclusive = append(r.Inconclusive, "the run recorded no sample case")
	}
	r.DistinctN = len(r.Distinct)
	r.DistinctSets = map[string]int{}
	r.SetValues = map[string][]string{}
	for k, v := range r.sets {
		r.DistinctSets[k] = len(v)
		if len(v) <= 60 {
			vals := make([]string, 0, len(v))
			for x := range v {
				vals = append(vals, x)
			}
			sort.Strings(vals)
			r.SetValues[k] = vals
		}
	}
	r.WallS = time.Since(r.start).Seconds()
	sort.Slice(r.Violations, func(i, j int) bool { return r.Violations[i].Signature < r.Violations[j].Signature })
	data, err := json.MarshalIndent(r, "", " ")
	r.mu.Unlock()
	if err != nil {
		t.Fatalf("marshal result: %v", err)
	}
	path := filepath.Join(vfEnv().Out, "result."+r.Property+".json")
	if err := os.WriteFile(path, data, 0o644); err != nil {
		t.Fatalf("write result: %v", err)
	}
	t.Logf("VF %s: evaluations=%d distinct=%d violations=%d inconclusive=%d wall=%.1fs",
		r.Property, r.Evaluations, r.DistinctN, len(r.Violations), len(r.Inconclusive), r.WallS)
}

// vfCurrent records the case about to be executed so that a process death can be attributed.
func vfCurrent(shard int, caseID string, detail any) {
	d, _ := json.Marshal(map[string]any{"case": caseID, "detail": detail})
	_ = os.WriteFile(filepath.Join(vfEnv().Out, "current."+strconv.Itoa(shard)), d, 0o644)
}

func vfClearCurrent(shard int) {
	_ = os.Remove(filepath.Join(vfEnv().Out, "current."+strconv.Itoa(shard)))
}

func vfHex(b []byte) string { return hex.EncodeToString(b) }

func vfShortHash(parts ...string) string {
	h := sha256.Sum256([]byte(strings.Join(parts, "\x00")))

	return hex.EncodeToString(h[:6])
}

// ---------------------------------------------------------------------------------------------
// Parallel execution of cases, each inside its own synctest bubble.

func vfWorkers() int {
	n := runtime.GOMAXPROCS(0)
	if s := os.Getenv("VERIF_WORKERS"); s != "" {
		if v, err := strconv.Atoi(s); err == nil && v > 0 {
			n = v
		}
	}

	return n
}

// Per-case real-time watchdog: a livelock that makes no virtual-time progress would otherwise hang
// the whole run. When a case exceeds the limit the goroutine dump and the case are written to
// $VERIF_OUT/hang.json and the process exits with status 4; the driver turns that into a verdict
// (crash-capable checks re-run the case alone) or an inconclusive result.
var vfInflight sync.Map // key int (case index) -> vfInflightCase

type vfInflightCase struct {
	Start time.Time
	Name  string
}

var vfWatchdogOnce sync.Once

func vfCaseLimit() time.Duration {
	if s := os.Getenv("VERIF_CASE_LIMIT_S"); s != "" {
		if v, err := strconv.Atoi(s); err == nil && v > 0 {
			return time.Duration(v) * time.Second
		}
	}

	return 120 * time.Second
}

func vfStartWatchdog() {
	vfWatchdogOnce.Do(func() {
		go func() {
			for {
				time.Sleep(2 * time.Second)
				vfInflight.Range(func(k, v any) bool {
					c, _ := v.(vfInflightCase)
					if time.Since(c.Start) > vfCaseLimit() {
						buf := make([]byte, 8<<20)
						buf = buf[:runtime.Stack(buf, true)]
						d, _ := json.Marshal(map[string]any{"case": c.Name, "index": k, "running_s": time.Since(c.Start).Seconds()})
						_ = os.WriteFile(filepath.Join(vfEnv().Out, "hang.json"), d, 0o644)
						_ = os.WriteFile(filepath.Join(vfEnv().Out, "hang.stacks"), buf, 0o644)
						fmt.Fprintf(os.Stderr, "VF watchdog: case %s has been running for %v of wall time; aborting\n", c.Name, time.Since(c.Start))
						os.Exit(4)
					}

					return true
				})
			}
		}()
	})
}

// vfCaseName lets a check give its cases names for the watchdog (default: the index).
var vfCaseName func(i int) string

// vfBubbles runs fn(i) for i in [0,n) with up to vfWorkers() bubbles in flight.
func vfBubbles(t *testing.T, n int, fn func(t *testing.T, i int)) {
	t.Helper()
	vfStartWatchdog()
	namer := vfCaseName
	var next int64 = -1
	var wg sync.WaitGroup
	w := vfWorkers()
	if w > n {
		w = n
	}
	for k := 0; k < w; k++ {
		wg.Add(1)
		go func() {
			defer wg.Done()
			for {
				i := int(atomic.AddInt64(&next, 1))
				if i >= n {
					return
				}
				// A sub-test per bubble: a race report or failure attributed to one bubble must
				// not stop the remaining cases from running.
				name := strconv.Itoa(i)
				if namer != nil {
					name = namer(i)
				}
				key := fmt.Sprintf("%p/%d", &next, i)
				vfInflight.Store(key, vfInflightCase{Start: time.Now(), Name: name})
				t.Run("b", func(t *testing.T) {
					synctest.Test(t, func(t *testing.T) { fn(t, i) })
				})
				vfInflight.Delete(key)
			}
		}()
	}
	wg.Wait()
}

// vfParallel runs fn(i) for i in [0,n) on plain goroutines (no bubble).
func vfParallel(n int, fn func(worker, i int)) {
	var next int64 = -1
	var wg sync.WaitGroup
	w := vfWorkers()
	if w > n {
		w = n
	}
	for k := 0; k < w; k++ {
		wg.Add(1)
		go func(k int) {
			defer wg.Done()
			for {
				i := int(atomic.AddInt64(&next, 1))
				if i >= n {
					return
				}
				fn(k, i)
			}
		}(k)
	}
	wg.Wait()
}

func vfLoadReplay(t *testing.T, into any) {
	t.Helper()
	data, err := os.ReadFile(vfEnv().Replay)
	if err != nil {
		t.Fatalf("replay file: %v", err)
	}
	if err := json.Unmarshal(data, into); err != nil {
		t.Fatalf("replay file: %v", err)
	}
}
