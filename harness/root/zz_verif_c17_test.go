//go:build verif

package dtls

// C17 Retransmission discipline, in exact virtual time.
// M1 silence law: after the target received its first c datagrams everything else to it is
//    dropped; its later emission instants must be exactly t0 + sum_{i<k} min(2^i I, 60 s)
//    (t0 + k I without backoff); nothing at all after a cookie request or after completion
//    (DTLS 1.3 post-handshake flights awaiting an ACK follow the same law).
// M2 interval restore: silence until two retransmissions happened, then the withheld reply is
//    delivered; the next flight's first retransmission must come after the initial interval.
// M3 final flight: a completed endpoint is silent, answers a genuine peer retransmission, and
//    emits nothing for garbage.
// M4 bound: emissions <= timer bursts + (flight size + 1) per datagram received while a hostile
//    peer repeats stale flights / garbage; zero-virtual-time livelocks are violations.

import (
	"bytes"
	"context"
	"fmt"
	"sort"
	"strings"
	"sync"
	"testing"
	"testing/synctest"
	"time"

	dtlsstate "github.com/pion/dtls/v3/internal/state"
)

type vfC17Case struct {
	V        vfVariant
	Target   string
	Cut      int
	Interval time.Duration
	Backoff  bool
	Mode     string // silence | restore | hostile
	Drop     int    // silence mode: 1+index of the one emission of the target that is lost before the silence (0: none)
}

func (c vfC17Case) String() string {
	if c.Drop > 0 {
		return fmt.Sprintf("%s/%s/cut%d/I=%v/backoff=%v/%s/drop%d", c.V.Name, c.Target, c.Cut, c.Interval, c.Backoff, c.Mode, c.Drop-1)
	}

	return fmt.Sprintf("%s/%s/cut%d/I=%v/backoff=%v/%s", c.V.Name, c.Target, c.Cut, c.Interval, c.Backoff, c.Mode)
}

func vfC17Opts(c vfC17Case) ([]ClientOption, []ServerOption) {
	co, so := c.V.Cfg.Options(nil, nil)
	co = append(co, WithFlightInterval(c.Interval), WithDisableRetransmitBackoff(!c.Backoff))
	so = append(so, WithFlightInterval(c.Interval), WithDisableRetransmitBackoff(!c.Backoff))

	return co, so
}

type vfBurst struct {
	At    time.Duration
	N     int
	Kinds string
}

// vfBurstsOf segments the emissions of endpoint name into flight transmissions: consecutive
// emissions with no delivery to that endpoint in between (logical-clock order) and no change of the
// virtual instant. from/to select emissions by virtual time (inclusive from, exclusive to; to<0 = all).
func vfBurstsOf(n *vfNet, name, addr string, after time.Duration, strictlyAfter bool) (pre, post []vfBurst) {
	log := n.LogSince(0)
	boundary := true
	for _, w := range log {
		if w.Deliver {
			if w.Read && w.From == name {
				boundary = true
			}

			continue
		}
		if w.From != name {
			continue
		}
		isPost := w.VTime > after || (!strictlyAfter && w.VTime >= after)
		dst := &pre
		if isPost {
			dst = &post
		}
		k := vfKind(w.Data)
		if l := len(*dst); l > 0 && !boundary && (*dst)[l-1].At == w.VTime {
			(*dst)[l-1].N++
			if !strings.Contains((*dst)[l-1].Kinds, k) {
				(*dst)[l-1].Kinds += "," + k
			}
		} else {
			*dst = append(*dst, vfBurst{At: w.VTime, N: 1, Kinds: k})
		}
		boundary = false
	}

	return pre, post
}

func vfBursts(ems []*vfWire) []vfBurst {
	var out []vfBurst
	for _, w := range ems {
		k := vfKind(w.Data)
		if len(out) > 0 && out[len(out)-1].At == w.VTime {
			out[len(out)-1].N++
			if !strings.Contains(out[len(out)-1].Kinds, k) {
				out[len(out)-1].Kinds += "," + k
			}

			continue
		}
		out = append(out, vfBurst{At: w.VTime, N: 1, Kinds: k})
	}

	return out
}

func vfGrid(t0 time.Duration, interval time.Duration, backoff bool, horizon time.Duration) []time.Duration {
	var g []time.Duration
	for k := 1; ; k++ {
		t := t0 + vfBackoffSum(k, interval, backoff)
		if t > horizon {
			break
		}
		g = append(g, t)
	}

	return g
}

// vfC17Silence implements M1 (and the first half of M2).
func vfC17Silence(res *vfResult, c vfC17Case) {
	n := vfNewNet()
	n.stormCap = 0
	co, so := vfC17Opts(c)
	p, err := vfNewPair(n, co, so)
	if err != nil {
		res.Count("config_rejected", 1)

		return
	}
	target, peer := vfSideOf(p, c.Target)
	var mu sync.Mutex
	toTarget := 0
	silent := false
	var silenceAt time.Duration
	type heldDg struct {
		data []byte
		at   time.Duration
	}
	var held []heldDg
	release := false
	n.onSend = func(n *vfNet, w *vfWire) {
		from := vfAddrOf(w.From)
		if w.From != peer.Name {
			mu.Lock()
			dark := silent && !release
			mu.Unlock()
			if c.Drop > 0 && w.Idx == c.Drop-1 {
				// one datagram of the target's flight is lost: the peer acknowledges (DTLS 1.3) or simply waits for
				// the rest, and the flight as a whole stays unanswered when the silence begins
				res.Count("silence_with_one_datagram_of_the_flight_lost", 1)

				return
			}
			if !dark { // once the silence began the target's retransmissions are only observed, not delivered
				n.Deliver(w.Dst, w.Data, from)
			}

			return
		}
		mu.Lock()
		if !silent && toTarget >= c.Cut {
			silent = true
			silenceAt = n.Now()
		}
		s := silent && !release
		if !s {
			toTarget++
			if c.Mode == "stale-only" && toTarget >= c.Cut {
				// the silence begins right behind this datagram: the target's answer to it never reaches the
				// peer, whose timer then repeats a flight the target has already processed
				silent = true
				silenceAt = n.Now()
			}
		} else {
			held = append(held, heldDg{w.Data, n.Now()})
		}
		mu.Unlock()
		if s {
			return
		}
		n.Deliver(w.Dst, w.Data, from)
	}
	horizon := 10 * time.Minute
	done := make(chan struct{})
	var cAt, sAt time.Duration
	go func() {
		cAt, sAt = p.HandshakeTimed(horizon + time.Minute)
		close(done)
	}()
	res.Eval(1)
	if c.Mode == "stale-only" {
		// after two retransmissions deliver only the peer's own timer retransmissions of a flight the target had
		// fully received before the silence: retransmitted data must not restore the interval, so the target's
		// schedule continues on the original grid
		t1 := 3*c.Interval + c.Interval/2
		time.Sleep(t1)
		synctest.Wait()
		mu.Lock()
		h := held
		held = nil
		sa := silenceAt
		isSilent := silent
		mu.Unlock()
		fresh := 0
		for _, d := range h {
			if d.at < sa+c.Interval {
				fresh++
			}
		}
		if !isSilent || fresh > 0 || len(h) == 0 {
			res.Count("stale_only_not_applicable", 1)
			res.Count(fmt.Sprintf("stale_only_na/silent=%v/fresh=%v/held=%v", isSilent, fresh > 0, len(h) > 0), 1)
			p.Close()
			<-done
			synctest.Wait()

			return
		}
		for _, d := range h {
			n.Deliver(string(target.EP.addr), d.data, vfAddrOf(peer.Name))
		}
		synctest.Wait()
		time.Sleep(2 * time.Minute)
		synctest.Wait()
		preB, postB := vfBurstsOf(n, target.Name, string(target.EP.addr), sa, true)
		if len(preB) == 0 || len(postB) < 3 {
			res.Count("stale_only_not_applicable", 1)
		} else {
			// Receiving a retransmission may restart the timer (RFC 6347 4.2.4 re-sends on it), so the instants are
			// not pinned to the original grid. What retransmitted data must not do is restore the interval: the gaps
			// between consecutive timer retransmissions never shrink while only such data arrives.
			t0 := preB[len(preB)-1].At
			var timer []vfBurst
			for _, b := range postB {
				if b.At != t1 { // answers to the delivered datagrams themselves
					timer = append(timer, b)
				}
			}
			bad := ""
			prev := t0
			gap := time.Duration(0)
			for i, b := range timer {
				g := b.At - prev
				if i > 0 && g < gap && b.At > t1 {
					bad = fmt.Sprintf("gap before retransmission %d (at %v) is %v, the one before it was %v", i+1, b.At, g, gap)

					break
				}
				prev, gap = b.At, g
			}
			if len(timer) < 4 {
				res.Count("stale_only_too_few_retransmissions", 1)
			}
			res.Count("stale_only_observed", 1)
			res.NonTrivial("stale-only/" + c.String())
			if bad != "" {
				res.Violate(fmt.Sprintf("C17:retransmitted-data-restored-the-interval:%s:%s", vfVerClass(c.V), c.Target),
					fmt.Sprintf("%s: only retransmitted (already processed) data arrived at %v, yet the back-off was undone (t0=%v): %s", c.String(), t1, t0, bad),
					map[string]any{"case": c.String(), "bursts": postB})
			}
		}
		p.Close()
		<-done
		synctest.Wait()

		return
	}
	if c.Mode == "restore-partial" {
		// after two retransmissions only the first datagram of the peer's withheld next flight arrives: new data,
		// but not enough of it to move on. The interval is restored all the same: the back-off starts over.
		t1 := 3*c.Interval + c.Interval/2
		time.Sleep(t1)
		synctest.Wait()
		mu.Lock()
		h := held
		held = nil
		sa := silenceAt
		isSilent := silent
		mu.Unlock()
		var first []heldDg
		for _, d := range h {
			if d.at < sa+c.Interval {
				first = append(first, d)
			}
		}
		// the delivered datagram must hand the state machine something new: a complete plaintext handshake
		// message (a lone fragment of a larger message is buffered without any event; protected DTLS 1.3
		// datagrams cannot be classified from outside, so the mode is limited to what can be told apart)
		whole := false
		if len(first) > 0 {
			if recs, ok := vfParseDatagram(first[0].data, 0); ok {
				for _, rc := range recs {
					if !rc.Unified && rc.Type == 22 && rc.Epoch == 0 {
						if hs, _, ok := vfParseHS(rc.Body); ok && hs.FragOff == 0 && hs.FragLen == hs.Length {
							whole = true
						}
					}
				}
			}
		}
		if !isSilent || len(first) < 2 || !whole || vfIs13(target.Conn) {
			res.Count("restore_partial_not_applicable", 1)
			p.Close()
			<-done
			synctest.Wait()

			return
		}
		n.Deliver(string(target.EP.addr), first[0].data, vfAddrOf(peer.Name))
		synctest.Wait()
		time.Sleep(2 * time.Minute)
		synctest.Wait()
		_, postB := vfBurstsOf(n, target.Name, string(target.EP.addr), sa, true)
		var timer []vfBurst
		for _, b := range postB {
			if b.At > t1 {
				timer = append(timer, b)
			}
		}
		completed := false
		select {
		case <-done:
			completed = true
		default:
		}
		if len(timer) < 2 || completed {
			res.Count("restore_partial_not_applicable", 1)
		} else {
			res.Count("restore_partial_observed", 1)
			res.NonTrivial("restore-partial/" + c.String())
			if gap := timer[1].At - timer[0].At; gap > 2*c.Interval {
				res.Violate(fmt.Sprintf("C17:interval-not-restored:restore-partial:%s:%s", vfVerClass(c.V), c.Target),
					fmt.Sprintf("%s: new (not retransmitted) data arrived at %v after two retransmissions; the next two timer retransmissions came at %v and %v, %v apart — the back-off was not started over (interval %v)",
						c.String(), t1, timer[0].At, timer[1].At, gap, c.Interval), map[string]any{"case": c.String(), "bursts": postB})
			}
		}
		p.Close()
		<-done
		synctest.Wait()

		return
	}
	if c.Mode == "restore" || c.Mode == "restore-dup" {
		// after the second retransmission (t0+I, t0+3I or t0+I, t0+2I) deliver what was withheld
		t1 := 3*c.Interval + c.Interval/2
		time.Sleep(t1)
		synctest.Wait()
		mu.Lock()
		h := held
		held = nil
		mu.Unlock()
		before := len(n.Emissions(target.Name))
		// deliver the withheld reply directly; the silence (both directions) stays in force, so the
		// target's next flight is never answered
		for _, d := range h {
			// "restore": only the withheld first transmission (new data); "restore-dup": also the peer's
			// timer retransmissions of it, which arrive as retransmitted data right behind the new data
			if c.Mode == "restore" && d.at >= c.Interval {
				continue
			}
			n.Deliver(string(target.EP.addr), d.data, vfAddrOf(peer.Name))
		}
		synctest.Wait()
		time.Sleep(2 * time.Minute)
		synctest.Wait()
		ems := n.Emissions(target.Name)[before:]
		bs := vfBursts(ems)
		// bs[1] counts as the retransmission of the flight sent at t1 only if its datagrams (by size) were all
		// part of the burst at t1: a completed DTLS 1.3 endpoint answers late retransmissions with ACKs at t1
		// while its unacknowledged ticket keeps its own, already backed-off schedule (not a new flight)
		sameFlight := false
		if len(bs) >= 2 {
			sizes := map[int]int{}
			for _, e := range ems {
				if e.VTime == bs[0].At {
					sizes[len(e.Data)]++
				}
			}
			sameFlight = true
			for _, e := range ems {
				if e.VTime == bs[1].At {
					if sizes[len(e.Data)] == 0 {
						sameFlight = false
					}
					sizes[len(e.Data)]--
				}
			}
		}
		// ... and only if the burst at t1 is one transmission of that flight: when the delivered datagrams include
		// the peer's retransmissions, a DTLS 1.3 endpoint re-sends its flight once per such datagram at t1, and
		// which of those arrivals the timer then counts from is not fixed by the statement
		if len(bs) >= 2 && bs[0].N != bs[1].N {
			sameFlight = false
		}
		if len(bs) >= 2 && bs[0].At == n.t0Offset(t1) && sameFlight {
			// bs[0] = the new flight sent in response at t1; bs[1] = its first retransmission
			gap := bs[1].At - bs[0].At
			res.Count(c.Mode+"_observed", 1)
			res.NonTrivial("restore/" + c.String())
			if gap != c.Interval && !strings.Contains(bs[0].Kinds, "HelloVerifyRequest") && !strings.Contains(bs[0].Kinds, "HelloRetryRequest") {
				res.Violate(fmt.Sprintf("C17:interval-not-restored:%s:%s:%s", c.Mode, vfVerClass(c.V), c.Target),
					fmt.Sprintf("%s: after two retransmissions the awaited data arrived and the %s sent a new flight at %v; its first retransmission came after %v instead of the initial interval %v",
						c.String(), c.Target, bs[0].At, gap, c.Interval), map[string]any{"case": c.String(), "bursts": bs})
			}
		} else {
			res.Count("restore_not_applicable", 1)
		}
		p.Close()
		<-done
		synctest.Wait()

		return
	}
	time.Sleep(horizon)
	synctest.Wait()
	mu.Lock()
	sa := silenceAt
	isSilent := silent
	mu.Unlock()
	ems := n.Emissions(target.Name)
	if !isSilent {
		res.Count("silence_cut_not_reached", 1)
		p.Close()
		<-done
		synctest.Wait()

		return
	}
	_ = ems
	preB, postB := vfBurstsOf(n, target.Name, string(target.EP.addr), sa, true)
	completedAtCut := false
	select {
	case <-done:
		tAt := cAt
		if c.Target == "s" {
			tAt = sAt
		}
		terr := p.C.Err
		if c.Target == "s" {
			terr = p.S.Err
		}
		completedAtCut = terr == nil && tAt <= sa
	default:
	}
	lastKinds := ""
	t0 := time.Duration(0)
	flightSize := 0
	if len(preB) > 0 {
		lb := preB[len(preB)-1]
		lastKinds, t0, flightSize = lb.Kinds, lb.At, lb.N
		_ = flightSize
	}
	state := "awaiting"
	switch {
	case len(preB) == 0:
		state = "nothing-sent"
	case strings.Contains(lastKinds, "HelloVerifyRequest") || strings.Contains(lastKinds, "HelloRetryRequest"):
		state = "cookie-request"
	case completedAtCut:
		state = "completed"
	}
	res.Seen("silence_states", fmt.Sprintf("%s/%s/%s/%s", vfVerClass(c.V), c.Target, state, lastKinds))
	res.NonTrivial("silence/" + c.String())
	res.Count("silence/"+state, 1)
	grid := vfGrid(t0, c.Interval, c.Backoff, horizon)
	sigBase := fmt.Sprintf("%s:%s:%s", vfVerClass(c.V), c.Target, state)
	times := func(b []vfBurst) []string {
		var s []string
		for _, x := range b {
			s = append(s, fmt.Sprintf("%v(x%d %s)", x.At, x.N, x.Kinds))
		}
		if len(s) > 12 {
			s = append(s[:12], "...")
		}

		return s
	}
	switch state {
	case "cookie-request", "nothing-sent":
		if len(postB) != 0 {
			res.Violate("C17:timer-emission:"+sigBase, fmt.Sprintf("%s: in silence after %s the %s emitted by timer: %v", c.String(), state, c.Target, times(postB)),
				map[string]any{"case": c.String(), "bursts": postB})
		}
	case "completed":
		if len(postB) != 0 {
			if vfIs13(target.Conn) { // negotiated version (dual-stack variants)
				// a post-handshake flight (ticket) awaiting its ACK follows the law from its first transmission t0
				ok := len(postB) == len(grid)
				for i := 0; i < len(postB) && i < len(grid) && ok; i++ {
					if postB[i].At != grid[i] {
						ok = false
					}
				}
				if !ok {
					res.Violate("C17:post-handshake-schedule:"+sigBase, fmt.Sprintf("%s: emissions after completion do not follow the retransmission law: %v", c.String(), times(postB)),
						map[string]any{"case": c.String(), "bursts": postB})
				}
				res.Count("post_handshake_flights_observed", 1)
			} else {
				res.Violate("C17:emission-after-completion:"+sigBase, fmt.Sprintf("%s: the completed %s emitted without any incoming datagram: %v", c.String(), c.Target, times(postB)),
					map[string]any{"case": c.String(), "bursts": postB})
			}
		}
	default:
		if c.Drop > 0 {
			// The last transmission before the silence may itself have been a timer retransmission (the lost datagram
			// kept the peer from answering), so the grid's origin is not known. What the law still fixes: the endpoint
			// awaits a reply, so it keeps retransmitting until the horizon, every gap is at least the configured interval
			// and at most 60 s, and a gap is the previous one or its double (capped).
			bad := ""
			prev := t0
			gap := time.Duration(0)
			for i, b := range postB {
				g := b.At - prev
				switch {
				case i > 0 && g != gap && g != 2*gap && !(g == 60*time.Second && 2*gap > g):
					bad = fmt.Sprintf("gap before retransmission %d (at %v) is %v, the one before it was %v", i+1, b.At, g, gap)
				case i > 0 && (g < c.Interval || g > 60*time.Second):
					bad = fmt.Sprintf("gap before retransmission %d (at %v) is %v, outside [%v, 60s]", i+1, b.At, g, c.Interval)
				}
				if bad != "" {
					break
				}
				prev, gap = b.At, g
			}
			if bad == "" && (len(postB) == 0 || horizon-postB[len(postB)-1].At > 61*time.Second) {
				last := "none at all"
				if len(postB) > 0 {
					last = "the last one at " + postB[len(postB)-1].At.String()
				}
				bad = fmt.Sprintf("the endpoint still awaits a reply but stopped retransmitting (%d retransmissions in %v of silence, %s)", len(postB), horizon-sa, last)
			}
			if bad != "" {
				res.Violate("C17:timer-law:"+sigBase+":after-partial-loss", c.String()+": "+bad+"; observed "+fmt.Sprint(times(postB)),
					map[string]any{"case": c.String(), "bursts": postB})
			} else {
				res.Count("timer_law_after_partial_loss", 1)
				res.Count("retransmissions_checked", int64(len(postB)))
			}

			break
		}
		// every burst on the grid, every grid point has a burst of the flight's size
		bad := ""
		if len(postB) != len(grid) {
			bad = fmt.Sprintf("%d retransmissions observed, the law prescribes %d within %v", len(postB), len(grid), horizon)
		}
		for i := 0; i < len(postB) && i < len(grid) && bad == ""; i++ {
			if postB[i].At != grid[i] {
				bad = fmt.Sprintf("retransmission %d at %v, the law prescribes %v (t0=%v, I=%v, backoff=%v)", i+1, postB[i].At, grid[i], t0, c.Interval, c.Backoff)
			} else if postB[i].N != postB[0].N {
				// in silence the same flight is re-sent every time (the last burst before the silence may
				// have been a DTLS 1.3 ACK, so sizes are compared among the retransmissions themselves)
				bad = fmt.Sprintf("retransmission %d has %d datagrams, retransmission 1 had %d", i+1, postB[i].N, postB[0].N)
			}
		}
		if bad != "" {
			select {
			case <-done:
				bad += fmt.Sprintf(" [HandshakeContext returned: client=%v at %v, server=%v at %v]", p.C.Err, cAt, p.S.Err, sAt)
			default:
			}
			if len(postB) > 0 {
				bad += fmt.Sprintf(" [last retransmission at %v]", postB[len(postB)-1].At)
			}
			res.Violate("C17:timer-law:"+sigBase+fmt.Sprintf(":backoff=%v", c.Backoff), c.String()+": "+bad+"; observed "+fmt.Sprint(times(postB)),
				map[string]any{"case": c.String(), "bursts": postB, "grid": grid})
		} else {
			res.Count("timer_law_exact", 1)
			res.Count("retransmissions_checked", int64(len(postB)))
		}
	}
	if len(postB) > 0 && res.Get("samples_taken") < 6 {
		res.Count("samples_taken", 1)
		res.Sample(map[string]any{"case": c.String(), "state": state, "t0": t0.String(), "observed": times(postB)})
	}
	p.Close()
	<-done
	synctest.Wait()
}

func (n *vfNet) t0Offset(d time.Duration) time.Duration { return d }

// vfC17Hostile implements M3 and M4 on a completed pair.
func vfC17Hostile(res *vfResult, c vfC17Case) {
	n := vfNewNet()
	co, so := vfC17Opts(c)
	if c.V.Resumed {
		// an abbreviated handshake, in which the client sends the last flight: prime two stores on a perfect network
		cS, sS := vfNewMemStore("c"), vfNewMemStore("s")
		mk := func() ([]ClientOption, []ServerOption) {
			co, so := c.V.Cfg.Options(cS, sS)

			return append(co, WithFlightInterval(c.Interval), WithDisableRetransmitBackoff(!c.Backoff)),
				append(so, WithFlightInterval(c.Interval), WithDisableRetransmitBackoff(!c.Backoff))
		}
		co0, so0 := mk()
		p0, err := vfNewPair(vfNewNet(), co0, so0)
		if err != nil {
			return
		}
		if ce, se := p0.Handshake(time.Minute); ce != nil || se != nil {
			p0.Close()
			synctest.Wait()

			return
		}
		p0.Close()
		synctest.Wait()
		co, so = mk()
	}
	p, err := vfNewPair(n, co, so)
	if err != nil {
		return
	}
	target, peer := vfSideOf(p, c.Target)
	if ce, se := p.Handshake(time.Minute); ce != nil || se != nil {
		res.Count("hostile_handshake_failed", 1)
		p.Close()
		synctest.Wait()

		return
	}
	p.C.StartPump()
	p.S.StartPump()
	time.Sleep(137 * time.Millisecond)
	synctest.Wait()
	res.Eval(1)
	peerEms := n.Emissions(peer.Name)
	var genuine [][]byte
	for _, w := range peerEms {
		genuine = append(genuine, w.Data)
	}
	// silence from the genuine peer from now on
	n.SetOnSend(func(n *vfNet, w *vfWire) {})
	r := vfRand("C17/hostile/"+c.String(), 0)
	flightMax := 1
	for _, b := range vfBursts(n.Emissions(target.Name)) {
		if b.N > flightMax {
			flightMax = b.N
		}
	}
	type phase struct {
		name string
		gen  func(i int) []byte
	}
	tk, tkErr := vfNewToolkit(p)
	var lastHS []byte
	for _, it := range peer.Conn.handshakeCache.VFItems() {
		if it.IsClient == (peer.Name == "c") && len(it.Data) >= 12 {
			lastHS = it.Data
		}
	}
	phases := []phase{
		{"garbage", func(i int) []byte { return vfGenRaw(r, 1)[0].Data }},
		{"replayed-old-flights", func(i int) []byte { return genuine[i%len(genuine)] }},
	}
	// unauthenticated handshake records carrying message sequence numbers the peer never used: not a retransmission
	// of anything, so a completed endpoint has no reason to repeat its final flight for them
	phases = append(phases, phase{"forged-new-handshake-message", func(i int) []byte {
		body := vfRandBytes(r, 24)

		return vfLegacyRecord(22, 0xfefd, 0, uint64(600000+i), nil, -1, vfHSFragment([]uint8{1, 16, 20, 11}[i%4], uint32(len(body)), uint16(60+i%200), 0, uint32(len(body)), body))
	}})
	if tkErr == nil && lastHS != nil {
		if _, is13 := target.Conn.state.(*dtlsstate.State13); !is13 {
			// the same from the authenticated peer: new DTLS 1.2 handshake messages under the session's keys (what a
			// peer asking for a renegotiation sends) are not a retransmission of its last flight either
			next := dtlsstate.HandshakeRecvSequence(target.Conn.state)
			phases = append(phases, phase{"authentic-new-handshake-message", func(i int) []byte {
				if i >= 40 {
					return nil
				}
				body := vfRandBytes(r, 24)
				ep, first := tk.reserve(peer.Name, 1)
				b, _ := tk.Seal(peer.Name, ep, first, 22, vfHSFragment([]uint8{1, 0, 16, 11}[i%4], uint32(len(body)), uint16(next+i), 0, uint32(len(body)), body), r.Uint64())

				return b
			}})
		}
		phases = append(phases, phase{"genuine-retransmission", func(i int) []byte {
			ep, first := tk.reserve(peer.Name, 1)
			b, _ := tk.Seal(peer.Name, ep, first, 22, lastHS, r.Uint64())

			return b
		}})
	}
	nPer := vfPick(300, 3000)
	for _, ph := range phases {
		start := len(n.Emissions(target.Name))
		startT := n.Now()
		responses := 0
		maxPerDatagram := 0
		for i := 0; i < nPer; i++ {
			d := ph.gen(i)
			if d == nil {
				continue
			}
			b0 := len(n.Emissions(target.Name))
			n.Deliver(string(target.EP.addr), d, vfAddrOf(peer.Name))
			synctest.Wait()
			e := len(n.Emissions(target.Name)) - b0
			responses += e
			if e > maxPerDatagram {
				maxPerDatagram = e
			}
			time.Sleep(10*time.Millisecond + 137*time.Microsecond)
		}
		synctest.Wait()
		total := len(n.Emissions(target.Name)) - start
		elapsed := n.Now() - startT
		timerBursts := int(elapsed/c.Interval) + 1
		bound := timerBursts*flightMax + (flightMax+1)*nPer
		res.Count("hostile_datagrams/"+ph.name, int64(nPer))
		res.Count("hostile_emissions/"+ph.name, int64(total))
		res.Max("max_emissions_per_received_datagram/"+ph.name, int64(maxPerDatagram))
		res.NonTrivial("hostile/" + ph.name + "/" + c.String())
		if total > bound {
			res.Violate(fmt.Sprintf("C17:bound:%s:%s:%s", ph.name, vfVerClass(c.V), c.Target),
				fmt.Sprintf("%s: %d datagrams emitted for %d received (%s) in %v: exceeds timer bursts %d x flight %d + (flight+1) x received", c.String(), total, nPer, ph.name, elapsed, timerBursts, flightMax),
				map[string]any{"case": c.String()})
		}
		if maxPerDatagram > flightMax+1 {
			res.Violate(fmt.Sprintf("C17:per-datagram:%s:%s:%s", ph.name, vfVerClass(c.V), c.Target),
				fmt.Sprintf("%s: one received datagram (%s) made the endpoint emit %d datagrams; its largest flight has %d", c.String(), ph.name, maxPerDatagram, flightMax),
				map[string]any{"case": c.String()})
		}
		if ph.name == "garbage" && responses != 0 {
			unparse := true
			_ = unparse
			res.Count("responses_to_garbage", int64(responses))
		}
		if ph.name == "authentic-new-handshake-message" && responses != 0 {
			res.Violate(fmt.Sprintf("C17:final-flight-resent-for-new-message:%s:%s", vfVerClass(c.V), c.Target),
				fmt.Sprintf("%s: 40 new, correctly protected handshake messages (fresh message numbers, no retransmission of anything) drew %d datagrams from the completed endpoint", c.String(), responses),
				map[string]any{"case": c.String()})
		}
		if ph.name == "forged-new-handshake-message" && responses != 0 {
			res.Violate(fmt.Sprintf("C17:final-flight-resent-without-peer-retransmission:%s:%s", vfVerClass(c.V), c.Target),
				fmt.Sprintf("%s: %d unauthenticated handshake records with message sequence numbers the peer never used drew %d datagrams from the completed endpoint", c.String(), nPer, responses),
				map[string]any{"case": c.String()})
		}
		if ph.name == "genuine-retransmission" {
			if responses > 0 {
				res.Count("final_flight_resent_on_peer_retransmission", 1)
			} else {
				res.Count("no_response_to_peer_retransmission", 1)
				res.Seen("no_response_to_retransmission", fmt.Sprintf("%s/%s", c.V.Name, c.Target))
			}
		}
	}
	p.Close()
	synctest.Wait()
}

// vfC17PersistentLoss: a multi-datagram flight of the peer keeps losing the same fragment, so every retransmission
// of it brings the target only copies of fragments it already holds: retransmitted data, nothing new. The target's
// own timer retransmissions must keep backing off: the gaps between them never shrink.
func vfC17PersistentLoss(res *vfResult, c vfC17Case) {
	n := vfNewNet()
	n.stormCap = 0
	co, so := vfC17Opts(c)
	p, err := vfNewPair(n, co, so)
	if err != nil {
		res.Count("config_rejected", 1)

		return
	}
	target, peer := vfSideOf(p, c.Target)
	var mu sync.Mutex
	victim := "" // description of the fragment that never arrives
	multi := 0
	deliveredAt := map[time.Duration]bool{}
	n.SetOnSend(func(n *vfNet, w *vfWire) {
		if w.From != peer.Name {
			n.Deliver(w.Dst, w.Data, vfAddrOf(w.From))

			return
		}
		d := vfDescribe(w.Data, 0)
		mu.Lock()
		// the c.Cut-th datagram of the peer that carries a non-initial fragment of a fragmented message
		if victim == "" && strings.Contains(d, "[ms") && !strings.Contains(d, ",0+") {
			multi++
			if multi == c.Cut {
				victim = d
			}
		}
		drop := victim != "" && d == victim
		if !drop {
			deliveredAt[n.Now()] = true
		}
		mu.Unlock()
		if !drop {
			n.Deliver(w.Dst, w.Data, vfAddrOf(w.From))
		}
	})
	done := make(chan struct{})
	go func() { p.HandshakeTimed(300 * c.Interval); close(done) }()
	res.Eval(1)
	<-done
	synctest.Wait()
	mu.Lock()
	v := victim
	mu.Unlock()
	if v == "" {
		res.Count("persistent_loss_not_applicable", 1)
		p.Close()
		synctest.Wait()

		return
	}
	var timer []time.Duration
	mu.Lock()
	for _, b := range vfBursts(n.Emissions(target.Name)) {
		if !deliveredAt[b.At] { // not an answer to something that just arrived: the target's own timer
			timer = append(timer, b.At)
		}
	}
	mu.Unlock()
	res.NonTrivial("persistent-loss/" + c.String())
	res.Count("persistent_loss_observed", 1)
	bad := ""
	for i := 2; i < len(timer); i++ {
		if g, pg := timer[i]-timer[i-1], timer[i-1]-timer[i-2]; g < pg {
			bad = fmt.Sprintf("gap before the timer retransmission at %v is %v, the one before it was %v", timer[i], g, pg)

			break
		}
	}
	if len(timer) < 4 {
		res.Count("persistent_loss_too_few_retransmissions", 1)
	}
	if bad != "" {
		res.Violate(fmt.Sprintf("C17:retransmitted-data-restored-the-interval:persistent-fragment-loss:%s:%s", vfVerClass(c.V), c.Target),
			fmt.Sprintf("%s: the peer's flight kept arriving without %s, i.e. only copies of fragments already held, yet the back-off was undone: %s; timer retransmissions at %v",
				c.String(), v, bad, timer), map[string]any{"case": c.String()})
	}
	p.Close()
	synctest.Wait()
}

// vfC17Closed: two genuine endpoints, finite fault mask, then a reliable network: the exchange must
// quiesce; the simnet's emission cap turns a self-sustaining exchange into an observable event.
func vfC17Closed(res *vfResult, idx int) {
	vs := vfC02Variants()
	v := vs[idx%len(vs)]
	r := vfRand("C17/closed", idx)
	mask := vfRandMask(r, 8, 0.3, "x23sh")
	if idx%5 == 0 {
		v.Cfg.MTU = []int{60, 100, 256}[r.IntN(3)]
		if v.Cfg.Is13() && v.Cfg.MTU < 100 {
			v.Cfg.MTU = 100
		}
	}
	out := vfC02RunCounted(v, mask)
	res.Eval(1)
	res.NonTrivial(fmt.Sprintf("closed/%s/%s/mtu%d", v.Name, mask.String(), v.Cfg.MTU))
	res.Max("closed_max_datagrams_per_session", int64(out.Datagrams))
	res.Max("closed_max_datagrams/"+vfVerClass(v), int64(out.Datagrams))
	if out.Storm {
		res.Violate(fmt.Sprintf("C17:self-sustaining-exchange:%s", vfVerClass(v)),
			fmt.Sprintf("variant %s (MTU %d), mask %s: the two endpoints exchanged more than %d datagrams in one session (emission cap hit): a retransmission storm that no timer paces",
				v.Name, v.Cfg.MTU, mask.String(), out.Datagrams), map[string]any{"variant": v.Name, "mask": mask, "mtu": v.Cfg.MTU})
	}
}

type vfCountedOutcome struct {
	Datagrams int
	Storm     bool
	OK        bool
}

func vfC02RunCounted(v vfVariant, mask vfMask) vfCountedOutcome {
	var cStore, sStore *vfMemStore
	if v.Cfg.Store {
		cStore, sStore = vfNewMemStore("c"), vfNewMemStore("s")
	}
	run := func(m vfMask, final bool) vfCountedOutcome {
		n := vfNewNet()
		m.Install(n)
		var co []ClientOption
		var so []ServerOption
		if v.Cfg.Store {
			co, so = v.Cfg.Options(cStore, sStore)
		} else {
			co, so = v.Cfg.Options(nil, nil)
		}
		p, err := vfNewPair(n, co, so)
		if err != nil {
			return vfCountedOutcome{}
		}
		ce, se := p.Handshake(5 * time.Minute)
		n.SetOnSend(nil)
		if ce == nil && se == nil {
			p.C.StartPump()
			p.S.StartPump()
			time.Sleep(2 * time.Minute) // let every pending retransmission / ACK exchange play out
			synctest.Wait()
		}
		o := vfCountedOutcome{Datagrams: int(n.emitted.Load()), Storm: n.Storm(), OK: ce == nil && se == nil}
		p.Close()
		synctest.Wait()

		return o
	}
	if v.Resumed {
		run(vfMask{}, false)
	}

	return run(mask, true)
}

// vfC17PostHandshakeBusy: a DTLS 1.3 KeyUpdate whose every transmission is lost, while the application keeps writing.
// The writes are events for the state machine too; they must not postpone the KeyUpdate's retransmission schedule.
func vfC17PostHandshakeBusy(res *vfResult, c vfC17Case) {
	n := vfNewNet()
	n.stormCap = 0
	co, so := vfC17Opts(c)
	p, err := vfNewPair(n, co, so)
	res.Eval(1)
	if err != nil {
		return
	}
	if ce, se := p.Handshake(time.Minute); ce != nil || se != nil || !vfIs13(p.C.Conn) {
		res.Count("busy_not_applicable", 1)
		p.Close()
		synctest.Wait()

		return
	}
	p.C.StartPump()
	p.S.StartPump()
	time.Sleep(5 * time.Second) // ticket flights are acknowledged
	synctest.Wait()
	target, _ := vfSideOf(p, c.Target)
	n.SetOnSend(func(n *vfNet, w *vfWire) {
		if w.From == target.Name {
			return // dark towards the peer: observed only
		}
		n.Deliver(w.Dst, w.Data, vfAddrOf(w.From))
	})
	mark := n.LogLen()
	t0 := n.Now()
	payload := bytes.Repeat([]byte{0x5a}, 200) // far from the size of a KeyUpdate record
	var wg sync.WaitGroup
	wg.Add(2)
	go func() {
		defer wg.Done()
		ctx, cancel := context.WithTimeout(context.Background(), 16*c.Interval)
		defer cancel()
		_ = target.Conn.UpdateKeys(ctx, KeyUpdateOptions{})
	}()
	go func() {
		defer wg.Done()
		for i := 0; i < 300; i++ {
			time.Sleep(c.Interval / 5)
			if _, err := target.Conn.Write(payload); err != nil {
				return
			}
			if n.Now()-t0 > 15*c.Interval {
				return
			}
		}
	}()
	wg.Wait()
	synctest.Wait()
	var ku []time.Duration
	for _, w := range n.LogSince(mark) {
		if !w.Deliver && w.From == target.Name && len(w.Data) < 100 {
			ku = append(ku, w.VTime-t0)
		}
	}
	want := []time.Duration{0, c.Interval, 3 * c.Interval, 7 * c.Interval}
	if !c.Backoff {
		want = []time.Duration{0, c.Interval, 2 * c.Interval, 3 * c.Interval}
	}
	res.NonTrivial("busy/" + c.String())
	res.Count("busy_observed", 1)
	bad := ""
	for i, wnt := range want {
		if i >= len(ku) {
			bad = fmt.Sprintf("transmission %d of the KeyUpdate is missing (law: +%v)", i+1, wnt)

			break
		}
		if ku[i] != wnt {
			bad = fmt.Sprintf("transmission %d of the KeyUpdate at +%v, the law prescribes +%v", i+1, ku[i], wnt)

			break
		}
	}
	if bad != "" {
		res.Violate(fmt.Sprintf("C17:post-handshake-schedule-under-writes:%s:backoff=%v", c.Target, c.Backoff),
			fmt.Sprintf("%s: while the application wrote every %v and nothing arrived, %s; small datagrams seen at %v", c.String(), c.Interval/5, bad, ku), map[string]any{"case": c.String()})
	}
	p.Close()
	synctest.Wait()
}

// vfC17SecondPostHandshakeFlight: a first KeyUpdate needs three retransmissions before its ACK gets through; a second
// one is then sent into silence. Every flight starts at the configured interval: the second KeyUpdate's transmissions
// come at +0, +I, +3I (+2I without back-off), whatever the first one went through.
func vfC17SecondPostHandshakeFlight(res *vfResult, c vfC17Case) {
	n := vfNewNet()
	n.stormCap = 0
	co, so := vfC17Opts(c)
	p, err := vfNewPair(n, co, so)
	res.Eval(1)
	if err != nil {
		return
	}
	if ce, se := p.Handshake(time.Minute); ce != nil || se != nil || !vfIs13(p.C.Conn) {
		res.Count("second_flight_not_applicable", 1)
		p.Close()
		synctest.Wait()

		return
	}
	p.C.StartPump()
	p.S.StartPump()
	time.Sleep(5 * time.Second) // ticket flights are acknowledged
	synctest.Wait()
	target, _ := vfSideOf(p, c.Target)
	var mu sync.Mutex
	dark := true
	n.SetOnSend(func(n *vfNet, w *vfWire) {
		mu.Lock()
		d := dark
		mu.Unlock()
		if w.From == target.Name && d {
			return
		}
		n.Deliver(w.Dst, w.Data, vfAddrOf(w.From))
	})
	first := make(chan error, 1)
	go func() {
		ctx, cancel := context.WithTimeout(context.Background(), 64*c.Interval)
		defer cancel()
		first <- target.Conn.UpdateKeys(ctx, KeyUpdateOptions{})
	}()
	// three retransmissions (+I, +3I, +7I with back-off; +I, +2I, +3I without) go into the dark, the next one arrives
	time.Sleep(7*c.Interval + c.Interval/2)
	mu.Lock()
	dark = false
	mu.Unlock()
	if err := <-first; err != nil {
		res.Count("second_flight_first_update_failed", 1)
		p.Close()
		synctest.Wait()

		return
	}
	time.Sleep(3 * c.Interval)
	synctest.Wait()
	mu.Lock()
	dark = true
	mu.Unlock()
	mark := n.LogLen()
	t0 := n.Now()
	ctx, cancel := context.WithTimeout(context.Background(), 4*c.Interval)
	_ = target.Conn.UpdateKeys(ctx, KeyUpdateOptions{})
	cancel()
	synctest.Wait()
	var ku []time.Duration
	for _, w := range n.LogSince(mark) {
		if !w.Deliver && w.From == target.Name {
			ku = append(ku, w.VTime-t0)
		}
	}
	want := []time.Duration{0, c.Interval, 3 * c.Interval}
	if !c.Backoff {
		want = []time.Duration{0, c.Interval, 2 * c.Interval, 3 * c.Interval}
	}
	res.NonTrivial("second-flight/" + c.String())
	res.Count("second_post_handshake_flights_observed", 1)
	bad := ""
	for i, wnt := range want {
		if i >= len(ku) {
			bad = fmt.Sprintf("transmission %d of the second KeyUpdate is missing (law: +%v)", i+1, wnt)

			break
		}
		if ku[i] != wnt {
			bad = fmt.Sprintf("transmission %d of the second KeyUpdate at +%v, the law prescribes +%v", i+1, ku[i], wnt)

			break
		}
	}
	if bad != "" {
		res.Violate(fmt.Sprintf("C17:post-handshake-schedule:second-flight:%s:backoff=%v", c.Target, c.Backoff),
			fmt.Sprintf("%s: after a first KeyUpdate that needed retransmissions, %s; datagrams seen at %v", c.String(), bad, ku), map[string]any{"case": c.String()})
	}
	p.Close()
	synctest.Wait()
}

func TestVF_C17(t *testing.T) {
	vfGetPKI()
	res := vfNewResult("C17", "exact virtual-time schedules: for every handshake variant x role x number of datagrams received before total "+
		"silence x flight interval {1 s, 100 ms, 3 s} x backoff on/off the emission instants of the silenced endpoint over 10 virtual minutes; "+
		"interval-restore runs; completed endpoints under garbage / replayed flights / genuine retransmissions of the peer's final message in "+
		"lock step (deliver one datagram, wait for quiescence, count responses); closed-system runs under finite fault masks. Distinct = distinct scenario")
	res.Assume("emissions at one virtual instant form one flight transmission; delivery instants are placed off the retransmission grid")
	var cases []vfC17Case
	vs := vfC02Variants()
	{
		// a dual-stack client whose DTLS 1.2 server answers with its ServerHello flight at once (no cookie exchange),
		// in several datagrams: the client enters the 1.2 state machine with the ClientHello it has already sent
		c := vfBaseCfg(vfSuiteInfo{Name: "default", Auth: "ecdsa"}, "ecdsa")
		c.CVer, c.SVer, c.HelloVerify, c.MTU = "dual", "12", false, 200
		vs = append(vs, vfVariant{Name: "dualstack-client-12server-nohv-mtu200", Cfg: c})
	}
	ivs := []time.Duration{time.Second, 100 * time.Millisecond, 3 * time.Second}
	maxCut := vfPick(7, 12)
	for vi, v := range vs {
		if v.Resumed {
			// (silence cases need exact flight bookkeeping of a full handshake; the abbreviated flights are covered by
			// C02/C14) - but a finished endpoint of an abbreviated handshake, whose client sent the last flight, is
			// fed the hostile phases like any other
			for _, tgt := range []string{"c", "s"} {
				cases = append(cases, vfC17Case{V: v, Target: tgt, Interval: time.Second, Backoff: true, Mode: "hostile"})
			}

			continue
		}
		for _, tgt := range []string{"c", "s"} {
			for cut := 0; cut <= maxCut; cut++ {
				for ii, iv := range ivs {
					if !vfThorough() && (vi+cut+ii)%3 != 0 {
						continue
					}
					for _, bo := range []bool{true, false} {
						cases = append(cases, vfC17Case{V: v, Target: tgt, Cut: cut, Interval: iv, Backoff: bo, Mode: "silence"})
					}
				}
				// an interval above the 60 s cap of the back-off, with back-off disabled: constant means constant
				// (with back-off the doubling stops at once, the configured interval stays); DTLS 1.3 servers at every
				// cut, so that the post-handshake flight's timer is among them
				if (cut <= 2 && (vi+cut)%4 == 0) || (cut <= 4 && tgt == "s" && (v.Cfg.Is13() || v.Cfg.SVer == "dual")) {
					cases = append(cases, vfC17Case{V: v, Target: tgt, Cut: cut, Interval: 75 * time.Second, Backoff: false, Mode: "silence"})
					cases = append(cases, vfC17Case{V: v, Target: tgt, Cut: cut, Interval: 75 * time.Second, Backoff: true, Mode: "silence"})
				}
				if cut > 0 {
					cases = append(cases, vfC17Case{V: v, Target: tgt, Cut: cut, Interval: time.Second, Backoff: true, Mode: "restore"})
					cases = append(cases, vfC17Case{V: v, Target: tgt, Cut: cut, Interval: time.Second, Backoff: true, Mode: "restore-dup"})
					cases = append(cases, vfC17Case{V: v, Target: tgt, Cut: cut, Interval: time.Second, Backoff: true, Mode: "stale-only"})
					cases = append(cases, vfC17Case{V: v, Target: tgt, Cut: cut, Interval: time.Second, Backoff: true, Mode: "restore-partial"})
				}
			}
			// a multi-datagram flight of which one datagram is lost, the peer's reaction (a partial ACK in DTLS 1.3)
			// delivered, then silence: the flight is still unanswered, the timer law applies unchanged
			if v.Cfg.MTU > 0 && v.Cfg.Is13() {
				for cut := 1; cut <= maxCut; cut++ {
					for drop := 1; drop <= 4; drop++ {
						if !vfThorough() && (cut+drop)%2 != 0 {
							continue
						}
						cases = append(cases, vfC17Case{V: v, Target: tgt, Cut: cut, Interval: time.Second, Backoff: true, Mode: "silence", Drop: drop + 1})
					}
				}
			}
			if v.Cfg.MTU > 0 && !v.Cfg.Is13() {
				for cut := 1; cut <= 3; cut++ {
					cases = append(cases, vfC17Case{V: v, Target: tgt, Cut: cut, Interval: 100 * time.Millisecond, Backoff: true, Mode: "persistent-loss"})
				}
			}
			cases = append(cases, vfC17Case{V: v, Target: tgt, Interval: time.Second, Backoff: true, Mode: "hostile"})
			if v.Cfg.Is13() || v.Cfg.SVer == "dual" || v.Cfg.SVer == "13" {
				cases = append(cases, vfC17Case{V: v, Target: tgt, Interval: 100 * time.Millisecond, Backoff: true, Mode: "posthandshake-busy"})
				cases = append(cases, vfC17Case{V: v, Target: tgt, Interval: 200 * time.Millisecond, Backoff: false, Mode: "posthandshake-busy"})
				cases = append(cases, vfC17Case{V: v, Target: tgt, Interval: 100 * time.Millisecond, Backoff: true, Mode: "posthandshake-second-flight"})
				cases = append(cases, vfC17Case{V: v, Target: tgt, Interval: 200 * time.Millisecond, Backoff: false, Mode: "posthandshake-second-flight"})
			}
		}
	}
	if vfEnv().Replay != "" {
		var rf struct {
			Replay struct {
				Case string `json:"case"`
			} `json:"replay"`
		}
		vfLoadReplay(t, &rf)
		vfDumpWire = true
		var sel []vfC17Case
		for _, c := range cases {
			if c.String() == rf.Replay.Case {
				sel = append(sel, c)
			}
		}
		if len(sel) == 0 {
			res.Inconc("replay names no case of this tier: " + rf.Replay.Case)
		}
		for _, c := range sel {
			synctest.Test(t, func(t *testing.T) {
				if c.Mode == "posthandshake-busy" {
					vfC17PostHandshakeBusy(res, c)
				} else if c.Mode == "posthandshake-second-flight" {
					vfC17SecondPostHandshakeFlight(res, c)
				} else if c.Mode == "persistent-loss" {
					vfC17PersistentLoss(res, c)
				} else if c.Mode == "hostile" {
					vfC17Hostile(res, c)
				} else {
					vfC17Silence(res, c)
				}
			})
		}
		res.NonTrivial("replay-extra")
		res.Sample("replay")
		res.Finish(t)

		return
	}
	vfCaseName = func(i int) string { return cases[i].String() }
	vfBubbles(t, len(cases), func(t *testing.T, i int) {
		switch cases[i].Mode {
		case "posthandshake-busy":
			vfC17PostHandshakeBusy(res, cases[i])
		case "posthandshake-second-flight":
			vfC17SecondPostHandshakeFlight(res, cases[i])
		case "persistent-loss":
			vfC17PersistentLoss(res, cases[i])
		case "hostile":
			vfC17Hostile(res, cases[i])
		default:
			vfC17Silence(res, cases[i])
		}
	})
	nClosed := vfPick(300, 6000)
	vfCaseName = func(i int) string { return fmt.Sprintf("closed/%d", i) }
	vfBubbles(t, nClosed, func(t *testing.T, i int) { vfC17Closed(res, i) })
	vfCaseName = nil
	res.Floor("timer_law_exact", 50)
	res.Floor("silence/cookie-request", 2)
	res.Floor("silence/completed", 4)
	res.Floor("restore_observed", 5)
	res.Floor("stale_only_observed", 5)
	res.Floor("restore_partial_observed", 3)
	res.Floor("busy_observed", 4)
	res.Floor("final_flight_resent_on_peer_retransmission", 2)
	_ = sort.Strings
	res.Finish(t)
}
