//go:build verif

package dtls

// Credentials (harness CA valid 1999-2100 because bubble time starts at 2000-01-01), pair
// construction and the API-boundary recorders (read pump, key log).

import (
	"bytes"
	"context"
	"crypto"
	"crypto/ecdsa"
	"crypto/ed25519"
	"crypto/elliptic"
	"crypto/rand"
	"crypto/rsa"
	"crypto/tls"
	"crypto/x509"
	"crypto/x509/pkix"
	"errors"
	"fmt"
	"io"
	"math/big"
	"net"
	"strings"
	"sync"
	"time"

	dtlserrors "github.com/pion/dtls/v3/internal/errors"
	dtlsflight "github.com/pion/dtls/v3/internal/flight"
	dtlsstate "github.com/pion/dtls/v3/internal/state"
	"github.com/pion/dtls/v3/pkg/protocol"
)

type vfPKI struct {
	CA        *x509.Certificate
	CAKey     *ecdsa.PrivateKey
	Pool      *x509.CertPool
	RogueCA   *x509.Certificate
	RogueKey  *ecdsa.PrivateKey
	RoguePool *x509.CertPool
	// leaf[kind][role] ; kind in ecdsa|rsa|ed25519 ; role in server|client
	leaf map[string]tls.Certificate
}

var vfPKIOnce sync.Once
var vfPKIv *vfPKI

const vfServerName = "vf.server.example"

func vfMakeCA(cn string) (*x509.Certificate, *ecdsa.PrivateKey) {
	key, err := ecdsa.GenerateKey(elliptic.P256(), rand.Reader)
	if err != nil {
		panic(err)
	}
	tmpl := &x509.Certificate{
		SerialNumber: big.NewInt(1), Subject: pkix.Name{CommonName: cn},
		NotBefore: time.Date(1999, 1, 1, 0, 0, 0, 0, time.UTC), NotAfter: time.Date(2100, 1, 1, 0, 0, 0, 0, time.UTC),
		IsCA: true, BasicConstraintsValid: true,
		KeyUsage: x509.KeyUsageCertSign | x509.KeyUsageDigitalSignature,
	}
	der, err := x509.CreateCertificate(rand.Reader, tmpl, tmpl, &key.PublicKey, key)
	if err != nil {
		panic(err)
	}
	cert, _ := x509.ParseCertificate(der)

	return cert, key
}

func vfMakeLeaf(ca *x509.Certificate, caKey crypto.Signer, kind, cn string, dns []string,
	notBefore, notAfter time.Time, serial int64,
) tls.Certificate {
	var priv crypto.Signer
	var err error
	switch kind {
	case "ecdsa":
		priv, err = ecdsa.GenerateKey(elliptic.P256(), rand.Reader)
	case "ecdsa384":
		priv, err = ecdsa.GenerateKey(elliptic.P384(), rand.Reader)
	case "rsa":
		priv, err = rsa.GenerateKey(rand.Reader, 2048)
	case "ed25519":
		_, p, e := ed25519.GenerateKey(rand.Reader)
		priv, err = p, e
	default:
		panic("kind " + kind)
	}
	if err != nil {
		panic(err)
	}
	tmpl := &x509.Certificate{
		SerialNumber: big.NewInt(serial), Subject: pkix.Name{CommonName: cn},
		NotBefore: notBefore, NotAfter: notAfter,
		KeyUsage:    x509.KeyUsageDigitalSignature | x509.KeyUsageKeyEncipherment,
		ExtKeyUsage: []x509.ExtKeyUsage{x509.ExtKeyUsageServerAuth, x509.ExtKeyUsageClientAuth},
	}
	// names that are IP literals become iPAddress subject alternative names
	for _, name := range dns {
		if ip := net.ParseIP(name); ip != nil {
			tmpl.IPAddresses = append(tmpl.IPAddresses, ip)
		} else {
			tmpl.DNSNames = append(tmpl.DNSNames, name)
		}
	}
	der, err := x509.CreateCertificate(rand.Reader, tmpl, ca, priv.Public(), caKey)
	if err != nil {
		panic(err)
	}
	leaf, _ := x509.ParseCertificate(der)

	return tls.Certificate{Certificate: [][]byte{der, ca.Raw}, PrivateKey: priv, Leaf: leaf}
}

// vfWithEKU issues an ECDSA leaf like vfMakeLeaf but with exactly the given extended key usage.
func vfWithEKU(_ any, ca *x509.Certificate, caKey crypto.Signer, cn string, dns []string, notBefore, notAfter time.Time, serial int64, eku x509.ExtKeyUsage) tls.Certificate {
	priv, err := ecdsa.GenerateKey(elliptic.P256(), rand.Reader)
	if err != nil {
		panic(err)
	}
	tmpl := &x509.Certificate{
		SerialNumber: big.NewInt(serial), Subject: pkix.Name{CommonName: cn}, DNSNames: dns,
		NotBefore: notBefore, NotAfter: notAfter,
		KeyUsage: x509.KeyUsageDigitalSignature, ExtKeyUsage: []x509.ExtKeyUsage{eku},
	}
	der, err := x509.CreateCertificate(rand.Reader, tmpl, ca, priv.Public(), caKey)
	if err != nil {
		panic(err)
	}
	leaf, _ := x509.ParseCertificate(der)

	return tls.Certificate{Certificate: [][]byte{der, ca.Raw}, PrivateKey: priv, Leaf: leaf}
}

func vfGetPKI() *vfPKI {
	vfPKIOnce.Do(func() {
		p := &vfPKI{leaf: map[string]tls.Certificate{}}
		p.CA, p.CAKey = vfMakeCA("vf-ca")
		p.RogueCA, p.RogueKey = vfMakeCA("vf-rogue-ca")
		p.Pool = x509.NewCertPool()
		p.Pool.AddCert(p.CA)
		p.RoguePool = x509.NewCertPool()
		p.RoguePool.AddCert(p.RogueCA)
		nb := time.Date(1999, 6, 1, 0, 0, 0, 0, time.UTC)
		na := time.Date(2099, 1, 1, 0, 0, 0, 0, time.UTC)
		ser := int64(100)
		var wg sync.WaitGroup
		var mu sync.Mutex
		for _, kind := range []string{"ecdsa", "rsa", "ed25519"} {
			for _, role := range []string{"server", "client"} {
				ser++
				wg.Add(1)
				go func(kind, role string, ser int64) {
					defer wg.Done()
					dns := []string{"vf.client.example"}
					if role == "server" {
						dns = []string{vfServerName}
					}
					c := vfMakeLeaf(p.CA, p.CAKey, kind, "vf-"+role+"-"+kind, dns, nb, na, ser)
					mu.Lock()
					p.leaf[kind+"/"+role] = c
					mu.Unlock()
				}(kind, role, ser)
			}
		}
		wg.Wait()
		// Deviant credentials for C03.
		p.leaf["ecdsa/server-rogueca"] = vfMakeLeaf(p.RogueCA, p.RogueKey, "ecdsa", "vf-server-rogue", []string{vfServerName}, nb, na, 201)
		p.leaf["ecdsa/client-rogueca"] = vfMakeLeaf(p.RogueCA, p.RogueKey, "ecdsa", "vf-client-rogue", []string{"vf.client.example"}, nb, na, 202)
		p.leaf["rsa/server-other"] = vfMakeLeaf(p.CA, p.CAKey, "rsa", "vf-server-other-rsa", []string{"other.example"}, nb, na, 218)
		p.leaf["ed25519/server-other"] = vfMakeLeaf(p.CA, p.CAKey, "ed25519", "vf-server-other-ed25519", []string{"other.example"}, nb, na, 219)
		p.leaf["ecdsa/server-wrongname"] = vfMakeLeaf(p.CA, p.CAKey, "ecdsa", "vf-server-other", []string{"other.example"}, nb, na, 203)
		p.leaf["ecdsa/server-ip"] = vfMakeLeaf(p.CA, p.CAKey, "ecdsa", "vf-server-ip", []string{"192.0.2.7", "2001:db8::7"}, nb, na, 213)
		p.leaf["ecdsa/server-expired"] = vfMakeLeaf(p.CA, p.CAKey, "ecdsa", "vf-server-expired", []string{vfServerName},
			time.Date(1990, 1, 1, 0, 0, 0, 0, time.UTC), time.Date(1999, 12, 1, 0, 0, 0, 0, time.UTC), 204)
		p.leaf["ecdsa/client-expired"] = vfMakeLeaf(p.CA, p.CAKey, "ecdsa", "vf-client-expired", []string{"vf.client.example"},
			time.Date(1990, 1, 1, 0, 0, 0, 0, time.UTC), time.Date(1999, 12, 1, 0, 0, 0, 0, time.UTC), 205)
		// valid when a synctest bubble starts (2000-01-01 00:00 UTC), expired six virtual hours later
		p.leaf["ecdsa/server-shortlived"] = vfMakeLeaf(p.CA, p.CAKey, "ecdsa", "vf-server-shortlived", []string{vfServerName},
			nb, time.Date(2000, 1, 1, 6, 0, 0, 0, time.UTC), 214)
		p.leaf["ecdsa/client-shortlived"] = vfMakeLeaf(p.CA, p.CAKey, "ecdsa", "vf-client-shortlived", []string{"vf.client.example"},
			nb, time.Date(2000, 1, 1, 6, 0, 0, 0, time.UTC), 215)
		// extended key usage of the other role only
		p.leaf["ecdsa/server-clientauth-eku"] = vfWithEKU(vfMakeLeaf, p.CA, p.CAKey, "vf-server-wrong-eku", []string{vfServerName}, nb, na, 216, x509.ExtKeyUsageClientAuth)
		p.leaf["ecdsa/client-serverauth-eku"] = vfWithEKU(vfMakeLeaf, p.CA, p.CAKey, "vf-client-wrong-eku", []string{"vf.client.example"}, nb, na, 217, x509.ExtKeyUsageServerAuth)
		p.leaf["ecdsa/server-2"] = vfMakeLeaf(p.CA, p.CAKey, "ecdsa", "vf-server-2", []string{vfServerName}, nb, na, 206)
		p.leaf["ecdsa/client-2"] = vfMakeLeaf(p.CA, p.CAKey, "ecdsa", "vf-client-2", []string{"vf.client.example"}, nb, na, 207)
		vfPKIv = p
	})

	return vfPKIv
}

func (p *vfPKI) Leaf(kind, role string) tls.Certificate { return p.leaf[kind+"/"+role] }

// ---------------------------------------------------------------------------------------------

type vfSyncBuf struct {
	mu sync.Mutex
	b  bytes.Buffer
}

func (s *vfSyncBuf) Write(p []byte) (int, error) {
	s.mu.Lock()
	defer s.mu.Unlock()

	return s.b.Write(p)
}

func (s *vfSyncBuf) String() string {
	s.mu.Lock()
	defer s.mu.Unlock()

	return s.b.String()
}

// Lines returns the key log lines as [label, random-hex, secret-hex].
func (s *vfSyncBuf) Lines() [][]string {
	var out [][]string
	for _, l := range strings.Split(s.String(), "\n") {
		f := strings.Fields(l)
		if len(f) == 3 {
			out = append(out, f)
		}
	}

	return out
}

type vfSide struct {
	Name   string
	Conn   *Conn
	EP     *vfEndpoint
	Err    error
	Keylog *vfSyncBuf

	pumpMu   sync.Mutex
	Reads    [][]byte
	ReadErr  error
	ReadErrs int
	pumpDone chan struct{}
}

type vfPair struct {
	Net  *vfNet
	C, S *vfSide
	// Early: payloads each side writes right after its own HandshakeContext returned nil (HandshakeTimed only)
	Early int
}

func (p *vfPair) earlyWrites(s *vfSide) {
	if s.Err != nil {
		return
	}
	for k := 0; k < p.Early; k++ {
		_ = s.Conn.SetWriteDeadline(time.Now().Add(time.Second))
		_, _ = s.Conn.Write([]byte(fmt.Sprintf("early-%s-%d", s.Name, k)))
	}
	_ = s.Conn.SetWriteDeadline(time.Time{})
}

const (
	vfClientAddr = "10.0.0.1:1111"
	vfServerAddr = "10.0.0.2:2222"
)

// vfNewPair builds two endpoints on net and the two Conns (no handshake yet).
func vfNewPair(n *vfNet, copts []ClientOption, sopts []ServerOption) (*vfPair, error) {
	p := &vfPair{Net: n, C: &vfSide{Name: "c", Keylog: &vfSyncBuf{}}, S: &vfSide{Name: "s", Keylog: &vfSyncBuf{}}}
	p.C.EP = n.Endpoint("c", vfClientAddr)
	p.S.EP = n.Endpoint("s", vfServerAddr)
	co := append([]ClientOption{WithKeyLogWriter(p.C.Keylog)}, copts...)
	so := append([]ServerOption{WithKeyLogWriter(p.S.Keylog)}, sopts...)
	var err error
	if p.C.Conn, err = ClientWithOptions(p.C.EP, vfAddr(vfServerAddr), co...); err != nil {
		return nil, fmt.Errorf("client config: %w", err)
	}
	if p.S.Conn, err = ServerWithOptions(p.S.EP, vfAddr(vfClientAddr), so...); err != nil {
		return nil, fmt.Errorf("server config: %w", err)
	}

	return p, nil
}

// Handshake runs both HandshakeContext calls concurrently and waits for both to return.
func (p *vfPair) Handshake(timeout time.Duration) (cerr, serr error) {
	ctx, cancel := context.WithTimeout(context.Background(), timeout)
	defer cancel()
	var wg sync.WaitGroup
	wg.Add(2)
	go func() { defer wg.Done(); p.C.Err = p.C.Conn.HandshakeContext(ctx) }()
	go func() { defer wg.Done(); p.S.Err = p.S.Conn.HandshakeContext(ctx) }()
	wg.Wait()

	return p.C.Err, p.S.Err
}

// HandshakeTimed is Handshake but also reports the virtual instant at which each side returned.
func (p *vfPair) HandshakeTimed(timeout time.Duration) (cAt, sAt time.Duration) {
	ctx, cancel := context.WithTimeout(context.Background(), timeout)
	defer cancel()
	var wg sync.WaitGroup
	wg.Add(2)
	go func() {
		defer wg.Done()
		p.C.Err = p.C.Conn.HandshakeContext(ctx)
		cAt = p.Net.Now()
		p.earlyWrites(p.C)
	}()
	go func() {
		defer wg.Done()
		p.S.Err = p.S.Conn.HandshakeContext(ctx)
		sAt = p.Net.Now()
		p.earlyWrites(p.S)
	}()
	wg.Wait()

	return cAt, sAt
}

// StartPump drains Read into s.Reads until an error occurs.
func (s *vfSide) StartPump() {
	s.pumpDone = make(chan struct{})
	go func() {
		defer close(s.pumpDone)
		buf := make([]byte, 16384)
		for {
			n, err := s.Conn.Read(buf)
			if err != nil {
				s.pumpMu.Lock()
				s.ReadErr = err
				s.ReadErrs++
				nerr := s.ReadErrs
				s.pumpMu.Unlock()
				// Read also reports non-fatal receive errors of an established connection (the read
				// loop continues); only closure / EOF / deadline end the pump.
				if errors.Is(err, io.EOF) || errors.Is(err, ErrConnClosed) || errors.Is(err, net.ErrClosed) ||
					errors.Is(err, dtlserrors.ErrDeadlineExceeded) || s.Conn.isConnectionClosed() || nerr > 100000 {
					return
				}

				continue
			}
			s.pumpMu.Lock()
			s.Reads = append(s.Reads, append([]byte(nil), buf[:n]...))
			s.pumpMu.Unlock()
		}
	}()
}

func (s *vfSide) ReadsSnapshot() [][]byte {
	s.pumpMu.Lock()
	defer s.pumpMu.Unlock()

	return append([][]byte(nil), s.Reads...)
}

func (s *vfSide) PumpErr() error {
	s.pumpMu.Lock()
	defer s.pumpMu.Unlock()

	return s.ReadErr
}

func (p *vfPair) Close() {
	if p.C != nil && p.C.Conn != nil {
		_ = p.C.Conn.Close()
	}
	if p.S != nil && p.S.Conn != nil {
		_ = p.S.Conn.Close()
	}
	if p.C.pumpDone != nil {
		<-p.C.pumpDone
	}
	if p.S.pumpDone != nil {
		<-p.S.pumpDone
	}
}

func vfCommon(c *Conn) *dtlsstate.Common { return dtlsstate.CommonState(c.state) }

func vfIs13(c *Conn) bool { return vfCommon(c).LocalVersion.Equal(protocol.Version1_3) }

// ---------------------------------------------------------------------------------------------
// Option shorthands

func vfV12() []Option {
	return []Option{WithMinVersion(protocol.Version1_2), WithMaxVersion(protocol.Version1_2)}
}

func vfV13() []Option {
	return []Option{WithMinVersion(protocol.Version1_3), WithMaxVersion(protocol.Version1_3)}
}

func vfDual() []Option {
	return []Option{WithMinVersion(protocol.Version1_2), WithMaxVersion(protocol.Version1_3)}
}

func vfCO(opts ...Option) []ClientOption {
	out := make([]ClientOption, 0, len(opts))
	for _, o := range opts {
		out = append(out, o)
	}

	return out
}

func vfSO(opts ...Option) []ServerOption {
	out := make([]ServerOption, 0, len(opts))
	for _, o := range opts {
		out = append(out, o)
	}

	return out
}

func vfVerStr(v protocol.Version) string { return fmt.Sprintf("%d.%d", v.Major, v.Minor) }

type dtlsflightHandshakeCacheItem = dtlsflight.HandshakeCacheItem
