//go:build verif

package dtls

// E1 simnet: an in-memory datagram network with an adversary in the path, a wire log with a
// harness-side record parser, and helpers to run a client/server pair. Designed to run inside
// testing/synctest bubbles (virtual time) but works on real time too.

import (
	"encoding/binary"
	"fmt"
	"net"
	"os"
	"sync"
	"sync/atomic"
	"time"
)

type vfAddr string

func (a vfAddr) Network() string { return "vfnet" }
func (a vfAddr) String() string  { return string(a) }

type vfDatagram struct {
	data []byte
	from net.Addr
}

// vfWire is one wire-log entry (an emission by an endpoint, or a delivery to one).
type vfWire struct {
	Ticket  int64
	VTime   time.Duration // virtual time since net creation
	From    string        // endpoint name that emitted (or "adv" for injected)
	Dst     string        // destination address
	Data    []byte
	Deliver bool // true: delivery event; false: emission event
	Read    bool // true (with Deliver): the endpoint named in From took a datagram out of its inbox
	Idx     int  // per-source emission index (emissions only)
}

type vfNet struct {
	mu      sync.Mutex
	eps     map[string]*vfEndpoint
	log     []*vfWire
	ticket  atomic.Int64
	t0      time.Time
	emitIdx map[string]int
	// onSend decides what happens with an emitted datagram. Default: deliver now.
	onSend func(n *vfNet, w *vfWire)
	// onDeliver is called just before bytes are put into an inbox (may observe).
	onDeliver func(n *vfNet, to *vfEndpoint, data []byte, from net.Addr)
	dropFull  atomic.Int64
	// storm guard: a livelock in virtual time (endpoints answering each other without any time
	// passing) must become an observable event, not a hang. After stormCap emissions the net
	// goes dark and Storm() reports it.
	emitted  atomic.Int64
	stormCap int64
	stormed  atomic.Bool
}

// Storm reports whether the emission cap was hit.
func (n *vfNet) Storm() bool { return n.stormed.Load() }

func vfNewNet() *vfNet {
	return &vfNet{eps: map[string]*vfEndpoint{}, t0: time.Now(), emitIdx: map[string]int{}, stormCap: vfStormCap()}
}

// SetOnSend replaces the adversary (nil = deliver everything immediately).
func (n *vfNet) SetOnSend(f func(n *vfNet, w *vfWire)) {
	n.mu.Lock()
	n.onSend = f
	n.mu.Unlock()
}

func (n *vfNet) Now() time.Duration { return time.Since(n.t0) }

func (n *vfNet) Endpoint(name, addr string) *vfEndpoint {
	ep := &vfEndpoint{
		net: n, name: name, addr: vfAddr(addr),
		avail: make(chan struct{}, 1), closed: make(chan struct{}),
		rdSig: make(chan struct{}), wrErr: nil,
	}
	n.mu.Lock()
	n.eps[addr] = ep
	n.mu.Unlock()

	return ep
}

// Alias makes datagrams sent to addr arrive at ep as well (used for address migration tests).
func (n *vfNet) Alias(addr string, ep *vfEndpoint) {
	n.mu.Lock()
	n.eps[addr] = ep
	n.mu.Unlock()
}

func (n *vfNet) lookup(addr string) *vfEndpoint {
	n.mu.Lock()
	defer n.mu.Unlock()

	return n.eps[addr]
}

// Deliver puts data into the inbox of the endpoint owning addr, with the given source.
func (n *vfNet) Deliver(addr string, data []byte, from net.Addr) bool {
	ep := n.lookup(addr)
	if ep == nil {
		return false
	}
	if n.onDeliver != nil {
		n.onDeliver(n, ep, data, from)
	}
	w := &vfWire{Ticket: n.ticket.Add(1), VTime: n.Now(), From: from.String(), Dst: addr, Data: data, Deliver: true}
	n.mu.Lock()
	n.log = append(n.log, w)
	n.mu.Unlock()
	select {
	case <-ep.closed:
		return false
	default:
	}
	// the inbox is unbounded (a bounded one turned handshake floods into silent loss of later
	// application data, which the "reliable after the handshake" checks then misread); the storm
	// cap on emissions bounds its size
	ep.qmu.Lock()
	ep.q = append(ep.q, vfDatagram{data: append([]byte(nil), data...), from: from})
	ep.qmu.Unlock()
	select {
	case ep.avail <- struct{}{}:
	default:
	}

	return true
}

// DeliverAfter schedules a delivery after d (virtual) time.
func (n *vfNet) DeliverAfter(d time.Duration, addr string, data []byte, from net.Addr) {
	if d <= 0 {
		n.Deliver(addr, data, from)

		return
	}
	cp := append([]byte(nil), data...)
	time.AfterFunc(d, func() { n.Deliver(addr, cp, from) })
}

// vfDumpWire makes every emission print one line (replay / debugging only).
var vfDumpWire bool

func (n *vfNet) emit(ep *vfEndpoint, data []byte, dst net.Addr) {
	if vfDumpWire {
		n.mu.Lock()
		idx := n.emitIdx[ep.name]
		n.mu.Unlock()
		fmt.Printf("  wire %9v %s#%d -> %s %4dB %s\n", n.Now(), ep.name, idx, dst, len(data), vfDescribe(data, 0))
	}
	if n.stormCap > 0 && n.emitted.Add(1) > n.stormCap {
		n.stormed.Store(true)

		return
	}
	w := &vfWire{
		Ticket: n.ticket.Add(1), VTime: n.Now(), From: ep.name, Dst: dst.String(),
		Data: append([]byte(nil), data...),
	}
	n.mu.Lock()
	w.Idx = n.emitIdx[ep.name]
	n.emitIdx[ep.name]++
	n.log = append(n.log, w)
	h := n.onSend
	n.mu.Unlock()
	if h != nil {
		h(n, w)

		return
	}
	n.Deliver(w.Dst, w.Data, ep.addr)
}

// noteRead logs the causal boundary "endpoint ep starts processing its next datagram".
func (n *vfNet) noteRead(ep *vfEndpoint) {
	w := &vfWire{Ticket: n.ticket.Add(1), VTime: n.Now(), From: ep.name, Dst: string(ep.addr), Deliver: true, Read: true}
	n.mu.Lock()
	n.log = append(n.log, w)
	n.mu.Unlock()
}

// Emissions returns a snapshot of the emission events of endpoint name ("" = all).
func (n *vfNet) Emissions(name string) []*vfWire {
	n.mu.Lock()
	defer n.mu.Unlock()
	var out []*vfWire
	for _, w := range n.log {
		if !w.Deliver && (name == "" || w.From == name) {
			out = append(out, w)
		}
	}

	return out
}

func (n *vfNet) LogLen() int {
	n.mu.Lock()
	defer n.mu.Unlock()

	return len(n.log)
}

func (n *vfNet) LogSince(i int) []*vfWire {
	n.mu.Lock()
	defer n.mu.Unlock()

	return append([]*vfWire(nil), n.log[i:]...)
}

// ---------------------------------------------------------------------------------------------

type vfEndpoint struct {
	net    *vfNet
	name   string
	addr   vfAddr
	qmu    sync.Mutex
	q      []vfDatagram
	avail  chan struct{}
	closed chan struct{}
	once   sync.Once

	mu    sync.Mutex
	rdl   time.Time
	rdSig chan struct{}
	wrErr error // injected write error
	wrFailAt map[int]error // transient: the k-th WriteTo call (0-based, counted in wrCalls) is refused once with this error
	wrCalls  int
	// blockWrites makes WriteTo park (honouring deadline/close) until released.
	blockWrites chan struct{}
	wdl         time.Time
	wrSig       chan struct{}
	reads       atomic.Int64
}

var _ net.PacketConn = (*vfEndpoint)(nil)

func (e *vfEndpoint) ReadFrom(b []byte) (int, net.Addr, error) {
	for {
		e.mu.Lock()
		dl := e.rdl
		sig := e.rdSig
		e.mu.Unlock()
		var timerC <-chan time.Time
		var tm *time.Timer
		if !dl.IsZero() {
			d := time.Until(dl)
			if d <= 0 {
				return 0, nil, os.ErrDeadlineExceeded
			}
			tm = time.NewTimer(d)
			timerC = tm.C
		}
		select {
		case <-e.avail:
			if tm != nil {
				tm.Stop()
			}
			e.qmu.Lock()
			if len(e.q) == 0 {
				e.qmu.Unlock()

				continue
			}
			dg := e.q[0]
			e.q[0] = vfDatagram{}
			e.q = e.q[1:]
			if len(e.q) > 0 {
				select {
				case e.avail <- struct{}{}:
				default:
				}
			} else {
				e.q = nil
			}
			e.qmu.Unlock()
			e.reads.Add(1)
			e.net.noteRead(e)
			n := copy(b, dg.data)

			return n, dg.from, nil
		case <-e.closed:
			if tm != nil {
				tm.Stop()
			}

			return 0, nil, net.ErrClosed
		case <-sig:
			if tm != nil {
				tm.Stop()
			}
		case <-timerC:
			return 0, nil, os.ErrDeadlineExceeded
		}
	}
}

func (e *vfEndpoint) WriteTo(b []byte, addr net.Addr) (int, error) {
	select {
	case <-e.closed:
		return 0, net.ErrClosed
	default:
	}
	e.mu.Lock()
	werr := e.wrErr
	blk := e.blockWrites
	if ferr, ok := e.wrFailAt[e.wrCalls]; ok && werr == nil {
		werr = ferr
	}
	e.wrCalls++
	e.mu.Unlock()
	if werr != nil {
		return 0, werr
	}
	for blk != nil {
		e.mu.Lock()
		dl := e.wdl
		if e.wrSig == nil {
			e.wrSig = make(chan struct{})
		}
		sig := e.wrSig
		e.mu.Unlock()
		if !dl.IsZero() && time.Until(dl) <= 0 {
			return 0, os.ErrDeadlineExceeded
		}
		select {
		case <-blk:
			blk = nil
		case <-e.closed:
			return 0, net.ErrClosed
		case <-sig:
		}
	}
	e.net.emit(e, b, addr)

	return len(b), nil
}

func (e *vfEndpoint) Close() error {
	e.once.Do(func() { close(e.closed) })

	return nil
}

func (e *vfEndpoint) LocalAddr() net.Addr { return e.addr }

func (e *vfEndpoint) SetDeadline(t time.Time) error {
	_ = e.SetReadDeadline(t)

	return e.SetWriteDeadline(t)
}

func (e *vfEndpoint) SetReadDeadline(t time.Time) error {
	e.mu.Lock()
	e.rdl = t
	close(e.rdSig)
	e.rdSig = make(chan struct{})
	e.mu.Unlock()

	return nil
}

func (e *vfEndpoint) SetWriteDeadline(t time.Time) error {
	e.mu.Lock()
	e.wdl = t
	if e.wrSig != nil {
		close(e.wrSig)
		e.wrSig = nil
	}
	e.mu.Unlock()

	return nil
}

func (e *vfEndpoint) IsClosed() bool {
	select {
	case <-e.closed:
		return true
	default:
		return false
	}
}

// ---------------------------------------------------------------------------------------------
// Harness-side record parser (independent of pkg/protocol/recordlayer).

type vfRec struct {
	Off      int
	Raw      []byte // full record bytes
	Unified  bool   // DTLS 1.3 unified header
	Type     uint8  // legacy content type (25 = tls12_cid); for unified: first byte
	Version  uint16
	Epoch    uint16 // legacy: full epoch; unified: low 2 bits
	Seq      uint64 // legacy: 48-bit; unified: masked 8/16 bits
	CID      []byte
	Body     []byte // ciphertext or plaintext fragment
	HdrLen   int
	SeqBytes int
}

// vfParseDatagram splits a datagram into records. cidLen is the length of the CID expected on
// records of type 25 / unified records with the C bit for the *receiver* of this datagram.
// ok=false when the bytes do not partition into well-formed records.
func vfParseDatagram(b []byte, cidLen int) (recs []vfRec, ok bool) {
	off := 0
	for off < len(b) {
		first := b[off]
		if first&0xe0 == 0x20 { // unified header 001CSLEE
			r := vfRec{Off: off, Unified: true, Type: first, Epoch: uint16(first & 3)}
			p := off + 1
			if first&0x10 != 0 {
				if p+cidLen > len(b) {
					return recs, false
				}
				r.CID = b[p : p+cidLen]
				p += cidLen
			}
			if first&0x08 != 0 {
				if p+2 > len(b) {
					return recs, false
				}
				r.Seq = uint64(binary.BigEndian.Uint16(b[p:]))
				r.SeqBytes = 2
				p += 2
			} else {
				if p+1 > len(b) {
					return recs, false
				}
				r.Seq = uint64(b[p])
				r.SeqBytes = 1
				p++
			}
			end := len(b)
			if first&0x04 != 0 {
				if p+2 > len(b) {
					return recs, false
				}
				l := int(binary.BigEndian.Uint16(b[p:]))
				p += 2
				if p+l > len(b) {
					return recs, false
				}
				end = p + l
			}
			r.HdrLen = p - off
			r.Body = b[p:end]
			r.Raw = b[off:end]
			recs = append(recs, r)
			off = end

			continue
		}
		if off+13 > len(b) {
			return recs, false
		}
		r := vfRec{Off: off, Type: first, Version: binary.BigEndian.Uint16(b[off+1:]), Epoch: binary.BigEndian.Uint16(b[off+3:])}
		r.Seq = uint64(b[off+5])<<40 | uint64(b[off+6])<<32 | uint64(b[off+7])<<24 | uint64(b[off+8])<<16 |
			uint64(b[off+9])<<8 | uint64(b[off+10])
		p := off + 11
		if first == 25 {
			if p+cidLen+2 > len(b) {
				return recs, false
			}
			r.CID = b[p : p+cidLen]
			p += cidLen
		}
		if p+2 > len(b) {
			return recs, false
		}
		l := int(binary.BigEndian.Uint16(b[p:]))
		p += 2
		if p+l > len(b) {
			return recs, false
		}
		r.HdrLen = p - off
		r.Body = b[p : p+l]
		r.Raw = b[off : p+l]
		recs = append(recs, r)
		off = p + l
	}

	return recs, true
}

// vfHS is a plaintext handshake fragment header (12 bytes).
type vfHS struct {
	Type    uint8
	Length  uint32
	MsgSeq  uint16
	FragOff uint32
	FragLen uint32
	Body    []byte
}

func vfParseHS(b []byte) (h vfHS, rest []byte, ok bool) {
	if len(b) < 12 {
		return h, nil, false
	}
	h.Type = b[0]
	h.Length = uint32(b[1])<<16 | uint32(b[2])<<8 | uint32(b[3])
	h.MsgSeq = binary.BigEndian.Uint16(b[4:])
	h.FragOff = uint32(b[6])<<16 | uint32(b[7])<<8 | uint32(b[8])
	h.FragLen = uint32(b[9])<<16 | uint32(b[10])<<8 | uint32(b[11])
	if int(h.FragLen) > len(b)-12 {
		return h, nil, false
	}
	h.Body = b[12 : 12+h.FragLen]

	return h, b[12+h.FragLen:], true
}

func vfHSName(t uint8) string {
	switch t {
	case 0:
		return "HelloRequest"
	case 1:
		return "ClientHello"
	case 2:
		return "ServerHello"
	case 3:
		return "HelloVerifyRequest"
	case 4:
		return "NewSessionTicket"
	case 8:
		return "EncryptedExtensions"
	case 11:
		return "Certificate"
	case 12:
		return "ServerKeyExchange"
	case 13:
		return "CertificateRequest"
	case 14:
		return "ServerHelloDone"
	case 15:
		return "CertificateVerify"
	case 16:
		return "ClientKeyExchange"
	case 20:
		return "Finished"
	case 24:
		return "KeyUpdate"
	default:
		return fmt.Sprintf("hs%d", t)
	}
}

// vfDescribe gives a compact human-readable description of a datagram (for samples / replays).
func vfDescribe(b []byte, cidLen int) string {
	recs, ok := vfParseDatagram(b, cidLen)
	s := ""
	for i, r := range recs {
		if i > 0 {
			s += "+"
		}
		switch {
		case r.Unified:
			s += fmt.Sprintf("U[e%d,s%d,%dB]", r.Epoch, r.Seq, len(r.Body))
		case r.Type == 22 && r.Epoch == 0:
			if h, _, ok2 := vfParseHS(r.Body); ok2 {
				s += fmt.Sprintf("%s[ms%d,%d+%d/%d]", vfHSName(h.Type), h.MsgSeq, h.FragOff, h.FragLen, h.Length)
			} else {
				s += "HS?"
			}
		default:
			s += fmt.Sprintf("T%d[e%d,s%d,%dB]", r.Type, r.Epoch, r.Seq, len(r.Body))
		}
	}
	if !ok {
		s += "+<unparsed>"
	}

	return s
}

func vfStormCap() int64 {
	if s := os.Getenv("VERIF_STORM_CAP"); s != "" {
		var v int64
		if _, err := fmt.Sscanf(s, "%d", &v); err == nil && v > 0 {
			return v
		}
	}

	return 200000
}
