//go:build verif

package dtls

// C02 Handshake completes under finite loss / duplication / reordering.
// Fault enumeration over masks on the first N datagrams of each direction, per handshake variant,
// in virtual time. Oracle: both HandshakeContext return nil no later than
// H(f) = sum_{i<f+3} min(2^i*I, 60s) (f = faults actually applied), then one payload each way.

import (
	"fmt"
	"sort"
	"strings"
	"sync"
	"testing"
	"testing/synctest"
	"time"
)

type vfVariant struct {
	Name    string
	Cfg     vfCfg
	Resumed bool
	// Early: each side's application writes this many payloads as soon as its own Handshake call has returned, while
	// the other side may still be recovering lost flights
	Early int
}

// vfC02EarlyVariants: the handshake variants again, with applications that start writing the moment their side is done.
func vfC02EarlyVariants() []vfVariant {
	var out []vfVariant
	for _, v := range vfC02Variants() {
		v.Name += "+early3"
		v.Early = 3
		out = append(out, v)
	}

	return out
}

func vfBaseCfg(suite vfSuiteInfo, kind string) vfCfg {
	return vfCfg{Suite: suite, CertKind: kind, CVer: "12", SVer: "12", CIDc: -1, CIDs: -1, HelloVerify: true}
}

func vfSuiteByName(name string) vfSuiteInfo {
	for _, s := range vfAllSuites() {
		if s.Name == name {
			return s
		}
	}
	panic("suite " + name)
}

func vfC02Variants() []vfVariant {
	var vs []vfVariant
	add := func(name string, c vfCfg, resumed bool) {
		vs = append(vs, vfVariant{Name: name, Cfg: c, Resumed: resumed})
	}
	c := vfBaseCfg(vfSuiteByName("ECDSA-GCM128"), "ecdsa")
	add("12-ecdsa", c, false)
	c = vfBaseCfg(vfSuiteByName("RSA-GCM128"), "rsa")
	add("12-rsa", c, false)
	c = vfBaseCfg(vfSuiteByName("PSK-GCM"), "")
	add("12-psk", c, false)
	c = vfBaseCfg(vfSuiteByName("ECDHEPSK-CBC"), "")
	add("12-ecdhepsk", c, false)
	c = vfBaseCfg(vfSuiteByName("ECDSA-GCM128"), "ecdsa")
	c.ClientAuth, c.ClientCert, c.Verify = RequireAndVerifyClientCert, true, true
	add("12-clientauth", c, false)
	c = vfBaseCfg(vfSuiteByName("PSK-GCM"), "")
	c.Store = true
	add("12-resumed", c, true)
	c = vfBaseCfg(vfSuiteByName("RSA-GCM128"), "rsa")
	c.Store, c.Verify = true, true
	add("12-store-full-rsa", c, false)
	c = vfBaseCfg(vfSuiteByName("RSA-CHACHA"), "rsa")
	c.Store, c.Verify = true, true
	add("12-resumed-rsa", c, true)
	c = vfBaseCfg(vfSuiteByName("ECDSA-GCM128"), "ecdsa")
	c.MTU = 100
	add("12-mtu100", c, false)
	c = vfBaseCfg(vfSuiteByName("ECDSA-GCM128"), "ecdsa")
	c.CIDc, c.CIDs = 4, 4
	add("12-cid44", c, false)
	c = vfBaseCfg(vfSuiteByName("ECDSA-GCM128"), "ecdsa")
	c.CIDc, c.CIDs, c.MTU = 4, 4, 100
	add("12-cid44-mtu100", c, false)
	c = vfBaseCfg(vfSuiteByName("ECDSA-CBC"), "ecdsa")
	c.HelloVerify = false
	add("12-cbc-nohv", c, false)
	c = vfBaseCfg(vfSuiteByName("13-GCM128"), "ecdsa")
	c.CVer, c.SVer, c.HelloVerify = "13", "13", false
	add("13-direct", c, false)
	c = vfBaseCfg(vfSuiteByName("13-GCM128"), "ecdsa")
	c.CVer, c.SVer = "13", "13"
	add("13-hrr", c, false)
	c = vfBaseCfg(vfSuiteByName("13-CHACHA"), "ecdsa")
	c.CVer, c.SVer, c.HelloVerify = "13", "13", false
	c.ClientAuth, c.ClientCert, c.Verify = RequireAndVerifyClientCert, true, true
	add("13-clientauth", c, false)
	c = vfBaseCfg(vfSuiteByName("13-GCM256"), "ecdsa")
	c.CVer, c.SVer, c.HelloVerify, c.MTU = "13", "13", false, 256
	add("13-mtu256", c, false)
	// whole messages in separate datagrams (EncryptedExtensions alone, Certificate and the rest split): an ACK for one
	// datagram then names only complete messages while the flight as a whole is still unacknowledged
	c = vfBaseCfg(vfSuiteByName("13-GCM128"), "ecdsa")
	c.CVer, c.SVer, c.HelloVerify, c.MTU = "13", "13", false, 600
	add("13-mtu600", c, false)
	c = vfBaseCfg(vfSuiteByName("13-CHACHA"), "ecdsa")
	c.CVer, c.SVer, c.HelloVerify, c.MTU = "13", "13", false, 600
	c.ClientAuth, c.ClientCert, c.Verify = RequireAndVerifyClientCert, true, true
	add("13-clientauth-mtu600", c, false)
	c = vfBaseCfg(vfSuiteByName("13-GCM128"), "ecdsa")
	c.CVer, c.SVer, c.HelloVerify = "dual", "dual", false
	add("dual-13", c, false)
	// true dual-stack endpoints: default suite lists of both versions, version settled by negotiation
	c = vfBaseCfg(vfSuiteInfo{Name: "default", Auth: "ecdsa"}, "ecdsa")
	c.CVer, c.SVer, c.Verify = "dual", "dual", true
	add("dualstack-both", c, false)
	c.HelloVerify = false
	add("dualstack-both-nohv", c, false)
	c = vfBaseCfg(vfSuiteInfo{Name: "default", Auth: "ecdsa"}, "ecdsa")
	c.CVer, c.SVer = "dual", "12"
	add("dualstack-client-12server", c, false)
	c.CVer, c.SVer = "13", "dual"
	add("13client-dualstack-server", c, false)
	// peers with different retransmission intervals: each side's own timer must still recover its lost flight
	c = vfBaseCfg(vfSuiteByName("ECDSA-GCM128"), "ecdsa")
	c.IvC, c.IvS, c.NoBackoffC = 50*time.Millisecond, 300*time.Millisecond, true
	add("12-asym-intervals", c, false)
	c = vfBaseCfg(vfSuiteByName("13-GCM128"), "ecdsa")
	c.CVer, c.SVer, c.HelloVerify = "13", "13", false
	c.IvC, c.IvS, c.NoBackoffC = 50*time.Millisecond, 300*time.Millisecond, true
	add("13-asym-intervals", c, false)
	// small ServerHello (classical curve only): the DTLS 1.3 server packs its protected flight into the same datagram
	c = vfBaseCfg(vfSuiteInfo{Name: "default", Auth: "ecdsa"}, "ecdsa")
	c.CVer, c.SVer, c.Curves, c.HelloVerify = "dual", "13", 1, false
	add("dualstack-client-13server-x25519", c, false)
	c.SVer = "dual"
	add("dualstack-both-x25519", c, false)

	return vs
}

type vfC02Outcome struct {
	OK        bool
	Why       string
	Symptom   string   // normalised failure class (part of the finding signature)
	Faulted   []string // kind of each datagram a fault was applied to, in emission order
	Applied   int
	CAt, SAt  time.Duration
	Datagrams int
	NoLoss    bool // nothing was dropped or delayed: duplication and same-instant reordering only
	Plain     bool // ... and only datagrams made of unprotected handshake records were duplicated or reordered
}

// vfC02Run executes one (variant, mask) case. Must run inside a bubble.
func vfC02Run(v vfVariant, mask vfMask, interval time.Duration) vfC02Outcome {
	var cStore, sStore *vfMemStore
	if v.Cfg.Store {
		cStore, sStore = vfNewMemStore("c"), vfNewMemStore("s")
	}
	mkOpts := func() ([]ClientOption, []ServerOption) {
		if v.Cfg.Store {
			return v.Cfg.Options(cStore, sStore)
		}

		return v.Cfg.Options(nil, nil)
	}
	if v.Resumed { // prime the stores on a perfect network
		n0 := vfNewNet()
		co, so := mkOpts()
		p0, err := vfNewPair(n0, co, so)
		if err != nil {
			return vfC02Outcome{Why: "config: " + err.Error()}
		}
		if ce, se := p0.Handshake(time.Minute); ce != nil || se != nil {
			p0.Close()

			return vfC02Outcome{Why: fmt.Sprintf("priming handshake failed: c=%v s=%v", ce, se)}
		}
		p0.Close()
		synctest.Wait()
	}
	n := vfNewNet()
	st := mask.Install(n)
	co, so := mkOpts()
	p, err := vfNewPair(n, co, so)
	if err != nil {
		return vfC02Outcome{Why: "config: " + err.Error()}
	}
	p.Early = v.Early
	defer func() {
		p.Close()
		synctest.Wait()
	}()
	if v.Cfg.IvS > 0 || v.Cfg.IvC > 0 {
		// the bound is stated for the slower side's interval
		interval = max(v.Cfg.IvC, v.Cfg.IvS)
	}
	bound := vfBackoffSum(mask.Faults()+3, interval, true)
	cAt, sAt := p.HandshakeTimed(bound + 5*time.Second)
	out := vfC02Outcome{Applied: st.Applied(), CAt: cAt, SAt: sAt, Datagrams: len(n.Emissions("")), NoLoss: st.Undisturbed(), Plain: st.PlainHandshakeOnly()}
	for _, w := range n.Emissions("") {
		acts := mask.C
		if w.From == "s" {
			acts = mask.S
		}
		if w.Idx < len(acts) && acts[w.Idx] != '.' {
			out.Faulted = append(out.Faulted, fmt.Sprintf("%s:%c:%s", w.From, acts[w.Idx], vfKind(w.Data)))
		}
	}
	if p.C.Err != nil || p.S.Err != nil {
		out.Why = fmt.Sprintf("no completion within H(f): client=%v server=%v", vfErrClass(p.C.Err), vfErrClass(p.S.Err))
		out.Symptom = fmt.Sprintf("client=%s,server=%s", vfErrNorm(p.C.Err), vfErrNorm(p.S.Err))
		if vfErrNorm(p.C.Err) == "deadline" && vfErrNorm(p.S.Err) == "deadline" && len(out.Faulted) > 0 {
			out.Symptom += ":critical=" + out.Faulted[len(out.Faulted)-1]
		}

		return out
	}
	h := vfBackoffSum(out.Applied+3, interval, true)
	if cAt > h || sAt > h {
		out.Why = fmt.Sprintf("completed late: client at %v, server at %v, bound H(%d)=%v", cAt, sAt, out.Applied, h)
		out.Symptom = "late"

		return out
	}
	// Nothing lost, nothing delayed, and the only disturbance was duplication or same-burst reordering of datagrams
	// made of unprotected handshake records: reassembly and message ordering are the receiver's job (fragment
	// buffer), there is no lost flight for a timer to recover, so no retransmission interval may pass.
	if out.NoLoss && out.Plain && out.Applied > 0 {
		first := interval
		for _, iv := range []time.Duration{v.Cfg.IvC, v.Cfg.IvS} {
			if iv > 0 && iv < first {
				first = iv
			}
		}
		if cAt >= first || sAt >= first {
			out.Why = fmt.Sprintf("nothing was lost or delayed (only unprotected handshake datagrams duplicated/reordered within a burst: %v) "+
				"yet completion waited for a retransmission timer: client at %v, server at %v, first timer at %v", out.Faulted, cAt, sAt, first)
			out.Symptom = "timer-needed-without-loss"

			return out
		}
	}
	if v.Resumed {
		// must really have been an abbreviated handshake, else the variant is not exercised
		for _, w := range n.Emissions("s") {
			if strings.Contains(vfDescribe(w.Data, 0), "Certificate") || strings.Contains(vfDescribe(w.Data, 0), "ServerKeyExchange") {
				out.Why = "variant error: resumed variant performed a full handshake"

				return out
			}
		}
	}
	n.SetOnSend(nil)
	p.C.StartPump()
	p.S.StartPump()
	if rt := vfRoundTripOpt(p, "c02", 3*time.Minute, v.Early > 0); rt != "" {
		out.Why = "after both sides reported success: " + rt
		out.Symptom = "half-open:" + strings.SplitN(rt, " (", 2)[0]

		return out
	}
	out.OK = true

	return out
}

func vfTrimMask(m vfMask) vfMask {
	return vfMask{C: strings.TrimRight(m.C, "."), S: strings.TrimRight(m.S, ".")}
}

// vfMaskSubsumes reports whether every fault of core is present (same action, same index) in m.
func vfMaskSubsumes(m, core vfMask) bool {
	sub := func(a, b string) bool {
		for i := 0; i < len(b); i++ {
			if b[i] == '.' {
				continue
			}
			if i >= len(a) || a[i] != b[i] {
				return false
			}
		}

		return true
	}

	return sub(m.C, core.C) && sub(m.S, core.S)
}

type vfC02Fail struct {
	V    vfVariant
	Mask vfMask
	Why  string
	Sym  string
}

// vfKind names the content of a datagram at the granularity used in finding signatures: plaintext
// handshake message names (HelloRetryRequest told apart from ServerHello by its fixed random),
// otherwise the record type and epoch.
func vfKind(b []byte) string {
	recs, _ := vfParseDatagram(b, 0)
	var parts []string
	for _, r := range recs {
		k := ""
		switch {
		case r.Unified:
			k = fmt.Sprintf("protected-e%d", r.Epoch)
		case r.Type == 22 && r.Epoch == 0:
			h, _, ok := vfParseHS(r.Body)
			if !ok {
				k = "handshake?"

				break
			}
			k = vfHSName(h.Type)
			if h.Type == 2 && h.FragOff == 0 && len(h.Body) >= 34 &&
				vfHex(h.Body[2:34]) == "cf21ad74e59a6111be1d8c021e65b891c2a211167abb8c5e079e09e2c8a8339c" {
				k = "HelloRetryRequest"
			}
		case r.Type == 20:
			k = "ChangeCipherSpec"
		default:
			k = fmt.Sprintf("type%d-e%d", r.Type, r.Epoch)
		}
		if len(parts) == 0 || parts[len(parts)-1] != k {
			parts = append(parts, k)
		}
	}

	return strings.Join(parts, "+")
}

func vfErrNorm(err error) string {
	if err == nil {
		return "nil"
	}
	s := err.Error()
	s = strings.TrimPrefix(s, "handshake failed: ")
	if strings.Contains(s, "context deadline exceeded") {
		return "deadline"
	}
	if len(s) > 60 {
		s = s[:60]
	}

	return s
}

func TestVF_C02(t *testing.T) {
	vfGetPKI()
	res := vfNewResult("C02", "fault masks over the first N datagrams of each direction per handshake variant: exhaustive "+
		"drop-only masks, exhaustive five-action masks for small N, PRNG-sampled five-action masks for N=10; virtual time. "+
		"Non-trivial = at least one fault was actually applied to a datagram; distinct = distinct (variant, mask)")
	res.Assume("the network is reliable after the mask is used up and after both sides reported success",
		"bound H(f)=sum_{i<f+3} min(2^i*1s,60s) with f = faults applied; calibrated: the worst observed latency for f drops is sum_{i<f}")
	variants := vfC02Variants()
	interval := time.Second
	early := vfC02EarlyVariants()
	if vfEnv().Replay != "" {
		vfC02Replay(t, res, append(append([]vfVariant(nil), variants...), early...), interval)

		return
	}
	type job struct {
		v    vfVariant
		mask vfMask
	}
	var jobs []job
	nDrop := vfPick(4, 6)
	for _, v := range variants {
		for bits := uint64(0); bits < 1<<(2*uint(nDrop)); bits++ {
			jobs = append(jobs, job{v, vfDropMask(bits, nDrop)})
		}
	}
	// all five actions, small N (per direction), exhaustive
	nAll := vfPick(2, 3)
	acts := ".x2sh"
	var rec func(prefix string, n int, f func(string))
	rec = func(prefix string, n int, f func(string)) {
		if n == 0 {
			f(prefix)

			return
		}
		for i := 0; i < len(acts); i++ {
			rec(prefix+string(acts[i]), n-1, f)
		}
	}
	for _, v := range variants {
		rec("", nAll, func(c string) {
			rec("", nAll, func(s string) { jobs = append(jobs, job{v, vfMask{C: c, S: s}}) })
		})
	}
	// applications that write as soon as their own side is done: drop / hold-back masks, exhaustive for small N, sampled beyond
	nEarly := vfPick(2, 3)
	actsAll := acts
	acts = ".xh"
	for _, v := range early {
		rec("", nEarly, func(c string) {
			rec("", nEarly, func(s string) { jobs = append(jobs, job{v, vfMask{C: c, S: s}}) })
		})
		for k := 0; k < vfPick(10, 300); k++ {
			jobs = append(jobs, job{v, vfRandMask(vfRand("C02/"+v.Name, k), 10, 0.3, "x2sh3")})
		}
	}
	acts = actsAll
	sampled := vfPick(40, 1500)
	for vi, v := range variants {
		for k := 0; k < sampled; k++ {
			r := vfRand("C02/"+v.Name, k)
			jobs = append(jobs, job{v, vfRandMask(r, 10, 0.3, "x2sh3")})
		}
		_ = vi
	}
	res.Exhaustive = false
	var mu sync.Mutex
	var fails []vfC02Fail
	lat := map[int]time.Duration{}
	vfBubbles(t, len(jobs), func(t *testing.T, i int) {
		j := jobs[i]
		out := vfC02Run(j.v, j.mask, interval)
		res.Eval(1)
		if out.Applied > 0 {
			res.NonTrivial(j.v.Name + "|" + j.mask.String())
		}
		res.Count("datagrams_total", int64(out.Datagrams))
		if out.OK {
			res.Count("completed", 1)
			res.Count("completed/"+j.v.Name, 1)
			worst := out.CAt
			if out.SAt > worst {
				worst = out.SAt
			}
			mu.Lock()
			if worst > lat[out.Applied] {
				lat[out.Applied] = worst
			}
			mu.Unlock()
			if out.NoLoss && out.Plain && out.Applied > 0 {
				res.Count("judged_no_timer_without_loss", 1)
			}
			if out.NoLoss && out.Applied > 0 {
				res.Count("completed_nothing_lost_or_delayed", 1)
				res.Max("worst_latency_ms_nothing_lost_or_delayed", worst.Milliseconds())
				res.Max("worst_latency_ms_nothing_lost_or_delayed/"+j.v.Name, worst.Milliseconds())
				if worst > 0 {
					res.Seen("needed_a_timer_although_nothing_lost/"+j.v.Name, j.mask.String()+fmt.Sprintf(" c=%v s=%v plain=%v %v", out.CAt, out.SAt, out.Plain, out.Faulted))
				}
			}
			if i%997 == 0 {
				res.Sample(map[string]any{"variant": j.v.Name, "mask": j.mask.String(), "applied": out.Applied,
					"client_done_at": out.CAt.String(), "server_done_at": out.SAt.String(), "datagrams": out.Datagrams})
			}

			return
		}
		res.Count("failed_raw", 1)
		mu.Lock()
		fails = append(fails, vfC02Fail{j.v, j.mask, out.Why, out.Symptom})
		mu.Unlock()
	})
	// the finishing side's application writes 150 payloads at once while the other side still recovers a lost final flight
	vfBubbles(t, 21, func(t *testing.T, i int) { vfEarlyDataRun(t, res, i, 150) })
	for f, d := range lat {
		res.Max(fmt.Sprintf("worst_latency_ms/f=%02d", f), d.Milliseconds())
	}
	// Minimise failing masks (delta debugging, one fault at a time) and report one violation per minimal core.
	sort.Slice(fails, func(a, b int) bool {
		if fails[a].V.Name != fails[b].V.Name {
			return fails[a].V.Name < fails[b].V.Name
		}
		fa, fb := fails[a].Mask.Faults(), fails[b].Mask.Faults()
		if fa != fb {
			return fa < fb
		}

		return fails[a].Mask.String() < fails[b].Mask.String()
	})
	cores := map[string][]vfMask{}
	budget := vfPick(60, 400)
	for _, f := range fails {
		covered := false
		for _, c := range cores[f.V.Name] {
			if vfMaskSubsumes(f.Mask, c) {
				covered = true

				break
			}
		}
		if covered {
			res.Count("failed_superset_of_known_core", 1)

			continue
		}
		if budget == 0 {
			res.Inconc("minimisation budget exhausted; some failing masks not attributed")

			break
		}
		budget--
		cur := f.Mask
		why := f.Why
		sym := f.Sym
		for changed := true; changed; {
			changed = false
			for side := 0; side < 2; side++ {
				s := []byte(cur.C)
				if side == 1 {
					s = []byte(cur.S)
				}
				for k := range s {
					if s[k] == '.' {
						continue
					}
					trial := cur
					b := append([]byte(nil), s...)
					b[k] = '.'
					if side == 0 {
						trial.C = string(b)
					} else {
						trial.S = string(b)
					}
					var o vfC02Outcome
					synctest.Test(t, func(t *testing.T) { o = vfC02Run(f.V, trial, interval) })
					if !o.OK {
						cur, why, sym, changed = trial, o.Why, o.Symptom, true
						s = b
					}
				}
			}
		}
		cur = vfTrimMask(cur)
		cores[f.V.Name] = append(cores[f.V.Name], cur)
		// Signature = variant + normalised symptom of the *minimised* failing mask (for silent
		// stalls also the kind of the last datagram the minimal mask hits): root-cause level, so
		// the many masks that trip over one defect map to one finding, while a different way of
		// failing (another error, another critical message) is a new violation.
		sig := fmt.Sprintf("C02:%s:%s", f.V.Name, sym)
		res.Violate(sig, fmt.Sprintf("variant %s does not complete under fault mask %s (minimised from %s): %s",
			f.V.Name, cur.String(), f.Mask.String(), why),
			map[string]any{"variant": f.V.Name, "cfg": f.V.Cfg, "mask": cur, "original_mask": f.Mask})
	}
	for _, v := range variants {
		if res.Get("completed/"+v.Name) == 0 {
			res.Inconc("variant never completed: " + v.Name)
		}
	}
	res.Finish(t)
}

// vfC02Replay re-runs the (variant, mask) of a replay file and dumps the wire log.
func vfC02Replay(t *testing.T, res *vfResult, variants []vfVariant, interval time.Duration) {
	var rf struct {
		Replay struct {
			Variant string `json:"variant"`
			Mask    vfMask `json:"mask"`
		} `json:"replay"`
	}
	vfLoadReplay(t, &rf)
	for _, v := range variants {
		if v.Name != rf.Replay.Variant {
			continue
		}
		synctest.Test(t, func(t *testing.T) {
			vfDumpWire = true
			o := vfC02Run(v, rf.Replay.Mask, interval)
			res.Eval(1)
			res.NonTrivial(v.Name + "|" + rf.Replay.Mask.String())
			res.NonTrivial("replay")
			fmt.Printf("REPLAY C02 variant=%s mask=%s ok=%v why=%s applied=%d cAt=%v sAt=%v\n", v.Name, rf.Replay.Mask, o.OK, o.Why, o.Applied, o.CAt, o.SAt)
			if !o.OK {
				res.Violate(fmt.Sprintf("C02:%s:%s", v.Name, o.Symptom), o.Why, rf.Replay)
			}
		})
	}
	res.Finish(t)
}
