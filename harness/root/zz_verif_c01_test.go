//go:build verif

package dtls

// C01 Handshake agreement. Oracle: field-by-field comparison of the two endpoints' views after
// both HandshakeContext calls returned nil, plus a unique-payload round trip in both directions.

import (
	"bytes"
	"crypto/tls"
	"fmt"
	"github.com/pion/dtls/v3/pkg/protocol/extension"
	"github.com/pion/dtls/v3/pkg/protocol/handshake"
	"os"
	"strconv"
	"strings"
	"testing"
	"testing/synctest"
	"time"
)

type vfSnap struct {
	OK        bool
	Version   string
	Suite     uint16
	Exporters map[string]string
	LocalCID  string
	RemoteCID string
	ALPN      string
	SRTP      uint16
	PeerMKI   string
	PeerCerts [][]byte
	SessionID string
}

var vfExportLabels = []string{"EXTRACTOR-dtls_srtp", "EXPORTER-verif-a", "EXPORTER-verif-b"}
var vfExportLens = []int{1, 32, 77}

func vfSnapshot(c *Conn) vfSnap {
	var s vfSnap
	st, ok := c.ConnectionState()
	s.OK = ok
	if !ok {
		return s
	}
	cm := vfCommon(c)
	s.Version = vfVerStr(cm.LocalVersion)
	s.Suite = uint16(st.CipherSuiteID)
	s.Exporters = map[string]string{}
	for _, l := range vfExportLabels {
		for _, n := range vfExportLens {
			out, err := st.ExportKeyingMaterial(l, nil, n)
			k := fmt.Sprintf("%s/%d", l, n)
			if err != nil {
				s.Exporters[k] = "err:" + err.Error()
			} else {
				s.Exporters[k] = vfHex(out)
			}
		}
	}
	s.LocalCID = vfHex(st.localConnectionID)
	s.RemoteCID = vfHex(st.remoteConnectionID)
	s.ALPN = st.NegotiatedProtocol
	if p, ok := c.SelectedSRTPProtectionProfile(); ok {
		s.SRTP = uint16(p)
	}
	if mki, ok := c.RemoteSRTPMasterKeyIdentifier(); ok {
		s.PeerMKI = vfHex(mki)
	}
	s.PeerCerts = st.PeerCertificates
	s.SessionID = vfHex(st.SessionID)

	return s
}

// vfRoundTrip writes one unique payload each way and waits until both pumps delivered them.
// Returns "" when both arrive intact.
func vfRoundTrip(p *vfPair, tag string, wait time.Duration) string {
	return vfRoundTripOpt(p, tag, wait, false)
}

// vfRoundTripOpt: with among set, payloads written earlier and still in flight may be read before the round trip's own.
func vfRoundTripOpt(p *vfPair, tag string, wait time.Duration, among bool) string {
	c2s := []byte("c2s-" + tag + "-" + vfShortHash(tag, "c2s", fmt.Sprint(time.Now().UnixNano())))
	s2c := []byte("s2c-" + tag + "-" + vfShortHash(tag, "s2c", fmt.Sprint(time.Now().UnixNano())))
	nc := len(p.S.ReadsSnapshot())
	ns := len(p.C.ReadsSnapshot())
	mark := p.Net.LogLen()
	tail := func() string {
		var parts []string
		for _, w := range p.Net.LogSince(mark) {
			if !w.Deliver && len(parts) < 12 {
				parts = append(parts, fmt.Sprintf("%v %s:%s", w.VTime, w.From, vfDescribe(w.Data, 0)))
			}
		}

		return fmt.Sprintf("; emissions since the writes: %v; emitted so far c=%d s=%d", parts, len(p.Net.Emissions("c")), len(p.Net.Emissions("s")))
	}
	if _, err := p.C.Conn.Write(c2s); err != nil {
		return "client Write: " + err.Error()
	}
	if _, err := p.S.Conn.Write(s2c); err != nil {
		return "server Write: " + err.Error()
	}
	deadline := time.Now().Add(wait)
	for time.Now().Before(deadline) {
		if !among && len(p.S.ReadsSnapshot()) > nc && len(p.C.ReadsSnapshot()) > ns {
			break
		}
		if among && vfHasPayload(p.S.ReadsSnapshot()[nc:], c2s) && vfHasPayload(p.C.ReadsSnapshot()[ns:], s2c) {
			return ""
		}
		time.Sleep(10 * time.Millisecond)
	}
	sr := p.S.ReadsSnapshot()
	cr := p.C.ReadsSnapshot()
	if among {
		if !vfHasPayload(sr[nc:], c2s) {
			return fmt.Sprintf("server never read the client's payload (pump err %v)", p.S.PumpErr()) + tail()
		}

		return fmt.Sprintf("client never read the server's payload (pump err %v)", p.C.PumpErr()) + tail()
	}
	if len(sr) <= nc {
		return fmt.Sprintf("server never read the client's payload (pump err %v)", p.S.PumpErr()) + tail()
	}
	if len(cr) <= ns {
		return fmt.Sprintf("client never read the server's payload (pump err %v)", p.C.PumpErr()) + tail()
	}
	if !bytes.Equal(sr[nc], c2s) {
		return fmt.Sprintf("server read %q, client wrote %q", sr[nc], c2s)
	}
	if !bytes.Equal(cr[ns], s2c) {
		return fmt.Sprintf("client read %q, server wrote %q", cr[ns], s2c)
	}

	return ""
}

func vfHasPayload(reads [][]byte, pl []byte) bool {
	for _, r := range reads {
		if bytes.Equal(r, pl) {
			return true
		}
	}

	return false
}

func vfChainEqual(a, b [][]byte) bool {
	if len(a) != len(b) {
		return false
	}
	for i := range a {
		if !bytes.Equal(a[i], b[i]) {
			return false
		}
	}

	return true
}

// vfAgreement compares the two snapshots; returns a list of disagreements.
func vfAgreement(cfg vfCfg, p *vfPair, resumed bool) []string {
	var bad []string
	cs, ss := vfSnapshot(p.C.Conn), vfSnapshot(p.S.Conn)
	if !cs.OK || !ss.OK {
		return []string{fmt.Sprintf("ConnectionState unavailable after success: client=%v server=%v", cs.OK, ss.OK)}
	}
	if cs.Version != ss.Version {
		bad = append(bad, fmt.Sprintf("version: client %s server %s", cs.Version, ss.Version))
	}
	if cs.Suite != ss.Suite {
		bad = append(bad, fmt.Sprintf("cipher suite: client %#04x server %#04x", cs.Suite, ss.Suite))
	}
	for k, v := range cs.Exporters {
		if ss.Exporters[k] != v {
			bad = append(bad, fmt.Sprintf("exporter %s: client %s server %s", k, v, ss.Exporters[k]))

			break
		}
	}
	if cs.LocalCID != ss.RemoteCID || cs.RemoteCID != ss.LocalCID {
		bad = append(bad, fmt.Sprintf("CIDs not mirrored: client local=%s remote=%s; server local=%s remote=%s",
			cs.LocalCID, cs.RemoteCID, ss.LocalCID, ss.RemoteCID))
	}
	if cs.ALPN != ss.ALPN {
		bad = append(bad, fmt.Sprintf("ALPN: client %q server %q", cs.ALPN, ss.ALPN))
	}
	// "they hold the same session": where both ends name the session (the server drops the id when a client certificate
	// was used, a side without a store may report none), they name the same one
	if cs.SessionID != "" && ss.SessionID != "" && cs.SessionID != ss.SessionID {
		bad = append(bad, fmt.Sprintf("session id: client %s server %s", cs.SessionID, ss.SessionID))
	}
	if cs.SRTP != ss.SRTP {
		bad = append(bad, fmt.Sprintf("SRTP profile: client %d server %d", cs.SRTP, ss.SRTP))
	}
	if cfg.SRTP == 3 && cs.SRTP != 0 {
		if cs.PeerMKI != "01020304" || ss.PeerMKI != "01020304" {
			bad = append(bad, fmt.Sprintf("SRTP MKI: client sees %q server sees %q, both configured 01020304", cs.PeerMKI, ss.PeerMKI))
		}
	}
	// peer certificate chains
	isPSK := cfg.Suite.Auth == "psk" || cfg.Suite.Auth == "ecdhepsk"
	if !isPSK && !resumed {
		want := cfg.Chain("server").Certificate
		if !vfChainEqual(cs.PeerCerts, want) {
			bad = append(bad, fmt.Sprintf("client's view of the server chain has %d certs, server presented %d (or bytes differ)",
				len(cs.PeerCerts), len(want)))
		}
		var wantC [][]byte
		if cfg.ClientCert && cfg.ClientAuth != NoClientCert {
			wantC = cfg.Chain("client").Certificate
		}
		if !vfChainEqual(ss.PeerCerts, wantC) {
			bad = append(bad, fmt.Sprintf("server's view of the client chain has %d certs, client presented %d (or bytes differ)",
				len(ss.PeerCerts), len(wantC)))
		}
	}
	return bad
}

var _ = tls.Certificate{}

func vfC01Case(t *testing.T, res *vfResult, idx int, suite vfSuiteInfo) {
	r := vfRand("C01", idx)
	cfg := vfGenCompatCfg(r, suite)
	var mask vfMask
	sched := idx % 2
	if sched == 1 {
		mask = vfRandMask(r, 8, 0.25, "x2sh3")
	}
	var cStore, sStore *vfMemStore
	if cfg.Store {
		cStore, sStore = vfNewMemStore("c"), vfNewMemStore("s")
	}
	rounds := 1
	if cfg.Store {
		rounds = 2
	}
	for round := 0; round < rounds; round++ {
		n := vfNewNet()
		if sched == 1 {
			mask.Install(n)
		}
		if round == 1 && cfg.Store && idx%3 == 2 {
			// the server has lost its sessions (restart, eviction): the client offers one the server does not know
			// and the second connection is a full handshake with a new session
			for k := range sStore.Snapshot() {
				_ = sStore.Del([]byte(k))
			}
			res.Count("second_connections_after_server_forgot", 1)
		}
		var co []ClientOption
		var so []ServerOption
		if cfg.Store {
			co, so = cfg.Options(cStore, sStore)
		} else {
			co, so = cfg.Options(nil, nil)
		}
		p, err := vfNewPair(n, co, so)
		res.Eval(1)
		if err != nil {
			res.Count("config_rejected", 1)
			res.Seen("config_errors", err.Error())

			return
		}
		cerr, serr := p.Handshake(10 * time.Minute)
		resumed := round == 1
		tag := fmt.Sprintf("%d.%d", idx, round)
		if cerr != nil || serr != nil {
			res.Count("handshake_failed", 1)
			res.Seen("failure_kinds", fmt.Sprintf("%s|c=%v|s=%v", cfg.Suite.Auth, vfErrClass(cerr), vfErrClass(serr)))
			if cfg.Is13() && sched == 0 {
				res.Seen("fail13", cfg.FP()+" => "+vfErrClass(cerr)+" / "+vfErrClass(serr))
			}
			if (cerr == nil) != (serr == nil) {
				res.Count("one_sided_success", 1)
			}
			p.Close()
			synctest.Wait()

			return
		}
		n.SetOnSend(nil) // the network is reliable once both sides reported success
		res.Count("handshake_ok", 1)
		if sched == 1 {
			res.Count("handshake_ok_faulted", 1)
		}
		res.Count("ok/"+cfg.Suite.Name, 1)
		if resumed {
			res.Count("ok_resumed_round", 1)
		}
		if vfIs13(p.C.Conn) {
			res.Count("ok_dtls13", 1)
		}
		p.C.StartPump()
		p.S.StartPump()
		bad := vfAgreement(cfg, p, resumed)
		if rt := vfRoundTrip(p, tag, 30*time.Second); rt != "" && !n.Storm() {
			bad = append(bad, "application data: "+rt)
		}
		fp := cfg.FP() + fmt.Sprintf("/sched%d/round%d", sched, round)
		res.NonTrivial(fp)
		res.Sample(map[string]any{"cfg": cfg.FP(), "mask": mask.String(), "round": round, "disagreements": bad,
			"version": vfVerStr(vfCommon(p.C.Conn).LocalVersion)})
		for _, b := range bad {
			cls := strings.SplitN(b, ":", 2)[0]
			sig := fmt.Sprintf("C01:%s:resumed=%v:v=%s", cls, resumed, vfVerStr(vfCommon(p.C.Conn).LocalVersion))
			res.Violate(sig, b+" | cfg="+cfg.FP(), map[string]any{"cfg": cfg, "mask": mask, "case": idx, "round": round})
		}
		res.Max("max_datagrams_in_one_session", n.emitted.Load())
		if n.Storm() {
			res.Count("emission_storms", 1)
			res.Note(fmt.Sprintf("emission storm (%d datagrams in one session) case %d cfg %s mask %s", n.stormCap, idx, cfg.FP(), mask.String()))
		}
		p.Close()
		synctest.Wait()
	}
}

func vfErrClass(err error) string {
	if err == nil {
		return "nil"
	}
	s := err.Error()
	if len(s) > 70 {
		s = s[:70]
	}

	return s
}

// vfC01Hooked: application hooks may rewrite the hellos. Whatever a hook does, two sides that both report success
// hold the same session: a hook result the library cannot reconcile with its own decision must fail the handshake.
func vfC01Hooked(t *testing.T, res *vfResult, idx int) {
	kinds := []string{"server-srtp-other-common-profile", "server-srtp-unoffered-profile", "server-alpn-other-offered", "server-alpn-unoffered",
		"server-cid-rewritten", "client-srtp-list-reordered", "client-alpn-list-reordered", "server-ems-dropped", "server-suite-other-offered",
		"server-alpn-named-by-hook-only", "server-suite-sibling-other-key-type"}
	kind := kinds[idx%len(kinds)]
	resumedRound := (idx/len(kinds))%2 == 1
	cfg := vfBaseCfg(vfSuiteInfo{Name: "default", Auth: "ecdsa"}, "ecdsa")
	cfg.SRTP, cfg.ALPN, cfg.CIDc, cfg.CIDs, cfg.Store = 2, 2, 4, 4, resumedRound
	if kind == "server-alpn-named-by-hook-only" {
		cfg.ALPN = 3 // the server has no protocol list of its own: the application answers ALPN from its ServerHello hook
	}
	cS, sS := vfNewMemStore("c"), vfNewMemStore("s")
	editExt := func(exts []extension.Value, typ extension.Type, f func([]byte) []byte) []extension.Value {
		out := make([]extension.Value, 0, len(exts))
		for _, e := range exts {
			if e.ExtensionType() == typ {
				if d, err := e.MarshalData(); err == nil {
					if nd := f(d); nd != nil {
						out = append(out, extension.Raw{Type: typ, Data: nd})
					}

					continue
				}
			}
			out = append(out, e)
		}

		return out
	}
	mk := func() ([]ClientOption, []ServerOption) {
		co, so := cfg.Options(cS, sS)
		switch kind {
		case "server-srtp-other-common-profile", "server-srtp-unoffered-profile":
			so = append(so, WithServerHelloMessageHook(func(sh handshake.MessageServerHello) handshake.Message {
				sh.Extensions = editExt(sh.Extensions, extension.TypeUseSRTP, func(d []byte) []byte {
					n := append([]byte(nil), d...)
					if len(n) >= 4 {
						if kind == "server-srtp-unoffered-profile" {
							n[2], n[3] = 0x00, 0x02 // SRTP_AES128_CM_HMAC_SHA1_32: in neither list
						} else if n[3] == 0x07 {
							n[2], n[3] = 0x00, 0x08 // the other profile both lists contain
						} else {
							n[2], n[3] = 0x00, 0x07
						}
					}

					return n
				})

				return &sh
			}))
		case "server-alpn-other-offered", "server-alpn-unoffered":
			so = append(so, WithServerHelloMessageHook(func(sh handshake.MessageServerHello) handshake.Message {
				sh.Extensions = editExt(sh.Extensions, extension.TypeALPN, func(d []byte) []byte {
					p := "b"
					if kind == "server-alpn-unoffered" {
						p = "zz"
					} else if len(d) >= 4 && string(d[3:]) == "b" {
						p = "c"
					}

					return append([]byte{0, byte(len(p) + 1), byte(len(p))}, p...)
				})

				return &sh
			}))
		case "server-alpn-named-by-hook-only":
			so = append(so, WithServerHelloMessageHook(func(sh handshake.MessageServerHello) handshake.Message {
				sh.Extensions = append(sh.Extensions, extension.Raw{Type: extension.TypeALPN, Data: []byte{0, 2, 1, 'b'}})

				return &sh
			}))
		case "server-cid-rewritten":
			so = append(so, WithServerHelloMessageHook(func(sh handshake.MessageServerHello) handshake.Message {
				sh.Extensions = editExt(sh.Extensions, extension.TypeConnectionID, func(d []byte) []byte { return []byte{3, 0xaa, 0xbb, 0xcc} })

				return &sh
			}))
		case "server-ems-dropped":
			so = append(so, WithServerHelloMessageHook(func(sh handshake.MessageServerHello) handshake.Message {
				sh.Extensions = editExt(sh.Extensions, extension.TypeExtendedMasterSecret, func(d []byte) []byte { return nil })

				return &sh
			}))
		case "server-suite-other-offered":
			so = append(so, WithServerHelloMessageHook(func(sh handshake.MessageServerHello) handshake.Message {
				other := uint16(TLS_ECDHE_ECDSA_WITH_AES_256_GCM_SHA384)
				if sh.CipherSuiteID != nil && *sh.CipherSuiteID == other {
					other = uint16(TLS_ECDHE_ECDSA_WITH_AES_128_GCM_SHA256)
				}
				sh.CipherSuiteID = &other

				return &sh
			}))
		case "server-suite-sibling-other-key-type":
			// the same key exchange, AEAD and PRF hash, only the authentication type differs: keys, Finished and exporter
			// all agree, so nothing but the reported suite shows the difference
			so = append(so, WithServerHelloMessageHook(func(sh handshake.MessageServerHello) handshake.Message {
				sib := map[uint16]uint16{
					uint16(TLS_ECDHE_ECDSA_WITH_AES_128_GCM_SHA256):       uint16(TLS_ECDHE_RSA_WITH_AES_128_GCM_SHA256),
					uint16(TLS_ECDHE_ECDSA_WITH_AES_256_GCM_SHA384):       uint16(TLS_ECDHE_RSA_WITH_AES_256_GCM_SHA384),
					uint16(TLS_ECDHE_ECDSA_WITH_CHACHA20_POLY1305_SHA256): uint16(TLS_ECDHE_RSA_WITH_CHACHA20_POLY1305_SHA256),
				}
				if sh.CipherSuiteID != nil {
					if o, ok := sib[*sh.CipherSuiteID]; ok {
						sh.CipherSuiteID = &o
					}
				}

				return &sh
			}))
		case "client-srtp-list-reordered":
			co = append(co, WithClientHelloMessageHook(func(ch handshake.MessageClientHello) handshake.Message {
				ch.Extensions = editExt(ch.Extensions, extension.TypeUseSRTP, func(d []byte) []byte {
					n := append([]byte(nil), d...)
					if len(n) >= 6 {
						n[2], n[3], n[4], n[5] = n[4], n[5], n[2], n[3]
					}

					return n
				})

				return &ch
			}))
		case "client-alpn-list-reordered":
			co = append(co, WithClientHelloMessageHook(func(ch handshake.MessageClientHello) handshake.Message {
				ch.Extensions = editExt(ch.Extensions, extension.TypeALPN, func(d []byte) []byte {
					return []byte{0, 6, 1, 'c', 1, 'b', 1, 'a'}
				})

				return &ch
			}))
		}

		return co, so
	}
	res.Eval(1)
	rounds := 1
	if resumedRound {
		rounds = 2
	}
	for round := 0; round < rounds; round++ {
		co, so := mk()
		p, err := vfNewPair(vfNewNet(), co, so)
		if err != nil {
			res.Count("hooked_config_rejected", 1)

			return
		}
		ce, se := p.Handshake(30 * time.Second)
		id := fmt.Sprintf("hooked/%s/round%d", kind, round)
		res.NonTrivial(id)
		res.Count("hooked_handshakes", 1)
		switch {
		case ce == nil && se == nil:
			res.Count("hooked_completed", 1)
			res.Seen("hooked_outcomes", id+": completed")
			for _, b := range vfAgreement(cfg, p, round > 0) {
				if strings.HasPrefix(b, "client's view of the server chain") || strings.HasPrefix(b, "server's view") {
					continue
				}
				res.Violate("C01:hooked:"+kind+":"+vfFirstWords(b, 2), fmt.Sprintf("%s: both sides completed but disagree: %s", id, b), map[string]any{"hooked": idx})
			}
		case (ce == nil) != (se == nil):
			res.Count("hooked_one_sided", 1)
			res.Seen("hooked_outcomes", id+": one-sided "+vfErrNorm(ce)+" / "+vfErrNorm(se))
		default:
			res.Count("hooked_refused", 1)
			res.Seen("hooked_outcomes", id+": refused")
		}
		p.Close()
		synctest.Wait()
	}
}

func vfFirstWords(s string, n int) string {
	f := strings.Fields(s)
	if len(f) > n {
		f = f[:n]
	}

	return strings.Trim(strings.Join(f, "-"), ":")
}

func TestVF_C01(t *testing.T) {
	vfGetPKI()
	res := vfNewResult("C01", "configuration points drawn per cipher suite from the generator (suite x cert kind x version "+
		"range x EMS x client-auth x CID x SRTP x ALPN x MTU x hello-verify x curves x verification x padding x session store), "+
		"each under a perfect and a PRNG fault schedule (loss/dup/reorder/hold over the first 8 datagrams per direction); "+
		"resumed second connection when a store is configured. Non-trivial = both sides returned nil, so the agreement oracle ran; "+
		"distinct = distinct (configuration, schedule, round) fingerprints")
	res.Assume("crypto/rand is not seeded: replays re-create configuration and fault mask, not byte-identical traffic",
		"ALPN is not carried by the DTLS 1.3 path of this tree; both sides reporting \"\" counts as agreement")
	suites := vfAllSuites()
	if vfEnv().Replay != "" {
		var rf struct {
			Replay struct {
				Case int `json:"case"`
			} `json:"replay"`
		}
		vfLoadReplay(t, &rf)
		vfDumpWire = os.Getenv("VERIF_DUMP") != ""
		// key pairs, signatures (hence DER lengths and fragment boundaries) and record-number masks are not
		// replayable: VERIF_REPLAY_REPEAT re-runs the case until the outcome shows up
		reps := 1
		if v, err := strconv.Atoi(os.Getenv("VERIF_REPLAY_REPEAT")); err == nil && v > 0 {
			reps = v
		}
		for k := 0; k < reps && len(res.Violations) == 0; k++ {
			t.Run(fmt.Sprintf("rep%d", k), func(t *testing.T) {
				synctest.Test(t, func(t *testing.T) { vfC01Case(t, res, rf.Replay.Case, suites[rf.Replay.Case%len(suites)]) })
			})
		}
		res.NonTrivial("replay-extra")
		res.Finish(t)

		return
	}
	per := vfPick(120, 4000)
	total := per * len(suites)
	vfBubbles(t, total, func(t *testing.T, i int) {
		vfC01Case(t, res, i, suites[i%len(suites)])
	})
	vfBubbles(t, 22, func(t *testing.T, i int) { vfC01Hooked(t, res, i) })
	for _, s := range suites {
		if res.Get("ok/"+s.Name) == 0 {
			res.Inconc("no successful handshake observed for suite " + s.Name)
		}
	}
	if res.Get("handshake_ok")*10 < res.Evaluations*6 {
		res.Inconc(fmt.Sprintf("fewer than 60%% of pairs completed (%d of %d)", res.Get("handshake_ok"), res.Evaluations))
	}
	res.Floor("ok_dtls13", 1)
	res.Floor("handshake_ok_faulted", 1)
	res.Finish(t)
}
