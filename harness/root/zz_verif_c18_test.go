//go:build verif

package dtls

// C18 Wire codecs. Runtime law monitor over every decoder/encoder pair, fed with (a) encodings
// harvested from real handshakes of every variant (datagrams, complete handshake messages, every
// extension), (b) systematic mutations of them (bit flips, byte overwrites, +-1 on every byte,
// truncation at every length, junk appended), (c) generated values for the fixed-layout codecs.
// Laws: no panic; accepted b => c=enc(dec(b)) decodes to an equal value and enc(dec(c))==c;
// self-delimiting codecs ignore-or-reject trailing junk; datagram unpackers partition exactly.

import (
	"bytes"
	"encoding/binary"
	"fmt"
	"reflect"
	"sort"
	"strings"
	"sync"
	"testing"
	"testing/synctest"
	"time"

	"github.com/pion/dtls/v3/internal/ciphersuite/types"
	"github.com/pion/dtls/v3/pkg/protocol"
	"github.com/pion/dtls/v3/pkg/protocol/alert"
	"github.com/pion/dtls/v3/pkg/protocol/extension"
	extension13 "github.com/pion/dtls/v3/pkg/protocol/extension/dtls13"
	"github.com/pion/dtls/v3/pkg/protocol/handshake"
	"github.com/pion/dtls/v3/pkg/protocol/recordlayer"
)

type vfCodec struct {
	Name   string
	Greedy bool // last field extends to the end of input: the trailing-junk law does not apply
	Dec    func(b []byte) (any, error)
	Enc    func(v any) ([]byte, error)
	Seeds  [][]byte
}

// vfDeepEq is reflect.DeepEqual except that nil and empty slices/maps are equal.
func vfDeepEq(a, b reflect.Value) bool {
	if !a.IsValid() || !b.IsValid() {
		return a.IsValid() == b.IsValid()
	}
	if a.Type() != b.Type() {
		return false
	}
	switch a.Kind() {
	case reflect.Slice:
		if a.Len() != b.Len() {
			return false
		}
		for i := 0; i < a.Len(); i++ {
			if !vfDeepEq(a.Index(i), b.Index(i)) {
				return false
			}
		}

		return true
	case reflect.Array:
		for i := 0; i < a.Len(); i++ {
			if !vfDeepEq(a.Index(i), b.Index(i)) {
				return false
			}
		}

		return true
	case reflect.Map:
		if a.Len() != b.Len() {
			return false
		}
		for _, k := range a.MapKeys() {
			bv := b.MapIndex(k)
			if !bv.IsValid() || !vfDeepEq(a.MapIndex(k), bv) {
				return false
			}
		}

		return true
	case reflect.Ptr, reflect.Interface:
		if a.IsNil() || b.IsNil() {
			return a.IsNil() == b.IsNil()
		}

		return vfDeepEq(a.Elem(), b.Elem())
	case reflect.Struct:
		for i := 0; i < a.NumField(); i++ {
			if !vfDeepEq(a.Field(i), b.Field(i)) {
				return false
			}
		}

		return true
	case reflect.Func:
		return a.IsNil() == b.IsNil()
	default:
		if a.CanInterface() && b.CanInterface() {
			return reflect.DeepEqual(a.Interface(), b.Interface())
		}
		switch a.Kind() {
		case reflect.Bool:
			return a.Bool() == b.Bool()
		case reflect.Int, reflect.Int8, reflect.Int16, reflect.Int32, reflect.Int64:
			return a.Int() == b.Int()
		case reflect.Uint, reflect.Uint8, reflect.Uint16, reflect.Uint32, reflect.Uint64, reflect.Uintptr:
			return a.Uint() == b.Uint()
		case reflect.String:
			return a.String() == b.String()
		}

		return true
	}
}

func vfValEq(a, b any) bool { return vfDeepEq(reflect.ValueOf(a), reflect.ValueOf(b)) }

// vfMsgCodec builds a codec from a handshake.Message constructor.
func vfMsgCodec(name string, greedy bool, mk func() handshake.Message) *vfCodec {
	return &vfCodec{
		Name: name, Greedy: greedy,
		Dec: func(b []byte) (any, error) {
			m := mk()
			if err := m.Unmarshal(bytes.Clone(b)); err != nil {
				return nil, err
			}

			return m, nil
		},
		Enc: func(v any) ([]byte, error) { return v.(handshake.Message).Marshal() },
	}
}

type vfExtValue interface {
	extension.Value
	extension.PayloadUnmarshaller
}

func vfExtCodec(name string, mk func() vfExtValue) *vfCodec {
	return &vfCodec{
		Name: "ext/" + name,
		Dec: func(b []byte) (any, error) {
			m := mk()
			if err := m.UnmarshalData(bytes.Clone(b)); err != nil {
				return nil, err
			}

			return m, nil
		},
		Enc: func(v any) ([]byte, error) { return v.(extension.Value).MarshalData() },
	}
}

func vfHeaderCodec(cidLen int) *vfCodec {
	return &vfCodec{
		Name: fmt.Sprintf("recordlayer.Header/cid%d", cidLen), Greedy: false,
		Dec: func(b []byte) (any, error) {
			h := &recordlayer.Header{}
			if cidLen > 0 {
				h.ConnectionID = make([]byte, cidLen)
			}
			if err := h.Unmarshal(bytes.Clone(b)); err != nil {
				return nil, err
			}
			h.ConnectionID = bytes.Clone(h.ConnectionID)

			return h, nil
		},
		Enc: func(v any) ([]byte, error) { return v.(*recordlayer.Header).Marshal() },
	}
}

func vfUnifiedCodec(cidLen int) *vfCodec {
	return &vfCodec{
		Name: fmt.Sprintf("recordlayer.UnifiedHeader/cid%d", cidLen),
		Dec: func(b []byte) (any, error) {
			h := &recordlayer.UnifiedHeader{}
			if cidLen > 0 {
				h.ConnectionID = make([]byte, cidLen)
			}
			if err := h.Unmarshal(bytes.Clone(b)); err != nil {
				return nil, err
			}
			h.ConnectionID = bytes.Clone(h.ConnectionID)

			return h, nil
		},
		Enc: func(v any) ([]byte, error) { return v.(*recordlayer.UnifiedHeader).Marshal() },
	}
}

func vfKxName(k types.KeyExchangeAlgorithm) string {
	switch {
	case k.Has(types.KeyExchangeAlgorithmPsk) && k.Has(types.KeyExchangeAlgorithmEcdhe):
		return "ecdhe-psk"
	case k.Has(types.KeyExchangeAlgorithmPsk):
		return "psk"
	case k.Has(types.KeyExchangeAlgorithmEcdhe):
		return "ecdhe"
	default:
		return "none"
	}
}

var vfKxAll = []types.KeyExchangeAlgorithm{
	types.KeyExchangeAlgorithmEcdhe, types.KeyExchangeAlgorithmPsk,
	types.KeyExchangeAlgorithmEcdhe | types.KeyExchangeAlgorithmPsk,
}

func vfAllCodecs() map[string]*vfCodec {
	m := map[string]*vfCodec{}
	add := func(c *vfCodec) { m[c.Name] = c }
	for _, n := range []int{0, 4, 8} {
		add(vfHeaderCodec(n))
	}
	for _, n := range []int{0, 4} {
		add(vfUnifiedCodec(n))
	}
	add(&vfCodec{
		Name: "handshake.Header",
		Dec: func(b []byte) (any, error) {
			h := &handshake.Header{}
			if err := h.Unmarshal(bytes.Clone(b)); err != nil {
				return nil, err
			}

			return h, nil
		},
		Enc: func(v any) ([]byte, error) { return v.(*handshake.Header).Marshal() },
	})
	for _, kx := range vfKxAll {
		kx := kx
		add(&vfCodec{
			Name: "handshake.Handshake/" + vfKxName(kx),
			Dec: func(b []byte) (any, error) {
				h := &handshake.Handshake{KeyExchangeAlgorithm: kx}
				if err := h.Unmarshal(bytes.Clone(b)); err != nil {
					return nil, err
				}

				return h, nil
			},
			Enc: func(v any) ([]byte, error) { return v.(*handshake.Handshake).Marshal() },
		})
		add(vfMsgCodec("MessageServerKeyExchange/"+vfKxName(kx), false, func() handshake.Message {
			return &handshake.MessageServerKeyExchange{KeyExchangeAlgorithm: kx}
		}))
		add(vfMsgCodec("MessageClientKeyExchange/"+vfKxName(kx), false, func() handshake.Message {
			return &handshake.MessageClientKeyExchange{KeyExchangeAlgorithm: kx}
		}))
		add(&vfCodec{
			// Greedy: the connection calls RecordLayer.Unmarshal on exactly one (decrypted) record whose
			// header length is stale, so the content deliberately extends to the end of the input.
			Name: "RecordLayer/" + vfKxName(kx), Greedy: true,
			Dec: func(b []byte) (any, error) {
				r := &recordlayer.RecordLayer{}
				if err := r.Unmarshal(bytes.Clone(b)); err != nil {
					return nil, err
				}

				return r, nil
			},
			Enc: func(v any) ([]byte, error) { return v.(*recordlayer.RecordLayer).Marshal() },
		})
	}
	add(vfMsgCodec("MessageClientHello", false, func() handshake.Message { return &handshake.MessageClientHello{} }))
	add(vfMsgCodec("MessageServerHello", false, func() handshake.Message { return &handshake.MessageServerHello{} }))
	add(vfMsgCodec("MessageHelloVerifyRequest", false, func() handshake.Message { return &handshake.MessageHelloVerifyRequest{} }))
	add(vfMsgCodec("MessageCertificate", false, func() handshake.Message { return &handshake.MessageCertificate{} }))
	add(vfMsgCodec("MessageCertificate13", false, func() handshake.Message { return &handshake.MessageCertificate13{} }))
	add(vfMsgCodec("MessageCertificateRequest", false, func() handshake.Message { return &handshake.MessageCertificateRequest{} }))
	add(vfMsgCodec("MessageCertificateRequest13", false, func() handshake.Message { return &handshake.MessageCertificateRequest13{} }))
	add(vfMsgCodec("MessageServerHelloDone", false, func() handshake.Message { return &handshake.MessageServerHelloDone{} }))
	add(vfMsgCodec("MessageCertificateVerify", false, func() handshake.Message { return &handshake.MessageCertificateVerify{} }))
	add(vfMsgCodec("MessageFinished", true, func() handshake.Message { return &handshake.MessageFinished{} }))
	add(vfMsgCodec("MessageNewSessionTicket", false, func() handshake.Message { return &handshake.MessageNewSessionTicket{} }))
	add(vfMsgCodec("MessageEncryptedExtensions", false, func() handshake.Message { return &handshake.MessageEncryptedExtensions{} }))
	add(vfMsgCodec("MessageKeyUpdate", false, func() handshake.Message { return &handshake.MessageKeyUpdate{} }))
	add(vfMsgCodec("MessageNewConnectionID", false, func() handshake.Message { return &handshake.MessageNewConnectionID{} }))
	add(vfMsgCodec("MessageRequestConnectionID", false, func() handshake.Message { return &handshake.MessageRequestConnectionID{} }))
	add(&vfCodec{
		Name: "alert.Alert",
		Dec: func(b []byte) (any, error) {
			a := &alert.Alert{}
			if err := a.Unmarshal(bytes.Clone(b)); err != nil {
				return nil, err
			}

			return a, nil
		},
		Enc: func(v any) ([]byte, error) { return v.(*alert.Alert).Marshal() },
	})
	add(&vfCodec{
		Name: "protocol.ACK",
		Dec: func(b []byte) (any, error) {
			a := &protocol.ACK{}
			if err := a.Unmarshal(bytes.Clone(b)); err != nil {
				return nil, err
			}

			return a, nil
		},
		Enc: func(v any) ([]byte, error) { return v.(*protocol.ACK).Marshal() },
	})
	add(&vfCodec{
		Name: "protocol.ReturnRoutabilityCheck",
		Dec: func(b []byte) (any, error) {
			a := &protocol.ReturnRoutabilityCheck{}
			if err := a.Unmarshal(bytes.Clone(b)); err != nil {
				return nil, err
			}

			return a, nil
		},
		Enc: func(v any) ([]byte, error) { return v.(*protocol.ReturnRoutabilityCheck).Marshal() },
	})
	add(&vfCodec{
		Name: "protocol.ChangeCipherSpec",
		Dec: func(b []byte) (any, error) {
			a := &protocol.ChangeCipherSpec{}
			if err := a.Unmarshal(bytes.Clone(b)); err != nil {
				return nil, err
			}

			return a, nil
		},
		Enc: func(v any) ([]byte, error) { return v.(*protocol.ChangeCipherSpec).Marshal() },
	})
	add(&vfCodec{
		Name: "recordlayer.InnerPlaintext", Greedy: true,
		Dec: func(b []byte) (any, error) {
			a := &recordlayer.InnerPlaintext{}
			if err := a.Unmarshal(bytes.Clone(b)); err != nil {
				return nil, err
			}
			a.Zeros = 0 // padding is not part of the value

			return a, nil
		},
		Enc: func(v any) ([]byte, error) { return v.(*recordlayer.InnerPlaintext).Marshal() },
	})
	add(&vfCodec{
		Name: "recordlayer.PlaintextRecord13",
		Dec: func(b []byte) (any, error) {
			a := &recordlayer.PlaintextRecord13{}
			if err := a.Unmarshal(bytes.Clone(b)); err != nil {
				return nil, err
			}

			return a, nil
		},
		Enc: func(v any) ([]byte, error) { return v.(*recordlayer.PlaintextRecord13).Marshal() },
	})
	for _, n := range []int{0, 4} {
		n := n
		add(&vfCodec{
			Name: fmt.Sprintf("recordlayer.CiphertextRecord13/cid%d", n), Greedy: true,
			Dec: func(b []byte) (any, error) {
				a := &recordlayer.CiphertextRecord13{}
				if n > 0 {
					a.Header.ConnectionID = make([]byte, n)
				}
				if err := a.Unmarshal(bytes.Clone(b)); err != nil {
					return nil, err
				}

				return a, nil
			},
			Enc: func(v any) ([]byte, error) { return v.(*recordlayer.CiphertextRecord13).Marshal() },
		})
	}
	add(&vfCodec{
		Name: "extension.RawList",
		Dec: func(b []byte) (any, error) {
			l, err := extension.ParseList(bytes.Clone(b))
			if err != nil {
				return nil, err
			}

			return l, nil
		},
		Enc: func(v any) ([]byte, error) { return extension.MarshalRawList(v.([]extension.Raw)) },
	})
	add(vfExtCodec("ServerNameOffer", func() vfExtValue { return &extension.ServerNameOffer{} }))
	add(vfExtCodec("ServerNameAck", func() vfExtValue { return &extension.ServerNameAck{} }))
	add(vfExtCodec("ALPNOffer", func() vfExtValue { return &extension.ALPNOffer{} }))
	add(vfExtCodec("ALPNSelection", func() vfExtValue { return &extension.ALPNSelection{} }))
	add(vfExtCodec("SRTPOffer", func() vfExtValue { return &extension.SRTPOffer{} }))
	add(vfExtCodec("SRTPSelection", func() vfExtValue { return &extension.SRTPSelection{} }))
	add(vfExtCodec("SupportedGroups", func() vfExtValue { return &extension.SupportedGroups{} }))
	add(vfExtCodec("SignatureAlgorithms", func() vfExtValue { return &extension.SignatureAlgorithms{} }))
	add(vfExtCodec("CertificateSignatureAlgorithms", func() vfExtValue { return &extension.CertificateSignatureAlgorithms{} }))
	add(vfExtCodec("ConnectionID", func() vfExtValue { return &extension.ConnectionID{} }))
	add(vfExtCodec("ReturnRoutabilityCheck", func() vfExtValue { return &extension.ReturnRoutabilityCheck{} }))
	add(vfExtCodec("13/ClientKeyShare", func() vfExtValue { return &extension13.ClientKeyShare{} }))
	add(vfExtCodec("13/ServerKeyShare", func() vfExtValue { return &extension13.ServerKeyShare{} }))
	add(vfExtCodec("13/RetryKeyShare", func() vfExtValue { return &extension13.RetryKeyShare{} }))
	add(vfExtCodec("13/OfferedVersions", func() vfExtValue { return &extension13.OfferedVersions{} }))
	add(vfExtCodec("13/SelectedVersion", func() vfExtValue { return &extension13.SelectedVersion{} }))
	add(vfExtCodec("13/Cookie", func() vfExtValue { return &extension13.Cookie{} }))
	add(vfExtCodec("13/OfferedPSKs", func() vfExtValue { return &extension13.OfferedPSKs{} }))
	add(vfExtCodec("13/SelectedPSK", func() vfExtValue { return &extension13.SelectedPSK{} }))
	add(vfExtCodec("13/PSKKeyExchangeModes", func() vfExtValue { return &extension13.PSKKeyExchangeModes{} }))
	add(vfExtCodec("13/CertificateAuthorities", func() vfExtValue { return &extension13.CertificateAuthorities{} }))
	add(vfExtCodec("13/OIDFilters", func() vfExtValue { return &extension13.OIDFilters{} }))
	add(vfExtCodec("13/EarlyData", func() vfExtValue { return &extension13.EarlyData{} }))
	add(vfExtCodec("13/MaxEarlyData", func() vfExtValue { return &extension13.MaxEarlyData{} }))
	add(vfExtCodec("13/PostHandshakeAuth", func() vfExtValue { return &extension13.PostHandshakeAuth{} }))

	return m
}

// ---------------------------------------------------------------------------------------------
// Harvest: encodings from real handshakes.

type vfHarvest struct {
	mu        sync.Mutex
	Datagrams map[string][][]byte // by cid length context "cid<n>"
	Seeds     map[string][][]byte // by codec name
	seen      map[string]bool
}

func (h *vfHarvest) add(codec string, b []byte) {
	h.mu.Lock()
	defer h.mu.Unlock()
	k := codec + "\x00" + string(b)
	if h.seen[k] {
		return
	}
	h.seen[k] = true
	h.Seeds[codec] = append(h.Seeds[codec], bytes.Clone(b))
}

var vfExtCodecByType = map[extension.Type][]string{
	extension.TypeServerName: {"ext/ServerNameOffer", "ext/ServerNameAck"}, extension.TypeALPN: {"ext/ALPNOffer", "ext/ALPNSelection"},
	extension.TypeUseSRTP: {"ext/SRTPOffer", "ext/SRTPSelection"}, extension.TypeSupportedGroups: {"ext/SupportedGroups"},
	extension.TypeSignatureAlgorithms: {"ext/SignatureAlgorithms"}, extension.TypeSignatureAlgorithmsCert: {"ext/CertificateSignatureAlgorithms"},
	extension.TypeConnectionID: {"ext/ConnectionID"}, extension.TypeReturnRoutabilityCheck: {"ext/ReturnRoutabilityCheck"},
	extension.TypeKeyShare:          {"ext/13/ClientKeyShare", "ext/13/ServerKeyShare", "ext/13/RetryKeyShare"},
	extension.TypeSupportedVersions: {"ext/13/OfferedVersions", "ext/13/SelectedVersion"}, extension.TypeCookie: {"ext/13/Cookie"},
	extension.TypePreSharedKey: {"ext/13/OfferedPSKs", "ext/13/SelectedPSK"}, extension.TypePSKKeyExchangeModes: {"ext/13/PSKKeyExchangeModes"},
	extension.TypeCertificateAuthorities: {"ext/13/CertificateAuthorities"}, extension.TypeOIDFilters: {"ext/13/OIDFilters"},
	extension.TypeEarlyData: {"ext/13/EarlyData", "ext/13/MaxEarlyData"}, extension.TypePostHandshakeAuth: {"ext/13/PostHandshakeAuth"},
}

var vfMsgCodecByType = map[uint8][]string{
	1: {"MessageClientHello"}, 2: {"MessageServerHello"}, 3: {"MessageHelloVerifyRequest"}, 4: {"MessageNewSessionTicket"},
	8: {"MessageEncryptedExtensions"}, 11: {"MessageCertificate", "MessageCertificate13"},
	13: {"MessageCertificateRequest", "MessageCertificateRequest13"}, 14: {"MessageServerHelloDone"},
	15: {"MessageCertificateVerify"}, 20: {"MessageFinished"}, 24: {"MessageKeyUpdate"},
}

// findExtensionBlocks: scan a ClientHello/ServerHello/EncryptedExtensions body for its extension block
// using the library's raw list parser on every suffix that parses completely.
func (h *vfHarvest) harvestExtensions(body []byte) {
	for off := 0; off+2 <= len(body); off++ {
		l := int(binary.BigEndian.Uint16(body[off:]))
		if off+2+l != len(body) || l < 4 {
			continue
		}
		raws, err := extension.ParseList(body[off:])
		if err != nil || len(raws) == 0 {
			continue
		}
		h.add("extension.RawList", body[off:])
		for _, r := range raws {
			for _, c := range vfExtCodecByType[r.Type] {
				h.add(c, r.Data)
			}
		}

		return
	}
}

func (h *vfHarvest) fromPair(p *vfPair, cfg vfCfg) {
	kx := types.KeyExchangeAlgorithmEcdhe
	switch cfg.Suite.Auth {
	case "psk":
		kx = types.KeyExchangeAlgorithmPsk
	case "ecdhepsk":
		kx = types.KeyExchangeAlgorithmEcdhe | types.KeyExchangeAlgorithmPsk
	}
	for _, side := range []*vfSide{p.C, p.S} {
		peer := p.S
		if side == p.S {
			peer = p.C
		}
		cidLen := vfCIDLenOf(peer.Conn)
		for _, w := range p.Net.Emissions(side.Name) {
			h.mu.Lock()
			key := fmt.Sprintf("cid%d", cidLen)
			if len(h.Datagrams[key]) < 400 {
				h.Datagrams[key] = append(h.Datagrams[key], w.Data)
			}
			h.mu.Unlock()
			recs, _ := vfParseDatagram(w.Data, cidLen)
			for _, r := range recs {
				switch {
				case r.Unified:
					if cidLen == 0 || cidLen == 4 {
						h.add(fmt.Sprintf("recordlayer.UnifiedHeader/cid%d", cidLen), r.Raw)
						h.add(fmt.Sprintf("recordlayer.CiphertextRecord13/cid%d", cidLen), r.Raw)
					}
				default:
					if r.Type == 25 {
						if cidLen == 4 || cidLen == 8 {
							h.add(fmt.Sprintf("recordlayer.Header/cid%d", cidLen), r.Raw)
						}
					} else {
						h.add("recordlayer.Header/cid0", r.Raw)
						if r.Epoch == 0 {
							h.add("RecordLayer/"+vfKxName(kx), r.Raw)
							h.add("recordlayer.PlaintextRecord13", r.Raw)
							if r.Type == 21 {
								h.add("alert.Alert", r.Body)
							}
							if r.Type == 22 {
								h.add("handshake.Header", r.Body)
							}
						}
					}
				}
			}
		}
		// complete handshake messages (plaintext, from the cache: includes the encrypted ones)
		items := side.Conn.handshakeCache.VFItems()
		for _, it := range items {
			if len(it.Data) < 12 {
				continue
			}
			h.add("handshake.Handshake/"+vfKxName(kx), it.Data)
			body := it.Data[12:]
			t := it.Data[0]
			for _, c := range vfMsgCodecByType[t] {
				h.add(c, body)
			}
			if t == 12 {
				h.add("MessageServerKeyExchange/"+vfKxName(kx), body)
			}
			if t == 16 {
				h.add("MessageClientKeyExchange/"+vfKxName(kx), body)
			}
			if t == 1 || t == 2 || t == 8 || t == 13 || t == 11 {
				h.harvestExtensions(body)
			}
		}
	}
}

// vfHarvestRun performs handshakes over every C02 variant plus generated configurations.
func vfHarvestRun(t *testing.T, nGen int) *vfHarvest {
	h := &vfHarvest{Datagrams: map[string][][]byte{}, Seeds: map[string][][]byte{}, seen: map[string]bool{}}
	vs := vfC02Variants()
	suites := vfAllSuites()
	total := len(vs) + nGen
	vfBubbles(t, total, func(t *testing.T, i int) {
		var cfg vfCfg
		if i < len(vs) {
			cfg = vs[i].Cfg
			cfg.Store = false
		} else {
			cfg = vfGenCompatCfg(vfRand("C18/harvest", i), suites[i%len(suites)])
			cfg.Store = false
		}
		n := vfNewNet()
		co, so := cfg.Options(nil, nil)
		p, err := vfNewPair(n, co, so)
		if err != nil {
			return
		}
		if ce, se := p.Handshake(time.Minute); ce == nil && se == nil {
			p.C.StartPump()
			p.S.StartPump()
			_, _ = p.C.Conn.Write([]byte("harvest-c"))
			_, _ = p.S.Conn.Write([]byte("harvest-s"))
			if vfIs13(p.C.Conn) {
				_ = p.C.Conn.UpdateKeys(t.Context(), KeyUpdateOptions{RequestPeerUpdate: true})
			}
			time.Sleep(50 * time.Millisecond)
			synctest.Wait()
			h.fromPair(p, cfg)
		}
		p.Close()
		synctest.Wait()
	})

	return h
}

// ---------------------------------------------------------------------------------------------
// Laws

type vfLawStats struct {
	accepted, rejected int64
}

// vfCheckBytes applies the byte-driven laws to one input of one codec. Returns a violation class
// and description ("" if none).
func vfCheckBytes(c *vfCodec, b []byte) (class, what string, accepted bool) {
	defer func() {
		if r := recover(); r != nil {
			class = "panic"
			what = fmt.Sprintf("decoder/encoder panicked: %v", r)
		}
	}()
	v, err := c.Dec(b)
	if err != nil {
		return "", "", false
	}
	enc, err := c.Enc(v)
	if err != nil {
		return "reencode-error:" + vfErrWords(err), fmt.Sprintf("accepted input cannot be re-encoded: %v", err), true
	}
	v2, err := c.Dec(enc)
	if err != nil {
		return "canonical-rejected:" + vfErrWords(err), fmt.Sprintf("re-encoding of an accepted input is rejected: %v", err), true
	}
	if !vfValEq(v, v2) {
		return "roundtrip-value", "decode(encode(decode(b))) differs from decode(b)", true
	}
	enc2, err := c.Enc(v2)
	if err != nil || !bytes.Equal(enc, enc2) {
		return "not-fixed-point", "encode(decode(c)) != c for the canonical form c", true
	}
	if !c.Greedy {
		for _, junk := range [][]byte{{0x00}, {0xff, 0x01, 0x02}} {
			vj, err := c.Dec(append(bytes.Clone(b), junk...))
			if err != nil {
				continue
			}
			if !vfValEq(v, vj) {
				return "junk-consumed", fmt.Sprintf("%d trailing byte(s) beyond the declared lengths changed the decoded value", len(junk)), true
			}
		}
	}

	return "", "", true
}

// vfBlame attributes a re-encoding failure to the innermost value that itself refuses to marshal, so
// that one defect in a message codec is one finding however many wrapper codecs/contexts expose it.
func vfBlame(v any, codec string) string {
	base := codec
	if i := strings.Index(base, "/"); i > 0 && !strings.HasPrefix(base, "ext/") {
		base = base[:i]
	}
	switch t := v.(type) {
	case *recordlayer.RecordLayer:
		if h, ok := t.Content.(*handshake.Handshake); ok {
			if _, err := h.Marshal(); err != nil {
				return vfBlame(h, "handshake.Handshake")
			}
		}
	case *recordlayer.PlaintextRecord13:
		if h, ok := t.Content.(*handshake.Handshake); ok {
			if _, err := h.Marshal(); err != nil {
				return vfBlame(h, "handshake.Handshake")
			}
		}
	case *handshake.Handshake:
		if t.Message != nil {
			if _, err := t.Message.Marshal(); err != nil {
				n := reflect.TypeOf(t.Message).String()

				return n[strings.LastIndex(n, ".")+1:]
			}
		}
	}

	return base
}

// vfErrWords: error text reduced to a stable token for finding signatures.
func vfErrWords(err error) string {
	s := err.Error()
	if i := strings.Index(s, ":"); i > 0 {
		s = s[:i]
	}
	s = strings.ReplaceAll(strings.TrimSpace(s), " ", "-")
	if len(s) > 50 {
		s = s[:50]
	}

	return s
}

func vfMutations(b []byte, r interface{ IntN(int) int }, budget int) [][]byte {
	var out [][]byte
	// truncation at every length
	for i := 0; i < len(b); i++ {
		out = append(out, b[:i])
	}
	// +-1 and bit flips on every byte (bounded for long inputs)
	step := 1
	if len(b) > 300 {
		step = len(b) / 300
	}
	for i := 0; i < len(b); i += step {
		for _, d := range []byte{1, 0xff, 0x80} {
			m := bytes.Clone(b)
			m[i] += d
			out = append(out, m)
		}
		m := bytes.Clone(b)
		m[i] = 0
		out = append(out, m)
		m = bytes.Clone(b)
		m[i] = 0xff
		out = append(out, m)
	}
	out = append(out, append(bytes.Clone(b), 0), append(bytes.Clone(b), bytes.Repeat([]byte{0xaa}, 16)...))
	if len(out) > budget {
		// deterministic thinning
		var thin [][]byte
		for k := 0; k < budget; k++ {
			thin = append(thin, out[r.IntN(len(out))])
		}
		out = thin
	}

	return out
}

func vfC18Unpack(res *vfResult, h *vfHarvest) {
	check := func(name string, in []byte, f func([]byte) ([][]byte, error)) {
		defer func() {
			if r := recover(); r != nil {
				res.Violate("C18:"+name+":panic", fmt.Sprintf("%v on %s", r, vfHex(in)), map[string]any{"codec": name, "input": vfHex(in)})
			}
		}()
		recs, err := f(in)
		res.Eval(1)
		if err != nil {
			res.Count("unpack_rejected", 1)

			return
		}
		res.Count("unpack_accepted", 1)
		var cat []byte
		for _, r := range recs {
			cat = append(cat, r...)
		}
		if !bytes.Equal(cat, in) && bytes.HasPrefix(in, cat) && vfMixedCIDRemainder(in, cat, recs, name) {
			// RFC 9147 Section 4: records after one whose CID differs from the first are discarded.
			res.Count("unpack_mixed_cid_discard", 1)

			return
		}
		if !bytes.Equal(cat, in) {
			res.Violate("C18:"+name+":not-a-partition", fmt.Sprintf("records do not concatenate to the datagram (%d vs %d bytes)", len(cat), len(in)),
				map[string]any{"codec": name, "input": vfHex(in)})
		}
		if len(recs) > 1 {
			res.NonTrivial(name + "/" + vfShortHash(string(in)))
		}
	}
	for key, dgs := range h.Datagrams {
		cid := 0
		fmt.Sscanf(key, "cid%d", &cid)
		for di, d := range dgs {
			r := vfRand("C18/unpack/"+key, di)
			ins := append([][]byte{d}, vfMutations(d, r, vfPick(60, 600))...)
			// two datagrams glued together
			if di+1 < len(dgs) {
				ins = append(ins, append(bytes.Clone(d), dgs[di+1]...))
			}
			for _, in := range ins {
				if cid == 0 {
					check("UnpackDatagram", in, recordlayer.UnpackDatagram)
				}
				check(fmt.Sprintf("ContentAwareUnpackDatagram/cid%d", cid), in, func(b []byte) ([][]byte, error) {
					return recordlayer.ContentAwareUnpackDatagram(b, cid)
				})
				if len(in) > 0 {
					check(fmt.Sprintf("UnpackDatagram13/cid%d", cid), in, func(b []byte) ([][]byte, error) {
						return recordlayer.UnpackDatagram13(b, cid, cid > 0, true)
					})
				}
			}
		}
	}
}

// vfC18UnpackGenerated: well-formed datagrams built from legacy and tls12_cid records in every order must be
// accepted and split exactly at the constructed boundaries (harvested traffic only contains the orders pion emits).
func vfC18UnpackGenerated(res *vfResult) {
	for _, cid := range []int{0, 1, 4, 8} {
		r := vfRand("C18/unpack-generated", cid)
		for n := 1; n <= 4; n++ {
			for shape := 0; shape < 1<<n; shape++ {
				for rep := 0; rep < vfPick(3, 40); rep++ {
					var want [][]byte
					var dg []byte
					for i := 0; i < n; i++ {
						body := vfRandBytes(r, 1+r.IntN(40)) // (a header-only record at the end of a datagram is refused by design)
						var rec []byte
						if shape>>i&1 == 1 {
							rec = vfLegacyRecord(25, 0xfefd, uint16(1+r.IntN(2)), uint64(r.IntN(1000)), vfRandBytes(r, cid), -1, body)
						} else {
							rec = vfLegacyRecord(uint8(20+r.IntN(4)), 0xfefd, uint16(r.IntN(2)), uint64(r.IntN(1000)), nil, -1, body)
						}
						want = append(want, rec)
						dg = append(dg, rec...)
					}
					res.Eval(1)
					name := fmt.Sprintf("ContentAwareUnpackDatagram/cid%d", cid)
					got, err := recordlayer.ContentAwareUnpackDatagram(dg, cid)
					if err != nil {
						res.Violate("C18:"+name+":well-formed-datagram-rejected", fmt.Sprintf("%d well-formed records (shape %0*b, 1 = tls12_cid) rejected: %v", n, n, shape, err),
							map[string]any{"codec": name, "input": vfHex(dg)})

						continue
					}
					ok := len(got) == len(want)
					for i := 0; ok && i < len(want); i++ {
						ok = bytes.Equal(got[i], want[i])
					}
					if !ok {
						res.Violate("C18:"+name+":split-at-wrong-boundaries", fmt.Sprintf("%d constructed records came back as %d pieces (shape %0*b)", n, len(got), n, shape),
							map[string]any{"codec": name, "input": vfHex(dg)})
					}
					res.Count("generated_datagrams_unpacked", 1)
					if cid == 0 && shape == 0 {
						if got, err := recordlayer.UnpackDatagram(dg); err != nil || len(got) != n {
							res.Violate("C18:UnpackDatagram:well-formed-datagram-rejected", fmt.Sprintf("%d plain records: %v, %d pieces", n, err, len(got)), map[string]any{"input": vfHex(dg)})
						}
					}
				}
			}
		}
	}
}

// vfC18Unpack13Generated: DTLS 1.3 datagrams built from unified-header records of all eight C/S/L shapes (RFC 9147
// Figure 3; pion itself only ever sends S=1, L=1) must be accepted and split at the constructed boundaries.
func vfC18Unpack13Generated(res *vfResult) {
	for _, cid := range []int{0, 4, 8} {
		r := vfRand("C18/unpack13-generated", cid)
		cidBytes := vfRandBytes(r, cid) // one connection: every record carries the same ID
		for n := 1; n <= 3; n++ {
			// 2 bits (S, L) per record; the C bit is the same for every record of a datagram (one connection)
			for shape := 0; shape < 1<<(2*n+1); shape++ {
				var want [][]byte
				var dg []byte
				ok := true
				c := shape>>(2*n)&1 == 1
				if c && cid == 0 {
					continue
				}
				for i := 0; i < n; i++ {
					bits := shape >> (2 * i) & 3
					sbit, l := bits&1 != 0, bits&2 != 0
					if !l && i != n-1 {
						ok = false // a record without a length field extends to the end of the datagram

						break
					}
					first := byte(0x20 | r.IntN(4))
					rec := []byte{first}
					if c {
						rec[0] |= 0x10
						rec = append(rec, cidBytes...)
					}
					if sbit {
						rec[0] |= 0x08
						rec = append(rec, byte(r.IntN(256)), byte(r.IntN(256)))
					} else {
						rec = append(rec, byte(r.IntN(256)))
					}
					body := vfRandBytes(r, 17+r.IntN(30))
					if l {
						rec[0] |= 0x04
						rec = binary.BigEndian.AppendUint16(rec, uint16(len(body)))
					}
					rec = append(rec, body...)
					want = append(want, rec)
					dg = append(dg, rec...)
				}
				if !ok {
					continue
				}
				res.Eval(1)
				name := fmt.Sprintf("UnpackDatagram13/cid%d", cid)
				got, err := recordlayer.UnpackDatagram13(dg, cid, false, true)
				if err != nil {
					res.Violate("C18:"+name+":well-formed-datagram-rejected", fmt.Sprintf("%d well-formed unified-header records (C bit, then S/L per record: %0*b) rejected: %v", n, 2*n+1, shape, err),
						map[string]any{"codec": name, "input": vfHex(dg)})

					continue
				}
				same := len(got) == len(want)
				for i := 0; same && i < len(want); i++ {
					same = bytes.Equal(got[i], want[i])
				}
				if !same {
					res.Violate("C18:"+name+":split-at-wrong-boundaries", fmt.Sprintf("%d constructed unified-header records came back as %d pieces (shapes %0*b)", n, len(got), 2*n+1, shape),
						map[string]any{"codec": name, "input": vfHex(dg)})
				}
				// the record codec itself: decode, re-encode, same bytes
				for _, rec := range want {
					var cr recordlayer.CiphertextRecord13
					if rec[0]&0x10 != 0 {
						cr.Header.ConnectionID = make([]byte, cid)
					}
					if err := cr.Unmarshal(rec); err != nil {
						res.Violate("C18:CiphertextRecord13:well-formed-record-rejected", fmt.Sprintf("first byte %#02x: %v", rec[0], err), map[string]any{"input": vfHex(rec)})

						continue
					}
					// the encoder writes one canonical shape: decode(encode(x)) must be a fixed point from there on
					out, err := cr.Marshal()
					if err != nil {
						res.Violate("C18:CiphertextRecord13:reencode-error", fmt.Sprintf("first byte %#02x: %v", rec[0], err), map[string]any{"input": vfHex(rec)})

						continue
					}
					var cr2 recordlayer.CiphertextRecord13
					if out[0]&0x10 != 0 {
						cr2.Header.ConnectionID = make([]byte, cid)
					}
					if err := cr2.Unmarshal(out); err != nil {
						res.Violate("C18:CiphertextRecord13:own-encoding-rejected", fmt.Sprintf("first byte %#02x -> %#02x: %v", rec[0], out[0], err), map[string]any{"input": vfHex(rec)})

						continue
					}
					if out2, err := cr2.Marshal(); err != nil || !bytes.Equal(out2, out) || !bytes.Equal(cr2.EncryptedRecord, cr.EncryptedRecord) {
						res.Violate("C18:CiphertextRecord13:not-a-fixed-point", fmt.Sprintf("first byte %#02x: decode/encode is not stable or loses the body (err %v)", rec[0], err), map[string]any{"input": vfHex(rec)})
					}
				}
				res.Count("generated_datagrams13_unpacked", 1)
			}
		}
	}
}

// vfC18HookedHello: a ServerHello / ClientHello that an application hook hands back with the same wire bytes but
// in another in-memory form (every extension as extension.Raw) must be re-read from its encoding: what the
// library then acts on is the decoded value, so both sides agree on what was negotiated.
func vfC18HookedHello(t *testing.T, res *vfResult) {
	raw := func(exts []extension.Value) []extension.Value {
		out := make([]extension.Value, 0, len(exts))
		for _, e := range exts {
			d, err := e.MarshalData()
			if err != nil {
				out = append(out, e)

				continue
			}
			out = append(out, extension.Raw{Type: e.ExtensionType(), Data: d})
		}

		return out
	}
	for _, side := range []string{"server-hello", "client-hello", "both"} {
		side := side
		synctest.Test(t, func(t *testing.T) {
			cfg := vfBaseCfg(vfSuiteByName("ECDSA-GCM128"), "ecdsa")
			cfg.CIDc, cfg.CIDs, cfg.SRTP, cfg.ALPN = 4, 6, 2, 1
			co, so := cfg.Options(nil, nil)
			if side != "client-hello" {
				so = append(so, WithServerHelloMessageHook(func(sh handshake.MessageServerHello) handshake.Message {
					sh.Extensions = raw(sh.Extensions)

					return &sh
				}))
			}
			if side != "server-hello" {
				co = append(co, WithClientHelloMessageHook(func(ch handshake.MessageClientHello) handshake.Message {
					ch.Extensions = raw(ch.Extensions)

					return &ch
				}))
			}
			p, err := vfNewPair(vfNewNet(), co, so)
			res.Eval(1)
			if err != nil {
				return
			}
			ce, se := p.Handshake(30 * time.Second)
			res.Count("hooked_hello_handshakes", 1)
			name := "hooked-" + side
			if ce != nil || se != nil {
				res.Violate("C18:"+name+":same-bytes-other-form-not-understood", fmt.Sprintf("a hook returned the hello with every extension re-wrapped as extension.Raw (identical encoding); the handshake failed: client=%v server=%v", ce, se),
					map[string]any{"codec": name})
			} else {
				cs, ss := vfSnapshot(p.C.Conn), vfSnapshot(p.S.Conn)
				if cs.LocalCID != ss.RemoteCID || cs.RemoteCID != ss.LocalCID || len(cs.LocalCID) != 8 || len(ss.LocalCID) != 12 || cs.SRTP != ss.SRTP || cs.ALPN != ss.ALPN || cs.SRTP == 0 || cs.ALPN == "" {
					res.Violate("C18:"+name+":negotiation-differs-from-encoding", fmt.Sprintf("client %+v / server %+v", cs, ss), map[string]any{"codec": name})
				}
				res.NonTrivial(name)
			}
			p.Close()
			synctest.Wait()
		})
	}
}

// vfMixedCIDRemainder: the unconsumed remainder starts with a unified-header record carrying a CID
// that differs from the first ciphertext record's CID (the documented discard rule).
func vfMixedCIDRemainder(in, cat []byte, recs [][]byte, name string) bool {
	cid := 0
	if _, err := fmt.Sscanf(name[strings.Index(name, "/cid")+1:], "cid%d", &cid); err != nil || cid == 0 {
		return false
	}
	rest := in[len(cat):]
	if len(rest) < 1+cid || rest[0]&0xe0 != 0x20 || rest[0]&0x10 == 0 {
		return false
	}
	for _, r := range recs {
		if len(r) >= 1+cid && r[0]&0xe0 == 0x20 && r[0]&0x10 != 0 {
			return !bytes.Equal(r[1:1+cid], rest[1:1+cid])
		}
	}

	return false
}

// vfC18Values: generated values for fixed-layout codecs (law L1 on values, not only on bytes).
func vfC18Values(res *vfResult, codecs map[string]*vfCodec) {
	n := vfPick(3000, 200000)
	for k := 0; k < n; k++ {
		r := vfRand("C18/values", k)
		type tc struct {
			codec string
			v     any
		}
		var cases []tc
		cidLen := []int{0, 4, 8}[r.IntN(3)]
		hd := &recordlayer.Header{
			ContentType: protocol.ContentType(20 + r.IntN(7)), ContentLen: uint16(r.IntN(65536)),
			Version: protocol.Version1_2, Epoch: uint16(r.IntN(65536)), SequenceNumber: r.Uint64() & 0xffffffffffff,
		}
		if r.IntN(4) == 0 {
			hd.Version = protocol.Version1_0
		}
		if cidLen > 0 {
			hd.ContentType = protocol.ContentTypeConnectionID
			hd.ConnectionID = vfRandBytes(r, cidLen)
		} else if hd.ContentType == protocol.ContentTypeConnectionID {
			hd.ContentType = protocol.ContentTypeApplicationData
		}
		cases = append(cases, tc{fmt.Sprintf("recordlayer.Header/cid%d", cidLen), hd})
		ucid := []int{0, 4}[r.IntN(2)]
		uh := &recordlayer.UnifiedHeader{
			SeqBit: r.IntN(2) == 0, LengthBit: r.IntN(2) == 0, EpochLow: uint8(r.IntN(4)),
			ConnectionID: []byte{},
		}
		if uh.SeqBit {
			uh.SequenceNumber = uint16(r.IntN(65536))
		} else {
			uh.SequenceNumber = uint16(r.IntN(256))
		}
		if uh.LengthBit {
			uh.Length = uint16(r.IntN(65536))
		}
		if ucid > 0 {
			uh.ConnectionID = vfRandBytes(r, ucid)
		}
		cases = append(cases, tc{fmt.Sprintf("recordlayer.UnifiedHeader/cid%d", ucid), uh})
		cases = append(cases, tc{"alert.Alert", &alert.Alert{Level: alert.Level(1 + r.IntN(2)), Description: alert.Description(r.IntN(256))}})
		ack := &protocol.ACK{}
		for j := r.IntN(5); j > 0; j-- {
			ack.Records = append(ack.Records, protocol.RecordNumber{Epoch: r.Uint64(), SequenceNumber: r.Uint64()})
		}
		cases = append(cases, tc{"protocol.ACK", ack})
		hl := uint32(r.IntN(1 << 24))
		fo := uint32(0)
		if hl > 0 {
			fo = uint32(r.IntN(int(hl)))
		}
		cases = append(cases, tc{"handshake.Header", &handshake.Header{
			Type: handshake.Type(r.IntN(25)), Length: hl, MessageSequence: uint16(r.IntN(65536)),
			FragmentOffset: fo, FragmentLength: uint32(r.IntN(int(hl-fo) + 1)),
		}})
		cases = append(cases, tc{"MessageFinished", &handshake.MessageFinished{VerifyData: vfRandBytes(r, 1+r.IntN(48))}})
		cases = append(cases, tc{"MessageHelloVerifyRequest", &handshake.MessageHelloVerifyRequest{Version: protocol.Version1_2, Cookie: vfRandBytes(r, r.IntN(256))}})
		cases = append(cases, tc{"recordlayer.InnerPlaintext", &recordlayer.InnerPlaintext{Content: vfRandBytes(r, r.IntN(64)), RealType: protocol.ContentType(20 + r.IntN(6))}})
		for _, c := range cases {
			codec := codecs[c.codec]
			func() {
				defer func() {
					if rec := recover(); rec != nil {
						res.Violate("C18:"+c.codec+":panic-on-value", fmt.Sprintf("%v", rec), map[string]any{"codec": c.codec, "value": fmt.Sprintf("%+v", c.v)})
					}
				}()
				enc, err := codec.Enc(c.v)
				res.Eval(1)
				if err != nil {
					res.Count("value_encode_rejected", 1)

					return
				}
				v2, err := codec.Dec(enc)
				if err != nil {
					res.Violate("C18:"+c.codec+":encoded-value-rejected", fmt.Sprintf("Unmarshal(Marshal(v)) failed: %v for %+v", err, c.v),
						map[string]any{"codec": c.codec, "bytes": vfHex(enc)})

					return
				}
				if !vfValEq(c.v, v2) {
					res.Violate("C18:"+c.codec+":value-roundtrip", fmt.Sprintf("Unmarshal(Marshal(v)) != v: %+v vs %+v", c.v, v2),
						map[string]any{"codec": c.codec, "bytes": vfHex(enc)})
				}
				res.Count("value_roundtrips", 1)
				res.NonTrivial(c.codec + "/" + vfShortHash(string(enc)))
			}()
		}
	}
}

// vfC18OddVectors: a vector of two-byte elements whose declared length is odd cannot be decoded within its bounds:
// the last "element" would take a byte from whatever follows. Each decoder gets a well-formed encoding of its
// container in which exactly that one length is odd; it has to refuse it.
func vfC18OddVectors(res *vfResult, codecs map[string]*vfCodec) {
	type probe struct {
		codec string
		in    []byte
		what  string
	}
	probes := []probe{
		{"MessageCertificateRequest", []byte{1, 64, 0, 3, 4, 3, 4, 0, 0}, "supported_signature_algorithms of 3 bytes followed by an empty certificate_authorities"},
		{"MessageCertificateRequest", []byte{1, 64, 0, 5, 4, 3, 5, 3, 6, 0, 2, 0, 0}, "supported_signature_algorithms of 5 bytes followed by one empty distinguished name"},
		{"ext/SupportedGroups", []byte{0, 3, 0, 29, 0}, "named_group_list of 3 bytes"},
		{"ext/SignatureAlgorithms", []byte{0, 3, 4, 3, 4}, "supported_signature_algorithms of 3 bytes"},
		{"ext/CertificateSignatureAlgorithms", []byte{0, 3, 4, 3, 4}, "signature_algorithms_cert of 3 bytes"},
		{"ext/SRTPOffer", []byte{0, 3, 0, 1, 0, 0}, "SRTPProtectionProfiles of 3 bytes"},
		{"ext/13/OfferedVersions", []byte{3, 0xfe, 0xfc, 0xfe}, "versions of 3 bytes"},
	}
	for _, pr := range probes {
		c, ok := codecs[pr.codec]
		if !ok {
			res.Count("odd_vector_codec_unknown", 1)
			res.Seen("odd_vector_codec_unknown_names", pr.codec)

			continue
		}
		res.Eval(1)
		res.Count("odd_vector_probes", 1)
		res.NonTrivial("odd-vector/" + pr.codec + "/" + vfShortHash(string(pr.in)))
		if v, err := c.Dec(pr.in); err == nil {
			res.Violate("C18:"+pr.codec+":odd-length-vector-accepted",
				fmt.Sprintf("%s: %s was accepted (decoded %+v): the last element reads a byte beyond the declared length (input %s)", pr.codec, pr.what, v, vfHex(pr.in)),
				map[string]any{"codec": pr.codec, "input": vfHex(pr.in), "origin": "odd-vector"})
		}
	}
}

// vfC18ForeignClientHellos: harvested ClientHellos re-written the way another stack would send them - with a
// compression-method list that names a method this library does not know in front of null. The decoder keeps what it
// knows and must find every following field where the declared lengths put it: the hello is accepted and its
// extensions are the original's.
func vfC18ForeignClientHellos(res *vfResult, codecs map[string]*vfCodec, h *vfHarvest) {
	c, ok := codecs["MessageClientHello"]
	if !ok {
		return
	}
	h.mu.Lock()
	seeds := append([][]byte(nil), h.Seeds["MessageClientHello"]...)
	h.mu.Unlock()
	done := 0
	for _, in := range seeds {
		hello, okp := vfParseHello(in, true)
		if !okp || !hello.HasExts || done >= 12 {
			continue
		}
		orig, err := c.Dec(in)
		if err != nil {
			continue
		}
		for _, comp := range [][]byte{{1, 0}, {0x40, 1, 0}, {0, 1}} {
			hello.Comp = comp
			foreign := hello.Marshal()
			res.Eval(1)
			res.Count("foreign_client_hellos", 1)
			res.NonTrivial("foreign-hello/" + vfShortHash(string(foreign)))
			got, derr := c.Dec(foreign)
			if derr != nil {
				res.Violate("C18:MessageClientHello:foreign-compression-methods-rejected",
					fmt.Sprintf("a well-formed ClientHello offering compression methods %v was rejected: %v (the same hello with <null> decodes)", comp, derr),
					map[string]any{"codec": "MessageClientHello", "input": vfHex(foreign), "origin": "foreign-hello"})

				continue
			}
			o, _ := orig.(*handshake.MessageClientHello)
			g, _ := got.(*handshake.MessageClientHello)
			if o != nil && g != nil && (len(o.Extensions) != len(g.Extensions) || !bytes.Equal(o.SessionID, g.SessionID) || len(o.CipherSuiteIDs) != len(g.CipherSuiteIDs)) {
				res.Violate("C18:MessageClientHello:foreign-compression-methods-shift-fields",
					fmt.Sprintf("with compression methods %v the hello decodes to %d extensions / %d suites, with <null> to %d / %d", comp, len(g.Extensions), len(g.CipherSuiteIDs), len(o.Extensions), len(o.CipherSuiteIDs)),
					map[string]any{"codec": "MessageClientHello", "input": vfHex(foreign), "origin": "foreign-hello"})
			}
		}
		done++
	}
}

func TestVF_C18(t *testing.T) {
	vfGetPKI()
	res := vfNewResult("C18", "every codec (record headers legacy/CID/unified, records, inner plaintext, handshake header and every "+
		"handshake message under each key-exchange context, alerts, ACK, RRC, extension list and every extension type, datagram unpackers) "+
		"on encodings harvested from real handshakes of all variants, their systematic mutations (truncation at every length, per-byte "+
		"+1/-1/0x80/0x00/0xff, junk appended), and generated values for fixed-layout codecs. Non-trivial = input accepted by the decoder "+
		"(laws then evaluated); distinct = distinct (codec, input)")
	res.Assume("RecordLayer.Unmarshal is exercised under its documented contract (exactly one record)",
		"value equality treats nil and empty slices as equal")
	codecs := vfAllCodecs()
	h := vfHarvestRun(t, vfPick(60, 600))
	names := make([]string, 0, len(codecs))
	for n := range codecs {
		names = append(names, n)
	}
	sort.Strings(names)
	// handcrafted seeds for codecs real traffic does not produce
	h.add("protocol.ChangeCipherSpec", []byte{1})
	h.add("protocol.ReturnRoutabilityCheck", []byte{0, 1, 2, 3, 4, 5, 6, 7, 8})
	h.add("protocol.ReturnRoutabilityCheck", []byte{1, 1, 2, 3, 4, 5, 6, 7, 8})
	h.add("protocol.ReturnRoutabilityCheck", []byte{2, 1, 2, 3, 4, 5, 6, 7, 8})
	h.add("protocol.ACK", []byte{0, 16, 0, 0, 0, 0, 0, 0, 0, 2, 0, 0, 0, 0, 0, 0, 0, 5})
	h.add("protocol.ACK", []byte{0, 0})
	h.add("alert.Alert", []byte{2, 40})
	h.add("MessageKeyUpdate", []byte{0})
	h.add("MessageKeyUpdate", []byte{1})
	h.add("MessageRequestConnectionID", []byte{3})
	h.add("MessageNewConnectionID", []byte{0, 5, 4, 1, 2, 3, 4, 0})
	h.add("MessageNewConnectionID", []byte{0, 10, 4, 1, 2, 3, 4, 4, 5, 6, 7, 8, 1})
	h.add("recordlayer.InnerPlaintext", []byte{1, 2, 3, 23, 0, 0, 0})
	h.add("MessageClientKeyExchange/ecdhe-psk", []byte{0, 0})
	h.add("MessageClientKeyExchange/ecdhe-psk", []byte{0, 2, 'i', 'd', 3, 9, 9, 9})
	h.add("MessageClientKeyExchange/psk", []byte{0, 2, 'i', 'd'})
	h.add("MessageClientKeyExchange/ecdhe", []byte{3, 9, 9, 9})
	h.add("ext/13/PSKKeyExchangeModes", []byte{1, 1})
	h.add("ext/13/OfferedPSKs", []byte{0, 10, 0, 4, 'a', 'b', 'c', 'd', 0, 0, 0, 1, 0, 33, 32, 1, 2, 3, 4, 5, 6, 7, 8, 1, 2, 3, 4, 5, 6, 7, 8, 1, 2, 3, 4, 5, 6, 7, 8, 1, 2, 3, 4, 5, 6, 7, 8})
	h.add("ext/13/SelectedPSK", []byte{0, 0})
	h.add("ext/13/CertificateAuthorities", []byte{0, 5, 0, 3, 0x30, 0x01, 0x00})
	h.add("ext/13/OIDFilters", []byte{0, 6, 1, 0x55, 0, 2, 1, 2})
	h.add("ext/13/MaxEarlyData", []byte{0, 0, 1, 0})
	h.add("ext/13/EarlyData", []byte{})
	h.add("ext/13/PostHandshakeAuth", []byte{})
	h.add("ext/ServerNameAck", []byte{})
	h.add("ext/ALPNSelection", []byte{0, 3, 2, 'h', '2'})
	h.add("ext/SRTPSelection", []byte{0, 2, 0, 1, 0})
	// cross-feeding: every seed is also offered to every other codec (decoders must cope with foreign input)
	var all [][]byte
	for _, n := range names {
		for i, s := range h.Seeds[n] {
			if i < 6 {
				all = append(all, s)
			}
		}
	}
	var mu sync.Mutex
	perCodec := map[string]*vfLawStats{}
	vfParallel(len(names), func(_, ci int) {
		name := names[ci]
		c := codecs[name]
		st := &vfLawStats{}
		seeds := h.Seeds[name]
		budget := vfPick(400, 6000)
		if len(seeds) > vfPick(40, 400) {
			seeds = seeds[:vfPick(40, 400)]
		}
		run := func(in []byte, origin string) {
			class, what, acc := vfCheckBytes(c, in)
			res.Eval(1)
			if acc {
				st.accepted++
				if st.accepted == 3 && (ci%12 == 0) {
					res.Sample(map[string]any{"codec": name, "origin": origin, "accepted_input_hex": vfHex(in[:min(len(in), 80)]), "len": len(in)})
				}
				res.NonTrivial(name + "/" + vfShortHash(string(in)))
			} else {
				st.rejected++
			}
			if class != "" {
				blame := name
				if strings.HasPrefix(class, "reencode-error") {
					if v, err := c.Dec(in); err == nil {
						blame = vfBlame(v, name)
					}
				}
				res.Violate("C18:"+blame+":"+class, fmt.Sprintf("%s (input %s, %d bytes: %s)", what, origin, len(in), vfHex(in[:min(len(in), 96)])),
					map[string]any{"codec": name, "input": vfHex(in), "origin": origin})
			}
		}
		for si, s := range seeds {
			run(s, "harvested")
			r := vfRand("C18/mut/"+name, si)
			for _, m := range vfMutations(s, r, budget) {
				run(m, "mutated")
			}
		}
		for _, s := range all {
			run(s, "foreign")
		}
		// pure random / tiny inputs
		r := vfRand("C18/rand/"+name, 0)
		for k := 0; k < vfPick(500, 20000); k++ {
			run(vfRandBytes(r, r.IntN(40)), "random")
		}
		for b0 := 0; b0 < 256; b0++ {
			run([]byte{byte(b0)}, "single-byte")
		}
		run([]byte{}, "empty")
		mu.Lock()
		perCodec[name] = st
		mu.Unlock()
	})
	for _, n := range names {
		st := perCodec[n]
		res.Count("accepted/"+n, st.accepted)
		if st.accepted == 0 {
			res.Note("codec never accepted an input (laws not exercised): " + n)
			res.Count("codecs_without_accepted_input", 1)
		}
		res.Count("seeds/"+n, int64(len(h.Seeds[n])))
	}
	res.Count("codecs", int64(len(names)))
	vfC18Unpack(res, h)
	vfC18UnpackGenerated(res)
	vfC18Unpack13Generated(res)
	vfC18HookedHello(t, res)
	vfC18Values(res, codecs)
	vfC18OddVectors(res, codecs)
	vfC18ForeignClientHellos(res, codecs, h)
	if res.Get("codecs_without_accepted_input") > 6 {
		res.Inconc(fmt.Sprintf("%d codecs never accepted any input", res.Get("codecs_without_accepted_input")))
	}
	_ = strings.Join
	res.Finish(t)
}
