//go:build verif

package dtls

import (
	"bytes"
	"context"
	"fmt"
	"strings"
	"sync"
	"testing"
	"testing/synctest"
	"time"

	dtlsflight "github.com/pion/dtls/v3/internal/flight"
	"github.com/pion/dtls/v3/pkg/protocol"
	"github.com/pion/dtls/v3/pkg/protocol/recordlayer"
)

// C14 — session resumption. Histories of up to three connections over two shared, instrumented
// session stores; between the first and the second connection the stores are manipulated (or the
// second connection's hellos are rewritten in transit). The oracle combines
//   - the store contents just before each connection (which secret each side holds for the ID),
//   - the wire (session ID offered and answered, randoms, whether the server's first flight ends
//     in ServerHelloDone = full handshake, alert records per side),
//   - both HandshakeContext results, ConnectionState().SessionID, exporter output, a payload round trip,
//   - the store contents afterwards and the session ID the next connection offers.

type vfC14Case struct {
	Cfg    string // psk | ecdsa | ecdsa-cid | rsa-verify
	Manip  string
	Second string // same | cid-changed | cid-dropped | other-suite
	Mask   string // "" or a fault mask for the second connection (manip "untouched" only)
	Idx    int
}

func (c vfC14Case) ID() string {
	return fmt.Sprintf("%s|%s|second=%s|mask=%s", c.Cfg, c.Manip, c.Second, c.Mask)
}

var vfC14Manips = []string{
	"untouched", "server-forgot", "client-forgot", "client-secret-bitflip", "server-secret-bitflip",
	"client-secret-truncated", "server-secret-truncated", "server-secret-extended", "server-secrets-swapped",
	"client-id-unknown", "client-secret-of-other-session", "tamper-clienthello", "tamper-serverhello",
	"both-secrets-same-bitflip", "server-miss-as-empty-session",
}

func vfC14Cfg(name, second string) vfCfg {
	var c vfCfg
	switch name {
	case "psk":
		c = vfBaseCfg(vfSuiteByName("PSK-GCM"), "")
	case "ecdsa":
		c = vfBaseCfg(vfSuiteByName("ECDSA-GCM128"), "ecdsa")
	case "ecdsa-cid":
		c = vfBaseCfg(vfSuiteByName("ECDSA-GCM128"), "ecdsa")
		c.CIDc, c.CIDs = 4, 4
	case "rsa-verify":
		c = vfBaseCfg(vfSuiteByName("RSA-CHACHA"), "rsa")
		c.Verify = true
	case "ecdsa-nohv":
		c = vfBaseCfg(vfSuiteByName("ECDSA-CBC"), "ecdsa")
		c.HelloVerify = false
	}
	c.Store = true
	switch second {
	case "cid-changed":
		c.CIDc, c.CIDs = 6, 3
	case "cid-dropped":
		c.CIDc, c.CIDs = -1, -1
	case "cid-added":
		c.CIDc, c.CIDs = 5, 5
	case "other-suite":
		switch c.Suite.Auth {
		case "psk":
			c.Suite = vfSuiteByName("PSK-CCM")
		case "rsa":
			c.Suite = vfSuiteByName("RSA-GCM128")
		default:
			c.Suite = vfSuiteByName("ECDSA-CHACHA")
		}
	}

	return c
}

type vfC14Conn struct {
	CErr, SErr    error
	OfferedSID    []byte // session_id of the last ClientHello on the wire
	AnsweredSID   []byte // session_id of the ServerHello
	CHRandom      []byte
	SHRandom      []byte
	HasSH         bool
	HasSHD        bool // the server's flight ended in ServerHelloDone: full handshake
	HasCert       bool
	AlertsC       int // alert records emitted by the client (any epoch)
	AlertsS       int
	CIDRecords    int
	CSession      []byte
	SSession      []byte
	Exporter      string
	CLocalCID     string
	CRemoteCID    string
	SLocalCID     string
	SRemoteCID    string
	RoundTrip     string
	Emitted       int
	ClientKeyLog  string
	ServerKeyLog  string
	Storm         bool
	WireSummary   []string
	CompletedBoth bool
}

// vfC14Connect runs one connection over the two stores and observes it.
func vfC14Connect(cfg vfCfg, cS, sS *vfMemStore, install func(n *vfNet), roundTrip bool) *vfC14Conn {
	return vfC14ConnectPrep(cfg, cS, sS, install, roundTrip, nil)
}

// vfC14ConnectPrep: prep sees the pair before the handshake starts (to register a flight script for one side).
func vfC14ConnectPrep(cfg vfCfg, cS, sS *vfMemStore, install func(n *vfNet), roundTrip bool, prep func(p *vfPair) func()) *vfC14Conn {
	out := &vfC14Conn{}
	n := vfNewNet()
	n.stormCap = 20000
	if install != nil {
		install(n)
	}
	co, so := cfg.Options(cS, sS)
	p, err := vfNewPair(n, co, so)
	if err != nil {
		out.CErr, out.SErr = err, err

		return out
	}
	if prep != nil {
		if undo := prep(p); undo != nil {
			defer undo()
		}
	}
	out.CErr, out.SErr = p.Handshake(2 * time.Minute)
	out.CompletedBoth = out.CErr == nil && out.SErr == nil
	n.SetOnSend(nil)
	if out.CompletedBoth {
		if st, ok := p.C.Conn.ConnectionState(); ok {
			out.CSession = st.SessionID
			if e, err := st.ExportKeyingMaterial("EXPERIMENTAL vf c14", nil, 32); err == nil {
				out.Exporter = vfHex(e)
			}
			out.CLocalCID, out.CRemoteCID = vfHex(st.localConnectionID), vfHex(st.remoteConnectionID)
		}
		if st, ok := p.S.Conn.ConnectionState(); ok {
			out.SSession = st.SessionID
			out.SLocalCID, out.SRemoteCID = vfHex(st.localConnectionID), vfHex(st.remoteConnectionID)
		}
		if roundTrip {
			p.C.StartPump()
			p.S.StartPump()
			out.RoundTrip = vfRoundTrip(p, "c14", 30*time.Second)
		}
	}
	out.ClientKeyLog, out.ServerKeyLog = p.C.Keylog.String(), p.S.Keylog.String()
	for _, w := range n.Emissions("") {
		out.Emitted++
		if len(out.WireSummary) < 24 {
			out.WireSummary = append(out.WireSummary, fmt.Sprintf("%v %s:%s", w.VTime, w.From, vfKind(w.Data)))
		}
		recs, _ := vfParseDatagram(w.Data, 0)
		for _, rc := range recs {
			switch {
			case !rc.Unified && rc.Type == 21:
				if w.From == "c" {
					out.AlertsC++
				} else {
					out.AlertsS++
				}
			case !rc.Unified && rc.Type == 25:
				out.CIDRecords++
			case !rc.Unified && rc.Type == 22 && rc.Epoch == 0:
				body := rc.Body
				for len(body) > 0 {
					h, rest, ok := vfParseHS(body)
					if !ok {
						break
					}
					body = rest
					if h.FragOff != 0 || h.FragLen != h.Length {
						if h.Type == 14 {
							out.HasSHD = true
						}

						continue
					}
					switch h.Type {
					case 1:
						if ch, ok := vfParseHello(h.Body, true); ok && w.From == "c" {
							out.OfferedSID, out.CHRandom = append([]byte(nil), ch.SID...), append([]byte(nil), ch.Random...)
						}
					case 2:
						if sh, ok := vfParseHello(h.Body, false); ok && w.From == "s" {
							out.HasSH = true
							out.AnsweredSID, out.SHRandom = append([]byte(nil), sh.SID...), append([]byte(nil), sh.Random...)
						}
					case 11:
						if w.From == "s" {
							out.HasCert = true
						}
					case 14:
						out.HasSHD = true
					}
				}
			}
		}
	}
	out.Storm = n.Storm()
	p.Close()
	synctest.Wait()

	return out
}

const vfC14ClientKey = vfServerAddr + "_" + vfServerName

func vfC14ClientEntry(cS *vfMemStore) Session { return cS.Snapshot()[vfC14ClientKey] }

// vfC14Tamper rewrites every unfragmented plaintext hello of type typ sent by `from`.
func vfC14Tamper(from string, typ uint8, rewrite string, cidLen int) func(n *vfNet) {
	if cidLen < 0 {
		cidLen = 0
	}
	var rw *vfRewrite
	for _, r := range vfHelloRewrites() {
		if r.Name == rewrite {
			r := r
			rw = &r
		}
	}

	return func(n *vfNet) {
		n.onSend = func(n *vfNet, w *vfWire) {
			src := vfAddrOf(w.From)
			recs, ok := vfParseDatagram(w.Data, cidLen)
			if !ok || w.From != from || rw == nil {
				n.Deliver(w.Dst, w.Data, src)

				return
			}
			var dg []byte
			for _, rc := range recs {
				if rc.Unified || rc.Type != 22 || rc.Epoch != 0 {
					dg = append(dg, rc.Raw...)

					continue
				}
				var nb []byte
				body := rc.Body
				for len(body) > 0 {
					h, rest, okh := vfParseHS(body)
					if !okh {
						nb = append(nb, body...)

						break
					}
					hb := h.Body
					if h.Type == typ && h.FragOff == 0 && h.FragLen == h.Length {
						if x := rw.F(h.Type, append([]byte(nil), h.Body...)); x != nil {
							hb = x
						}
					}
					if h.FragOff == 0 && h.FragLen == h.Length {
						nb = append(nb, vfHSFragment(h.Type, uint32(len(hb)), h.MsgSeq, 0, uint32(len(hb)), hb)...)
					} else {
						nb = append(nb, body[:len(body)-len(rest)]...)
					}
					body = rest
				}
				dg = append(dg, vfLegacyRecord(22, rc.Version, 0, rc.Seq, nil, -1, nb)...)
			}
			n.Deliver(w.Dst, dg, src)
		}
	}
}

func vfC14Run(t *testing.T, res *vfResult, c vfC14Case) {
	res.Eval(1)
	replay := map[string]any{"case": c}
	cS, sS := vfNewMemStore("c"), vfNewMemStore("s")
	first := vfC14Cfg(c.Cfg, "same")
	c1 := vfC14Connect(first, cS, sS, nil, false)
	if !c1.CompletedBoth {
		res.Count("first_connection_failed", 1)
		res.Seen("first_connection_failures", c.Cfg+": "+vfErrNorm(c1.CErr)+" / "+vfErrNorm(c1.SErr))

		return
	}
	orig := vfC14ClientEntry(cS)
	if len(orig.ID) == 0 || len(sS.Snapshot()[string(orig.ID)].Secret) == 0 {
		res.Count("first_connection_stored_nothing", 1)
		res.Seen("stored_nothing", c.Cfg)

		return
	}
	if !bytes.Equal(orig.Secret, sS.Snapshot()[string(orig.ID)].Secret) {
		res.Violate("C14:stores-disagree-after-full-handshake:"+c.Cfg, "after a successful full handshake client and server stored different secrets for session "+vfHex(orig.ID)+"; "+c.ID(), replay)
	}
	// a second, unrelated session in both stores (another client) for the swap manipulations
	var other Session
	if strings.Contains(c.Manip, "swapped") || strings.Contains(c.Manip, "other-session") {
		cS2 := vfNewMemStore("c2")
		if o := vfC14Connect(first, cS2, sS, nil, false); o.CompletedBoth {
			other = vfC14ClientEntry(cS2)
		}
		if len(other.ID) == 0 || bytes.Equal(other.ID, orig.ID) {
			res.Count("no_second_session_for_swap", 1)

			return
		}
	}
	flip := func(b []byte) []byte { n := append([]byte(nil), b...); n[len(n)/2] ^= 0x10; return n }
	var install func(n *vfNet)
	switch c.Manip {
	case "untouched":
	case "server-forgot":
		_ = sS.Del(orig.ID)
	case "server-miss-as-empty-session":
		// the server's store no longer has the session and reports a miss as an empty, non-nil Session; the client
		// (anybody: it needs no secret) offers the id with an empty master secret
		_ = sS.Del(orig.ID)
		sS.EmptyMiss = true
		_ = cS.Set([]byte(vfC14ClientKey), Session{ID: orig.ID, Secret: []byte{}})
	case "client-forgot":
		_ = cS.Del([]byte(vfC14ClientKey))
	case "client-secret-bitflip":
		_ = cS.Set([]byte(vfC14ClientKey), Session{ID: orig.ID, Secret: flip(orig.Secret)})
	case "server-secret-bitflip":
		_ = sS.Set(orig.ID, Session{ID: orig.ID, Secret: flip(orig.Secret)})
	case "both-secrets-same-bitflip":
		_ = cS.Set([]byte(vfC14ClientKey), Session{ID: orig.ID, Secret: flip(orig.Secret)})
		_ = sS.Set(orig.ID, Session{ID: orig.ID, Secret: flip(orig.Secret)})
	case "client-secret-truncated":
		_ = cS.Set([]byte(vfC14ClientKey), Session{ID: orig.ID, Secret: orig.Secret[:len(orig.Secret)-1]})
	case "server-secret-truncated":
		_ = sS.Set(orig.ID, Session{ID: orig.ID, Secret: orig.Secret[:len(orig.Secret)-1]})
	case "server-secret-extended":
		// (a zero byte would be no mismatch: HMAC pads a short key with zeros, so secret||0x00 keys the PRF identically)
		_ = sS.Set(orig.ID, Session{ID: orig.ID, Secret: append(append([]byte(nil), orig.Secret...), 1)})
	case "server-secrets-swapped":
		_ = sS.Set(orig.ID, Session{ID: orig.ID, Secret: other.Secret})
		_ = sS.Set(other.ID, Session{ID: other.ID, Secret: orig.Secret})
	case "client-secret-of-other-session":
		_ = cS.Set([]byte(vfC14ClientKey), Session{ID: orig.ID, Secret: other.Secret})
	case "client-id-unknown":
		_ = cS.Set([]byte(vfC14ClientKey), Session{ID: flip(orig.ID), Secret: orig.Secret})
	case "tamper-clienthello":
		install = vfC14Tamper("c", 1, "suites-append", vfC14Cfg(c.Cfg, c.Second).CIDs)
	case "tamper-serverhello":
		install = vfC14Tamper("s", 2, "ext-append-unknown", vfC14Cfg(c.Cfg, c.Second).CIDc)
	}
	if c.Mask != "" {
		r := vfRand("C14/mask", c.Idx)
		m := vfRandMask(r, 6, 0.4, c.Mask)
		install = func(n *vfNet) { m.Install(n) }
		replay["mask"] = m.String()
	}
	cPre := vfC14ClientEntry(cS)
	sPre := sS.Snapshot()[string(cPre.ID)]
	// HMAC pads a key shorter than its block with zeros, so two master secrets that differ only in trailing zero
	// bytes key the PRF identically (a truncation that happens to drop a 0x00 is no mismatch)
	secretsAgree := len(cPre.Secret) > 0 && bytes.Equal(bytes.TrimRight(cPre.Secret, "\x00"), bytes.TrimRight(sPre.Secret, "\x00"))
	second := vfC14Cfg(c.Cfg, c.Second)
	// a store may hand out its own slices (a plain in-memory map does); what it handed out is the application's data
	var lent, lentCopy []byte
	if c.Manip == "server-forgot" || c.Manip == "client-id-unknown" || c.Manip == "untouched" {
		cS.mu.Lock()
		cS.Alias = true
		lent = cS.m[vfC14ClientKey].Secret
		lentCopy = append([]byte(nil), lent...)
		cS.mu.Unlock()
	}
	c2 := vfC14Connect(second, cS, sS, install, true)
	if lent != nil && !bytes.Equal(lent, lentCopy) {
		res.Violate("C14:stored-secret-modified-in-place:"+c.Manip,
			fmt.Sprintf("%s: the master secret the client's store handed to the library (%s...) reads %s... after the connection: the library wrote into the store's memory, the session would next be offered with another secret than the one stored", c.ID(), vfHex(lentCopy[:4]), vfHex(lent[:4])), replay)
	}
	cS.mu.Lock()
	cS.Alias = false
	cS.mu.Unlock()
	res.NonTrivial(c.ID())
	res.Count("second_connections_judged", 1)
	abbreviated := c2.HasSH && !c2.HasSHD && !c2.HasCert
	outcome := "failed"
	switch {
	case c2.CompletedBoth && abbreviated:
		outcome = "abbreviated"
	case c2.CompletedBoth:
		outcome = "full"
	case (c2.CErr == nil) != (c2.SErr == nil):
		outcome = "one-sided"
	}
	res.Seen("outcomes", c.Manip+"/"+c.Second+" -> "+outcome)
	res.Count("outcome/"+outcome, 1)
	describe := func() string {
		return fmt.Sprintf("%s; offered=%x answered=%x client=%v server=%v; stores before: client{%x,%s} server{%s}; wire: %v",
			c.ID(), c2.OfferedSID, c2.AnsweredSID, vfErrNorm(c2.CErr), vfErrNorm(c2.SErr), cPre.ID, vfShortHash(string(cPre.Secret)),
			vfShortHash(string(sPre.Secret)), c2.WireSummary)
	}
	tampered := strings.HasPrefix(c.Manip, "tamper-")
	switch outcome {
	case "abbreviated":
		if !secretsAgree {
			res.Violate("C14:abbreviated-handshake-with-mismatched-secrets:"+c.Manip,
				"both sides completed an abbreviated handshake although their stores held different secrets for the offered session: "+describe(), replay)
		}
		if tampered {
			res.Violate("C14:abbreviated-handshake-despite-rewritten-hello:"+c.Manip,
				"both sides completed an abbreviated handshake although a hello was rewritten in transit (Finished not verified?): "+describe(), replay)
		}
		if !bytes.Equal(c2.OfferedSID, cPre.ID) || !bytes.Equal(c2.AnsweredSID, cPre.ID) {
			res.Violate("C14:abbreviated-handshake-on-other-session-id", "the resumed session is not the one the client's store held: "+describe(), replay)
		}
		if !bytes.Equal(c2.CSession, c2.SSession) || !bytes.Equal(c2.CSession, cPre.ID) {
			res.Violate("C14:session-id-api-disagrees", fmt.Sprintf("ConnectionState().SessionID client=%x server=%x, resumed id %x: %s", c2.CSession, c2.SSession, cPre.ID, describe()), replay)
		}
		if bytes.Equal(c2.CHRandom, c1.CHRandom) || bytes.Equal(c2.SHRandom, c1.SHRandom) {
			res.Violate("C14:resumed-connection-reuses-random", "a hello random of the resumed connection equals the original connection's: "+describe(), replay)
		}
		if c2.Exporter != "" && c2.Exporter == c1.Exporter {
			res.Violate("C14:resumed-connection-reuses-keys", "the resumed connection exports the same keying material as the original (keys not fresh): "+describe(), replay)
		}
		res.Count("abbreviated_agreeing", 1)
	case "full":
		if c.Manip == "untouched" && c.Second == "same" && c.Mask == "" {
			res.Count("untouched_but_full_handshake", 1)
		}
		res.Count("fallback_full", 1)
	case "one-sided":
		if c.Mask == "" {
			res.Violate("C14:one-sided-completion:"+c.Manip, "one side reports an established connection, the other failed: "+describe(), replay)
		} else {
			res.Count("one_sided_under_faults", 1)
		}
	}
	if c2.CompletedBoth {
		if c2.RoundTrip != "" && !c2.Storm {
			res.Violate("C14:established-but-no-data:"+outcome+":"+c.Manip, "both sides completed but application data does not flow ("+c2.RoundTrip+"): "+describe(), replay)
		}
		// freshly negotiated connection IDs: the second connection's configuration decides, not the first's
		want := func(n int) int {
			if n < 0 {
				return 0
			}

			return n
		}
		// a CID is used towards a peer only when both sides sent the extension
		bothOffer := second.CIDc >= 0 && second.CIDs >= 0
		cl, sl := 0, 0
		if bothOffer {
			cl, sl = want(second.CIDc), want(second.CIDs)
		}
		if len(c2.CLocalCID)/2 != cl || len(c2.SLocalCID)/2 != sl || c2.CLocalCID != c2.SRemoteCID || c2.SLocalCID != c2.CRemoteCID {
			res.Violate("C14:connection-ids-not-renegotiated:"+outcome+":"+c.Second,
				fmt.Sprintf("connection IDs after the second handshake (client local %s remote %s, server local %s remote %s) are not the ones its hellos negotiated (lengths %d/%d): %s",
					c2.CLocalCID, c2.CRemoteCID, c2.SLocalCID, c2.SRemoteCID, cl, sl, describe()), replay)
		}
		if !bothOffer && c2.CIDRecords > 0 {
			res.Violate("C14:cid-records-without-negotiation:"+outcome+":"+c.Second, fmt.Sprintf("%d tls12_cid records on the wire although the second handshake negotiated no connection ID: %s", c2.CIDRecords, describe()), replay)
		}
		res.Count("cid_layouts_checked", 1)
	}
	// "a session on which an endpoint sent a fatal alert is no longer offered from that endpoint's store"
	cPost := vfC14ClientEntry(cS)
	usedOffered := len(c2.OfferedSID) > 0 && bytes.Equal(c2.AnsweredSID, c2.OfferedSID)
	// "If the server does not know the session ... the endpoints fall back to a full handshake or fail": a server whose
	// store holds no secret for the offered id never answers with that id (the start of an abbreviated handshake)
	if usedOffered && len(sPre.Secret) == 0 && !tampered {
		res.Violate("C14:server-resumes-session-it-does-not-know:"+c.Manip,
			"the server's store held no secret for the offered session, yet its ServerHello accepted that session id: "+describe(), replay)
	}
	if c2.CErr != nil && c2.AlertsC > 0 && usedOffered {
		res.Count("client_alerted_on_resumed_session", 1)
		if bytes.Equal(cPost.ID, c2.OfferedSID) {
			res.Violate("C14:session-still-in-client-store-after-fatal-alert:"+c.Manip,
				"the client sent an alert on the resumed session and failed, yet its store still holds that session: "+describe(), replay)
		}
	}
	if c2.SErr != nil && c2.AlertsS > 0 && usedOffered {
		res.Count("server_alerted_on_resumed_session", 1)
		if _, still := sS.Snapshot()[string(c2.OfferedSID)]; still {
			res.Violate("C14:session-still-in-server-store-after-fatal-alert:"+c.Manip,
				"the server sent an alert on the resumed session and failed, yet its store still holds that session: "+describe(), replay)
		}
	}
	// third connection: whatever happened, the stores must lead to a connection that is keyed consistently
	c3 := vfC14Connect(first, cS, sS, nil, true)
	res.Count("third_connections_judged", 1)
	if c2.CErr != nil && c2.AlertsC > 0 && usedOffered && bytes.Equal(c3.OfferedSID, c2.OfferedSID) {
		res.Violate("C14:session-offered-again-after-fatal-alert:"+c.Manip,
			fmt.Sprintf("the client offered session %x again although it had sent a fatal alert on it: %s", c3.OfferedSID, describe()), replay)
	}
	if c3.CompletedBoth {
		if c3.RoundTrip != "" && !c3.Storm {
			res.Violate("C14:established-but-no-data:third:"+c.Manip, "third connection completed but application data does not flow ("+c3.RoundTrip+"): "+describe(), replay)
		}
		res.Count("third_completed", 1)
	} else {
		res.Seen("third_connection_failures", c.Manip+": "+vfErrNorm(c3.CErr)+" / "+vfErrNorm(c3.SErr))
	}
	if res.Get("samples_taken") < 8 {
		res.Count("samples_taken", 1)
		res.Sample(map[string]any{"case": c.ID(), "second": outcome, "secrets_agree": secretsAgree, "offered": vfHex(c2.OfferedSID),
			"answered": vfHex(c2.AnsweredSID), "wire": c2.WireSummary, "client_store_log": cS.LogString(), "server_store_log": sS.LogString()})
	}
}

// vfC14ForgedFinished: both stores hold the session; on the second connection one side sends its Finished in a
// correctly protected record but with a verify_data that is not the right twelve bytes (empty, a proper prefix of
// the right value, one byte longer, last byte flipped). "Each verifies the other's Finished": the other side must
// not report an established connection.
func vfC14ForgedFinished(t *testing.T, res *vfResult, cfgName, forger, kind string) {
	res.Eval(1)
	id := fmt.Sprintf("forged-finished|%s|by=%s|%s", cfgName, forger, kind)
	replay := map[string]any{"forged_finished": id}
	vfInstallFilter()
	cS, sS := vfNewMemStore("c"), vfNewMemStore("s")
	cfg := vfC14Cfg(cfgName, "same")
	if c1 := vfC14Connect(cfg, cS, sS, nil, false); !c1.CompletedBoth {
		res.Count("first_connection_failed", 1)

		return
	}
	script := &vfFlightScript{EditFinished: func(vd []byte) []byte {
		switch kind {
		case "empty":
			return []byte{}
		case "prefix-4":
			return vd[:min(4, len(vd))]
		case "prefix-11":
			return vd[:min(11, len(vd))]
		case "one-byte-longer":
			return append(vd, 0)
		case "last-byte-flipped":
			if len(vd) > 0 {
				vd[len(vd)-1] ^= 1
			}
		}

		return vd
	}}
	c2 := vfC14ConnectPrep(cfg, cS, sS, nil, false, func(p *vfPair) func() {
		side, _ := vfSideOf(p, forger)
		key := side.Conn.handshakeConfig
		vfScripts.Store(key, script)

		return func() { vfScripts.Delete(key) }
	})
	script.mu.Lock()
	applied := script.applied
	script.mu.Unlock()
	resumed := len(c2.OfferedSID) > 0 && bytes.Equal(c2.AnsweredSID, c2.OfferedSID)
	res.NonTrivial(id)
	if applied == 0 {
		res.Count("forged_finished_not_applied", 1)

		return
	}
	res.Count("forged_finished_sessions", 1)
	if resumed {
		res.Count("forged_finished_on_abbreviated_handshake", 1)
	}
	verifierErr, verifier := c2.SErr, "server"
	if forger == "s" {
		verifierErr, verifier = c2.CErr, "client"
	}
	if kind == "genuine" {
		if !c2.CompletedBoth {
			res.Violate("C14:forged-finished:control-failed", fmt.Sprintf("%s: the unmodified Finished was refused: client=%v server=%v", id, c2.CErr, c2.SErr), replay)
		}

		return
	}
	if verifierErr == nil {
		res.Violate(fmt.Sprintf("C14:finished-not-verified:%s:%s:resumed=%v", verifier, kind, resumed),
			fmt.Sprintf("%s: the %s reported an established connection although the peer's Finished carried a verify_data that is not the expected value (%s); wire: %v",
				id, verifier, kind, c2.WireSummary), replay)
	} else {
		res.Count("forged_finished_refused", 1)
	}
}

// vfC14FatalOnEstablished: a session established by a full handshake and held in both stores; later the victim is
// made to send a fatal alert on that connection (unprotected application data arrives). From then on the victim's
// store must not hold the session, whatever version range the victim was configured with.
func vfC14FatalOnEstablished(t *testing.T, res *vfResult, cfgName, victim string, dual, migrate bool) {
	res.Eval(1)
	id := fmt.Sprintf("fatal-on-established|%s|victim=%s|dualstack=%v|peer-moved=%v", cfgName, victim, dual, migrate)
	replay := map[string]any{"fatal_on_established": id}
	cS, sS := vfNewMemStore("c"), vfNewMemStore("s")
	cfg := vfC14Cfg(cfgName, "same")
	if dual {
		// the victim accepts 1.2 and 1.3, its peer only 1.2: DTLS 1.2 is negotiated
		if victim == "s" {
			cfg.CVer, cfg.SVer = "12", "dual"
		} else {
			cfg.CVer, cfg.SVer = "dual", "12"
		}
		cfg.Suite = vfSuiteInfo{Name: "default", Auth: "ecdsa"}
	}
	n := vfNewNet()
	co, so := cfg.Options(cS, sS)
	p, err := vfNewPair(n, co, so)
	if err != nil {
		res.Count("config_rejected", 1)

		return
	}
	if ce, se := p.Handshake(2 * time.Minute); ce != nil || se != nil {
		res.Count("first_connection_failed", 1)
		res.Seen("first_connection_failures", id+": "+vfErrNorm(ce)+" / "+vfErrNorm(se))
		p.Close()
		synctest.Wait()

		return
	}
	if vfIs13(p.C.Conn) {
		res.Count("fatal_on_established_negotiated_13", 1)
		p.Close()
		synctest.Wait()

		return
	}
	st, _ := p.C.Conn.ConnectionState()
	sid := append([]byte(nil), st.SessionID...)
	held := func() bool {
		if victim == "s" {
			_, ok := sS.Snapshot()[string(sid)]

			return ok
		}

		return bytes.Equal(vfC14ClientEntry(cS).ID, sid)
	}
	if len(sid) == 0 || !held() {
		res.Count("fatal_on_established_nothing_stored", 1)
		p.Close()
		synctest.Wait()

		return
	}
	p.C.StartPump()
	p.S.StartPump()
	v, peer := vfSideOf(p, victim)
	peerAddr := peer.EP.addr
	if migrate {
		// the peer's address changes (NAT rebinding); with connection IDs and return routability the victim validates
		// the new path and from then on sends there
		peerAddr = vfAddr("10.0.0.9:9999")
		n.Alias(string(peerAddr), peer.EP)
		n.SetOnSend(func(n *vfNet, w *vfWire) {
			from := vfAddrOf(w.From)
			if w.From == peer.Name {
				from = peerAddr
			}
			n.Deliver(w.Dst, w.Data, from)
		})
		for k := 0; k < 3; k++ {
			_, _ = peer.Conn.Write([]byte(fmt.Sprintf("from the new address %d", k)))
			time.Sleep(200 * time.Millisecond)
			synctest.Wait()
		}
		if v.Conn.RemoteAddr().String() != string(peerAddr) {
			res.Count("fatal_on_established_migration_not_followed", 1)
			p.Close()
			synctest.Wait()

			return
		}
		res.Count("fatal_on_established_after_peer_moved", 1)
	}
	before := len(n.Emissions(v.Name))
	// the peer's (correctly protected) record carries an alert whose body does not decode: the victim answers with a
	// fatal decode_error. (An unprotected record would be discarded without effect on a protected association.)
	tk, terr := vfNewToolkit(p)
	if terr != nil {
		res.Count("toolkit_unavailable", 1)
		p.Close()
		synctest.Wait()

		return
	}
	ep, first := tk.reserve(peer.Name, 4)
	rec, serr := tk.Seal(peer.Name, ep, first, 21, []byte{2, 40, 0}, 0x5151)
	if serr != nil {
		res.Count("toolkit_unavailable", 1)
		p.Close()
		synctest.Wait()

		return
	}
	n.Deliver(string(v.EP.addr), rec, peerAddr)
	time.Sleep(100 * time.Millisecond)
	synctest.Wait()
	// (with connection IDs the alert leaves as a tls12_cid record: what is observable is that the victim emitted
	// something in answer and closed its connection, which only a fatal alert of its own does here)
	fatal := len(n.Emissions(v.Name)) > before && (v.Conn.isConnectionClosed() || v.EP.IsClosed() || v.PumpErr() != nil)
	res.NonTrivial(id)
	if !fatal {
		res.Count("fatal_on_established_no_fatal_alert_provoked", 1)
		p.Close()
		synctest.Wait()

		return
	}
	res.Count("fatal_alerts_provoked_on_established_sessions", 1)
	if held() {
		res.Violate(fmt.Sprintf("C14:session-still-in-%s-store-after-fatal-alert:established:dualstack=%v:peer-moved=%v", map[string]string{"c": "client", "s": "server"}[victim], dual, migrate),
			fmt.Sprintf("%s: the %s sent a fatal alert on the connection of session %x, yet its store still holds that session", id, v.Name, sid), replay)
	}
	p.Close()
	synctest.Wait()
}

// vfBadAlert marshals as an alert record whose body does not decode (three bytes).
type vfBadAlert struct{}

func (vfBadAlert) ContentType() protocol.ContentType { return protocol.ContentTypeAlert }
func (vfBadAlert) Marshal() ([]byte, error)          { return []byte{2, 40, 0}, nil }
func (vfBadAlert) Unmarshal([]byte) error            { return nil }

// vfC14FatalOnImported: the endpoint that sends the fatal alert is a connection imported with ResumeWithOptions (given
// its session store again). "A session on which an endpoint sent a fatal alert is no longer offered from that endpoint's
// store" holds for it as for any other connection of that session.
func vfC14FatalOnImported(t *testing.T, res *vfResult, cfgName, victim string) {
	res.Eval(1)
	id := fmt.Sprintf("fatal-on-imported|%s|victim=%s", cfgName, victim)
	replay := map[string]any{"fatal_on_imported": id}
	cS, sS := vfNewMemStore("c"), vfNewMemStore("s")
	cfg := vfC14Cfg(cfgName, "same")
	co, so := cfg.Options(cS, sS)
	w := &vfC19World{n: vfNewNet(), cfg: cfg}
	w.c = &vfC19Peer{name: "c", raddr: vfAddr(vfServerAddr)}
	w.s = &vfC19Peer{name: "s", raddr: vfAddr(vfClientAddr)}
	w.c.ep, w.s.ep = w.n.Endpoint("c", vfClientAddr), w.n.Endpoint("s", vfServerAddr)
	w.c.sock, w.s.sock = &vfDetach{ep: w.c.ep}, &vfDetach{ep: w.s.ep}
	var err error
	if w.c.conn, err = ClientWithOptions(w.c.sock, w.c.raddr, co...); err != nil {
		res.Count("config_rejected", 1)

		return
	}
	if w.s.conn, err = ServerWithOptions(w.s.sock, w.s.raddr, so...); err != nil {
		res.Count("config_rejected", 1)

		return
	}
	var wg sync.WaitGroup
	var ce, se error
	wg.Add(2)
	go func() {
		defer wg.Done()
		_ = w.c.conn.SetDeadline(time.Now().Add(time.Minute))
		ce = w.c.conn.Handshake()
	}()
	go func() {
		defer wg.Done()
		_ = w.s.conn.SetDeadline(time.Now().Add(time.Minute))
		se = w.s.conn.Handshake()
	}()
	wg.Wait()
	if ce != nil || se != nil {
		res.Count("first_connection_failed", 1)
		w.close()

		return
	}
	_ = w.c.conn.SetDeadline(time.Time{})
	_ = w.s.conn.SetDeadline(time.Time{})
	w.c.pump()
	w.s.pump()
	st, _ := w.c.conn.ConnectionState()
	sid := append([]byte(nil), st.SessionID...)
	held := func() bool {
		if victim == "s" {
			_, ok := sS.Snapshot()[string(sid)]

			return ok
		}

		return bytes.Equal(vfC14ClientEntry(cS).ID, sid)
	}
	if len(sid) == 0 || !held() {
		res.Count("fatal_on_imported_nothing_stored", 1)
		w.close()

		return
	}
	x, y := w.c, w.s
	store := cS
	if victim == "s" {
		x, y = w.s, w.c
		store = sS
	}
	// (resumed with the options that identify the session in the store: the store itself and, for a client, the
	// server name its sessions are filed under)
	w.resumeOpts = []Option{WithSessionStore(store)}
	if victim == "c" {
		w.resumeOpts = append(w.resumeOpts, WithServerName(vfServerName))
	}
	if _, _, stage, xerr := w.export(x, nil); xerr != nil {
		res.Count("fatal_on_imported_export_failed/"+stage, 1)
		w.close()

		return
	}
	if msg, _ := w.send(y, "to-imported"); msg != "" {
		res.Count("fatal_on_imported_no_data_after_import", 1)
		w.close()

		return
	}
	before := len(w.n.Emissions(x.name))
	// the peer's correctly protected record carries an alert that does not decode: the imported endpoint answers with a
	// fatal decode_error
	werr := y.conn.writePackets(context.Background(), []*dtlsflight.Packet{{
		Record:        &recordlayer.RecordLayer{Header: recordlayer.Header{Epoch: vfCommon(y.conn).LocalEpoch(), Version: protocol.Version1_2}, Content: vfBadAlert{}},
		ShouldWrapCID: len(vfCommon(y.conn).RemoteConnectionID) > 0,
		ShouldEncrypt: true,
	}})
	time.Sleep(200 * time.Millisecond)
	synctest.Wait()
	res.NonTrivial(id)
	// (nothing else makes the silent imported endpoint emit: the record it sent in answer is its fatal alert)
	if len(w.n.Emissions(x.name)) == before {
		res.Count("fatal_on_imported_no_fatal_alert_provoked", 1)
		res.Seen("fatal_on_imported_not_provoked", fmt.Sprintf("%s: write err %v, emitted %d, closed %v", id, werr, len(w.n.Emissions(x.name))-before, x.conn.isConnectionClosed()))
		w.close()

		return
	}
	res.Count("fatal_alerts_provoked_on_imported_connections", 1)
	if held() {
		res.Violate(fmt.Sprintf("C14:session-still-in-%s-store-after-fatal-alert:imported-connection", map[string]string{"c": "client", "s": "server"}[victim]),
			fmt.Sprintf("%s: the imported %s (resumed with its session store) sent a fatal alert on the connection of session %x, yet its store still holds that session", id, x.name, sid), replay)
	}
	w.close()
}

// vfC14AfterClientCertificate: the first connection authenticated the client by certificate (requested, required or
// verified). An abbreviated handshake carries no certificate, so resuming that session would let the second connection
// past the server's client-authentication policy unseen: the second connection is a full handshake (the server does
// not keep such a session), or fails.
func vfC14AfterClientCertificate(t *testing.T, res *vfResult, policy ClientAuthType) {
	res.Eval(1)
	cS, sS := vfNewMemStore("c"), vfNewMemStore("s")
	cfg := vfC14Cfg("ecdsa", "same")
	cfg.ClientAuth, cfg.ClientCert = policy, true
	cfg.Verify = policy >= VerifyClientCertIfGiven
	id := fmt.Sprintf("after-client-certificate|policy%d", policy)
	c1 := vfC14Connect(cfg, cS, sS, nil, false)
	if !c1.CompletedBoth {
		res.Count("after_client_certificate_setup_failed", 1)
		res.Seen("after_client_certificate_failures", id+": "+vfErrNorm(c1.CErr)+" / "+vfErrNorm(c1.SErr))

		return
	}
	c2 := vfC14Connect(cfg, cS, sS, nil, true)
	res.NonTrivial(id)
	res.Count("after_client_certificate_cases", 1)
	abbreviated := c2.HasSH && !c2.HasSHD && !c2.HasCert
	res.Seen("after_client_certificate_outcomes", fmt.Sprintf("%s: completed=%v abbreviated=%v server store entries=%d", id, c2.CompletedBoth, abbreviated, sS.Len()))
	if c2.CompletedBoth && abbreviated {
		res.Violate(fmt.Sprintf("C14:abbreviated-handshake-after-client-certificate:policy%d", policy),
			fmt.Sprintf("%s: the first connection presented a client certificate; the second one was resumed (session %x) without any certificate exchange although the server's policy asks for one on every connection", id, c2.AnsweredSID),
			map[string]any{"after_client_cert": int(policy)})
	}
}

func vfC14Cases() []vfC14Case {
	var out []vfC14Case
	idx := 0
	for _, cfg := range []string{"psk", "ecdsa", "ecdsa-cid", "rsa-verify", "ecdsa-nohv"} {
		for _, m := range vfC14Manips {
			seconds := []string{"same"}
			if m == "untouched" || m == "server-forgot" {
				seconds = []string{"same", "other-suite", "cid-changed", "cid-dropped", "cid-added"}
			}
			for _, s := range seconds {
				if strings.HasPrefix(s, "cid-") && cfg != "ecdsa-cid" && s != "cid-added" {
					continue
				}
				out = append(out, vfC14Case{Cfg: cfg, Manip: m, Second: s, Idx: idx})
				idx++
			}
		}
	}
	nMask := vfPick(60, 6000)
	for i := 0; i < nMask; i++ {
		cfg := []string{"psk", "ecdsa", "ecdsa-cid", "rsa-verify", "ecdsa-nohv"}[i%5]
		out = append(out, vfC14Case{Cfg: cfg, Manip: "untouched", Second: "same", Mask: []string{"x", "x2", "x2sh3"}[i%3], Idx: idx})
		idx++
	}

	return out
}

func TestVF_C14(t *testing.T) {
	vfGetPKI()
	res := vfNewResult("C14", "histories of three connections over shared instrumented session stores: full handshake, then the stores are manipulated "+
		"(forgotten, secret bit-flipped/truncated/extended on either side, secrets swapped between two sessions, unknown id) or the second connection's hellos "+
		"are rewritten in transit or its datagrams dropped/duplicated/reordered, also with another suite or other connection-ID layout; the second "+
		"connection is classified on the wire (abbreviated/full) and judged against the store contents; a third connection follows. Distinct = (configuration, manipulation, second layout, mask)")
	res.Assume("resuming under another cipher suite with the same master secret is not a mismatch in the statement's sense: counted, not judged",
		"alert records are counted per sender (an encrypted alert's level is not readable); the store clause is judged only when the failing side emitted one on the resumed session")
	if vfEnv().Replay != "" {
		var rf struct {
			Replay struct {
				Case vfC14Case `json:"case"`
			} `json:"replay"`
		}
		vfLoadReplay(t, &rf)
		vfDumpWire = true
		synctest.Test(t, func(t *testing.T) { vfC14Run(t, res, rf.Replay.Case) })
		res.NonTrivial("replay-extra")
		res.Sample("replay")
		res.Finish(t)

		return
	}
	cases := vfC14Cases()
	vfBubbles(t, len(cases), func(t *testing.T, i int) { vfC14Run(t, res, cases[i]) })
	type ff struct{ cfg, forger, kind string }
	var ffs []ff
	for _, cfg := range []string{"psk", "ecdsa", "ecdsa-cid", "rsa-verify"} {
		for _, forger := range []string{"c", "s"} {
			for _, kind := range []string{"genuine", "empty", "prefix-4", "prefix-11", "one-byte-longer", "last-byte-flipped"} {
				ffs = append(ffs, ff{cfg, forger, kind})
			}
		}
	}
	vfBubbles(t, len(ffs), func(t *testing.T, i int) { vfC14ForgedFinished(t, res, ffs[i].cfg, ffs[i].forger, ffs[i].kind) })
	type fe struct {
		cfg, victim string
		dual        bool
		migrate     bool
	}
	var fes []fe
	for _, cfg := range []string{"ecdsa", "ecdsa-cid", "ecdsa-nohv"} {
		for _, victim := range []string{"c", "s"} {
			for _, dual := range []bool{false, true} {
				fes = append(fes, fe{cfg, victim, dual, false})
				if cfg == "ecdsa-cid" {
					fes = append(fes, fe{cfg, victim, dual, true})
				}
			}
		}
	}
	vfBubbles(t, len(fes), func(t *testing.T, i int) {
		vfC14FatalOnEstablished(t, res, fes[i].cfg, fes[i].victim, fes[i].dual, fes[i].migrate)
	})
	pols := []ClientAuthType{RequestClientCert, RequireAnyClientCert, VerifyClientCertIfGiven, RequireAndVerifyClientCert}
	vfBubbles(t, len(pols), func(t *testing.T, i int) { vfC14AfterClientCertificate(t, res, pols[i]) })
	fis := [][2]string{{"ecdsa", "c"}, {"ecdsa", "s"}, {"ecdsa-cid", "c"}, {"ecdsa-cid", "s"}, {"psk", "s"}}
	vfBubbles(t, len(fis), func(t *testing.T, i int) { vfC14FatalOnImported(t, res, fis[i][0], fis[i][1]) })
	res.Floor("fatal_alerts_provoked_on_imported_connections", 3)
	res.Floor("fatal_alerts_provoked_on_established_sessions", 6)
	res.Floor("abbreviated_agreeing", 20)
	res.Floor("fallback_full", 5)
	res.Floor("second_connections_judged", int64(len(cases)*8/10))
	res.Finish(t)
}
