//go:build verif

package dtls

// C09 Nonce uniqueness. Monitor: every record an endpoint emits is decoded from the wire log
// (DTLS 1.2: epoch/sequence in clear; DTLS 1.3: unmasked and authenticated with the sender's
// own write generations) and checked for (a) no repeated (epoch, seq), (b) strictly increasing
// sequence numbers per epoch in emission order, (c) seq < 2^48.

import (
	"bytes"
	"context"
	"errors"
	"fmt"
	"strings"
	"sync"
	"sync/atomic"
	"testing"
	"testing/synctest"
	"time"

	dtlsstate "github.com/pion/dtls/v3/internal/state"
	"github.com/pion/dtls/v3/internal/verifhook"
	"github.com/pion/dtls/v3/pkg/protocol/recordlayer"
)

type vfSeqObs struct {
	Epoch uint16
	Seq   uint64
	Idx   int // emission index of the datagram
	Kind  string
}

// vfDecodeSeqs returns the (epoch, seq) of every record in the emissions of one endpoint.
// conn is the sender (for DTLS 1.3 keys); peerCIDLen is the CID length on records it sends.
func vfDecodeSeqs(ems []*vfWire, sender *Conn, peerCIDLen int) (obs []vfSeqObs, undecodable int) {
	var gens []*dtlsstate.TrafficGeneration
	if sender != nil {
		if st13, ok := sender.state.(*dtlsstate.State13); ok && st13.TrafficKeys != nil {
			tk := st13.TrafficKeys.Clone()
			if tk != nil {
				if g, ok := tk.CurrentWrite(); ok {
					gens = append(gens, g)
				}
				for e := uint16(0); e < 64; e++ {
					if g, ok := tk.Write(e); ok {
						dup := false
						for _, x := range gens {
							if x.Epoch == g.Epoch {
								dup = true
							}
						}
						if !dup {
							gens = append(gens, g)
						}
					}
				}
			}
		}
	}
	highest := map[uint16]uint64{}
	seen := map[uint16]bool{}
	for _, w := range ems {
		recs, _ := vfParseDatagram(w.Data, peerCIDLen)
		for _, r := range recs {
			if !r.Unified {
				obs = append(obs, vfSeqObs{Epoch: r.Epoch, Seq: r.Seq, Idx: w.Idx, Kind: fmt.Sprintf("T%d", r.Type)})

				continue
			}
			ok := false
			rec := recordlayer.CiphertextRecord13{}
			if r.CID != nil {
				rec.Header.ConnectionID = make([]byte, len(r.CID))
			}
			if err := rec.Unmarshal(r.Raw); err != nil {
				undecodable++

				continue
			}
			for _, g := range gens {
				if uint8(g.Epoch&3) != uint8(r.Epoch) || g.Protection == nil {
					continue
				}
				clear, err := g.Protection.UnmaskSequenceNumber(rec.Header, rec.EncryptedRecord)
				if err != nil {
					continue
				}
				exp := highest[g.Epoch]
				if seen[g.Epoch] {
					exp++
				}
				seq := vfReconstruct(clear.SequenceNumber, clear.SeqBit, exp)
				if _, err := g.Protection.Open(rec.Header, seq, rec.EncryptedRecord); err != nil {
					continue
				}
				obs = append(obs, vfSeqObs{Epoch: g.Epoch, Seq: seq, Idx: w.Idx, Kind: "U"})
				if !seen[g.Epoch] || seq > highest[g.Epoch] {
					highest[g.Epoch] = seq
				}
				seen[g.Epoch] = true
				ok = true

				break
			}
			if !ok {
				undecodable++
			}
		}
	}

	return obs, undecodable
}

// vfReconstruct: closest full sequence number to expected with the given low bits.
func vfReconstruct(partial uint16, seqBit bool, expected uint64) uint64 {
	bits := uint(8)
	if seqBit {
		bits = 16
	}
	window := uint64(1) << bits
	mask := window - 1
	cand := (expected &^ mask) | (uint64(partial) & mask)
	best := cand
	bestD := vfAbsDiff(cand, expected)
	if cand >= window {
		if d := vfAbsDiff(cand-window, expected); d < bestD {
			best, bestD = cand-window, d
		}
	}
	if d := vfAbsDiff(cand+window, expected); d < bestD {
		best = cand + window
	}

	return best
}

func vfAbsDiff(a, b uint64) uint64 {
	if a > b {
		return a - b
	}

	return b - a
}

// vfNonceVerdict checks uniqueness / monotonicity. Returns a description of the first problem.
func vfNonceVerdict(obs []vfSeqObs) (string, string) {
	last := map[uint16]uint64{}
	seenE := map[uint16]bool{}
	seen := map[[2]uint64]int{}
	for _, o := range obs {
		k := [2]uint64{uint64(o.Epoch), o.Seq}
		if prev, dup := seen[k]; dup {
			return "duplicate", fmt.Sprintf("record (epoch %d, seq %d) emitted twice: datagram #%d and #%d (%s)", o.Epoch, o.Seq, prev, o.Idx, o.Kind)
		}
		seen[k] = o.Idx
		if o.Seq >= 1<<48 {
			return "overflow", fmt.Sprintf("record with sequence number %d >= 2^48 in epoch %d", o.Seq, o.Epoch)
		}
		if seenE[o.Epoch] && o.Seq <= last[o.Epoch] {
			return "non-monotonic", fmt.Sprintf("epoch %d: seq %d emitted after seq %d (datagram #%d)", o.Epoch, o.Seq, last[o.Epoch], o.Idx)
		}
		last[o.Epoch] = o.Seq
		seenE[o.Epoch] = true
	}

	return "", ""
}

func vfCIDLenOf(c *Conn) int { return len(vfCommon(c).LocalConnectionID()) }

// vfNonceCheckPair runs the verdict over both endpoints of a pair and reports into res.
func vfNonceCheckPair(res *vfResult, p *vfPair, scenario string, replay any) {
	for _, side := range []struct {
		s    *vfSide
		peer *vfSide
	}{{p.C, p.S}, {p.S, p.C}} {
		ems := p.Net.Emissions(side.s.Name)
		obs, und := vfDecodeSeqs(ems, side.s.Conn, vfCIDLenOf(side.peer.Conn))
		res.Count("records_decoded", int64(len(obs)))
		res.Count("records_undecodable", int64(und))
		eps := map[uint16]bool{}
		for _, o := range obs {
			eps[o.Epoch] = true
		}
		res.Max("max_epochs_in_one_session", int64(len(eps)))
		if len(obs) > 3 {
			head := []string{}
			for _, o := range obs[:min(len(obs), 12)] {
				head = append(head, fmt.Sprintf("(e%d,s%d,%s)", o.Epoch, o.Seq, o.Kind))
			}
			res.Sample(map[string]any{"scenario": scenario, "endpoint": side.s.Name, "records": len(obs), "epochs": len(eps), "first_records": head})
		}
		if cls, what := vfNonceVerdict(obs); cls != "" {
			ver := vfVerStr(vfCommon(side.s.Conn).LocalVersion)
			cid := "nocid"
			if vfCIDLenOf(side.peer.Conn) > 0 || vfCIDLenOf(side.s.Conn) > 0 {
				cid = "cid"
			}
			res.Violate(fmt.Sprintf("C09:%s:%s:v%s:%s:%s", cls, scenario, ver, cid, side.s.Name), what, replay)
		}
	}
}

// ---------------------------------------------------------------------------------------------

type vfC09Stress struct {
	Name string
	Cfg  vfCfg
}

func vfC09StressCfgs() []vfC09Stress {
	var out []vfC09Stress
	add := func(name string, c vfCfg) { out = append(out, vfC09Stress{name, c}) }
	for _, sn := range []string{"ECDSA-GCM128", "ECDSA-CCM8", "ECDSA-CBC", "ECDSA-CHACHA", "PSK-GCM"} {
		add(sn, vfBaseCfg(vfSuiteByName(sn), "ecdsa"))
	}
	c := vfBaseCfg(vfSuiteByName("ECDSA-GCM128"), "ecdsa")
	c.CIDc, c.CIDs = 4, 4
	add("GCM-cid44", c)
	c = vfBaseCfg(vfSuiteByName("ECDSA-CBC"), "ecdsa")
	c.CIDc, c.CIDs, c.Padding = 8, 0, true
	add("CBC-cid80-pad", c)
	for _, sn := range []string{"13-GCM128", "13-GCM256", "13-CHACHA"} {
		c = vfBaseCfg(vfSuiteByName(sn), "ecdsa")
		c.CVer, c.SVer = "13", "13"
		add(sn, c)
	}
	c = vfBaseCfg(vfSuiteByName("13-GCM128"), "ecdsa")
	c.CVer, c.SVer, c.CIDc, c.CIDs = "13", "13", 4, 8
	add("13-GCM128-cid48", c)

	return out
}

// vfC09StressRun: real scheduler, concurrent writers on both sides, alerts/close at the end,
// key updates for DTLS 1.3, H1 yields between sequence allocation and emission.
func vfC09StressRun(res *vfResult, sc vfC09Stress, iter int) {
	n := vfNewNet()
	co, so := sc.Cfg.Options(nil, nil)
	p, err := vfNewPair(n, co, so)
	if err != nil {
		res.Inconc("stress config rejected: " + err.Error())

		return
	}
	// lossy first seconds so that handshake retransmissions take part
	r := vfRand("C09/stress/"+sc.Name, iter)
	mask := vfRandMask(r, 6, 0.2, "x2")
	mask.Install(n)
	ctx, cancel := context.WithTimeout(context.Background(), 60*time.Second)
	var wg sync.WaitGroup
	wg.Add(2)
	go func() { defer wg.Done(); p.C.Err = p.C.Conn.HandshakeContext(ctx) }()
	go func() { defer wg.Done(); p.S.Err = p.S.Conn.HandshakeContext(ctx) }()
	wg.Wait()
	cancel()
	res.Eval(1)
	if p.C.Err != nil || p.S.Err != nil {
		res.Count("stress_handshake_failed", 1)
		p.Close()

		return
	}
	n.SetOnSend(nil)
	p.C.StartPump()
	p.S.StartPump()
	writers, per := 8, vfPick(60, 200)
	var werrs atomic.Int64
	var ww sync.WaitGroup
	for _, side := range []*vfSide{p.C, p.S} {
		for g := 0; g < writers; g++ {
			ww.Add(1)
			go func(s *vfSide, g int) {
				defer ww.Done()
				for k := 0; k < per; k++ {
					msg := []byte(fmt.Sprintf("%s-%s-%d-%d-%d", sc.Name, s.Name, iter, g, k))
					if _, err := s.Conn.Write(msg); err != nil {
						werrs.Add(1)

						return
					}
				}
			}(side, g)
		}
	}
	if vfIs13(p.C.Conn) {
		for _, side := range []*vfSide{p.C, p.S} {
			ww.Add(1)
			go func(s *vfSide) {
				defer ww.Done()
				for k := 0; k < 3; k++ {
					kctx, kc := context.WithTimeout(context.Background(), 20*time.Second)
					err := s.Conn.UpdateKeys(kctx, KeyUpdateOptions{RequestPeerUpdate: k%2 == 0})
					kc()
					if err != nil {
						res.Count("stress_keyupdate_err", 1)

						return
					}
					res.Count("stress_keyupdates", 1)
				}
			}(side)
		}
	}
	ww.Wait()
	// racing closes from both sides while a last burst of writes is in flight
	var cw sync.WaitGroup
	for _, side := range []*vfSide{p.C, p.S} {
		cw.Add(2)
		go func(s *vfSide) {
			defer cw.Done()
			for k := 0; k < 20; k++ {
				if _, err := s.Conn.Write([]byte("tail")); err != nil {
					return
				}
			}
		}(side)
		go func(s *vfSide) { defer cw.Done(); _ = s.Conn.Close() }(side)
	}
	cw.Wait()
	res.Count("stress_write_errors", werrs.Load())
	res.Count("stress_sessions", 1)
	res.NonTrivial("stress/" + sc.Name + fmt.Sprintf("/%d", iter))
	vfNonceCheckPair(res, p, "stress/"+sc.Name, map[string]any{"scenario": "stress", "cfg": sc.Cfg, "iter": iter})
	// distinct interleavings: fingerprint of the order of (endpoint, epoch) runs in the merged wire log
	fp := ""
	lastKey := ""
	for _, w := range n.Emissions("") {
		recs, _ := vfParseDatagram(w.Data, 0)
		k := w.From
		if len(recs) > 0 {
			k += fmt.Sprint(recs[0].Epoch)
		}
		if k != lastKey {
			fp += k + ","
			lastKey = k
		}
	}
	res.Seen("emission_order_fingerprints", vfShortHash(fp))
	p.Close()
}

// vfAtPauses: handshake configuration -> handler for the tag-guarded instrumentation points of that connection.
var (
	vfAtPauses  sync.Map
	vfAtInstall sync.Once
)

func vfPauseAt(key any, f func(point string)) {
	vfAtInstall.Do(func() {
		verifhook.SetAt(func(key any, point string) {
			if h, ok := vfAtPauses.Load(key); ok {
				h.(func(string))(point) //nolint:forcetypeassert
			}
		})
	})
	vfAtPauses.Store(key, f)
}

// vfC09PathValidationOrder (real scheduler): a Write of the observed endpoint has taken its record number and is held
// just before the socket write when a record from a new address makes the read loop send a path challenge. Record
// numbers increase in emission order "across application writes ... path-validation messages ... issued from any
// goroutines": the challenge, numbered later, must not leave before the held record.
func vfC09PathValidationOrder(res *vfResult, iter int) {
	res.Eval(1)
	suite := vfSuiteByName([]string{"ECDSA-GCM128", "13-GCM128", "ECDSA-CBC", "13-CHACHA"}[iter%4])
	cfg := vfBaseCfg(suite, "ecdsa")
	if cfg.Suite.Auth == "tls13" {
		cfg.CVer, cfg.SVer, cfg.HelloVerify = "13", "13", false
	}
	cfg.CIDc, cfg.CIDs = 4, 6
	observed := []string{"s", "c"}[(iter/4)%2]
	n := vfNewNet()
	co, so := cfg.Options(nil, nil)
	p, err := vfNewPair(n, co, so)
	if err != nil {
		res.Count("config_rejected", 1)

		return
	}
	if ce, se := p.Handshake(20 * time.Second); ce != nil || se != nil {
		p.Close()

		return
	}
	p.C.StartPump()
	p.S.StartPump()
	if rt := vfRoundTrip(p, "c09p", 10*time.Second); rt != "" || !vfCommon(p.S.Conn).RRCNegotiated {
		res.Count("path_validation_order_not_applicable", 1)
		p.Close()

		return
	}
	time.Sleep(50 * time.Millisecond)
	x, y := vfSideOf(p, observed)
	const newAddr = "10.0.7.7:7777"
	n.Alias(newAddr, y.EP)
	var moved atomic.Bool
	n.SetOnSend(func(n *vfNet, w *vfWire) {
		from := vfAddrOf(w.From)
		if w.From == y.Name && moved.Load() {
			from = vfAddr(newAddr)
		}
		n.Deliver(w.Dst, w.Data, from)
	})
	entered, gate := make(chan struct{}), make(chan struct{})
	var once sync.Once
	vfPauseAt(x.Conn.handshakeConfig, func(point string) {
		if point == "write.datagram" {
			hit := false
			once.Do(func() { hit = true })
			if hit {
				close(entered)
				<-gate
			}
		}
	})
	defer vfAtPauses.Delete(x.Conn.handshakeConfig)
	wrote := make(chan struct{})
	go func() { defer close(wrote); _, _ = x.Conn.Write([]byte("held-before-the-socket")) }()
	select {
	case <-entered:
	case <-time.After(5 * time.Second):
		close(gate)
		res.Count("path_validation_order_hook_not_reached", 1)
		p.Close()

		return
	}
	moved.Store(true)
	_, _ = y.Conn.Write([]byte("from-the-new-address")) // newest authentic record, new source: a path challenge is due
	time.Sleep(150 * time.Millisecond)
	close(gate)
	<-wrote
	time.Sleep(100 * time.Millisecond)
	res.NonTrivial(fmt.Sprintf("path-validation-order/%s/%s/%d", suite.Name, observed, iter))
	res.Count("path_validation_order_cases", 1)
	vfNonceCheckPair(res, p, "path-validation-vs-held-write/"+observed, map[string]any{"scenario": "path-validation-order", "iter": iter})
	n.SetOnSend(nil)
	p.Close()
}

// vfC09FaultedHandshake: virtual time, retransmissions under loss with CID / small MTU / padding.
func vfC09FaultedHandshake(t *testing.T, res *vfResult, idx int) {
	r := vfRand("C09/hs", idx)
	suites := vfAllSuites()
	cfg := vfGenCompatCfg(r, suites[idx%len(suites)])
	cfg.Store = false
	// bias towards the interesting layouts
	switch idx % 4 {
	case 0:
		cfg.CIDc, cfg.CIDs = 4, 4
	case 1:
		cfg.CIDc, cfg.CIDs, cfg.Padding = 8, 2, true
	}
	cfg.MTU = []int{0, 0, 10, 20, 40, 100, 256}[r.IntN(7)]
	if cfg.Is13() && cfg.MTU > 0 && cfg.MTU < 100 {
		cfg.MTU = 100
	}
	mask := vfRandMask(r, 10, 0.3, "x2sh")
	if idx%5 == 4 && cfg.Suite.Auth != "psk" {
		// a client that accepts both versions: its first ClientHello goes out from the version-negotiation loop, and
		// is lost here so that the loop has to retransmit it
		cfg.Suite = vfSuiteInfo{Name: "default", Auth: cfg.Suite.Auth}
		if cfg.Suite.Auth == "tls13" {
			cfg.Suite.Auth = "ecdsa"
			cfg.CertKind = "ecdsa"
		}
		cfg.CVer, cfg.SVer = "dual", []string{"dual", "12", "13"}[(idx/5)%3]
		if cfg.MTU > 0 && cfg.MTU < 100 {
			cfg.MTU = 100 // DTLS 1.3 may be negotiated: below that its retransmission floods exceed the case watchdog
		}
		k := 1 + (idx/15)%3
		mask.C = strings.Repeat("x", k) + mask.C[k:]
		res.Count("dualstack_client_first_hello_lost", 1)
	}
	n := vfNewNet()
	// DTLS 1.3 endpoints answer each other's retransmissions without pacing; a faulted small-MTU handshake can emit
	// several hundred thousand datagrams. The records emitted up to the cap are still checked; a run cut by it is counted.
	n.stormCap = 30000
	mask.Install(n)
	co, so := cfg.Options(nil, nil)
	p, err := vfNewPair(n, co, so)
	res.Eval(1)
	if err != nil {
		res.Count("config_rejected", 1)

		return
	}
	cerr, serr := p.Handshake(5 * time.Minute)
	if cerr == nil && serr == nil {
		res.Count("hs_completed", 1)
		n.SetOnSend(nil)
		p.C.StartPump()
		p.S.StartPump()
		for k := 0; k < 5; k++ {
			_, _ = p.C.Conn.Write([]byte(fmt.Sprintf("c-%d-%d", idx, k)))
			_, _ = p.S.Conn.Write([]byte(fmt.Sprintf("s-%d-%d", idx, k)))
		}
		time.Sleep(100 * time.Millisecond)
	} else {
		res.Count("hs_failed", 1)
	}
	if n.Storm() {
		res.Count("hs_cut_by_emission_cap", 1)
	}
	res.NonTrivial("hs/" + cfg.FP() + "/" + mask.String())
	layout := "plain"
	if cfg.CIDc > 0 || cfg.CIDs > 0 {
		layout = "cid"
	}
	vfNonceCheckPair(res, p, "handshake-retransmission/"+layout, map[string]any{"scenario": "faulted-handshake", "cfg": cfg, "mask": mask, "case": idx})
	p.Close()
	synctest.Wait()
}

// vfC09TransientSendFailure: the transport refuses single datagrams (a transient sendto error) in the middle of a
// handshake whose flights span several datagrams; whatever the endpoint emits afterwards (an alert, a retransmission,
// application data) must not reuse the number of a record that did leave in an earlier datagram of the failed call.
func vfC09TransientSendFailure(t *testing.T, res *vfResult, idx int) {
	r := vfRand("C09/sendfail", idx)
	suites := vfAllSuites()
	cfg := vfGenCompatCfg(r, suites[idx%len(suites)])
	cfg.Store = false
	if idx%3 == 0 {
		cfg.CIDc, cfg.CIDs = 4, 4
	}
	cfg.MTU = []int{100, 150, 256, 400}[r.IntN(4)]
	n := vfNewNet()
	n.stormCap = 30000
	co, so := cfg.Options(nil, nil)
	p, err := vfNewPair(n, co, so)
	res.Eval(1)
	if err != nil {
		res.Count("config_rejected", 1)

		return
	}
	side := []*vfSide{p.C, p.S}[idx%2]
	fails := map[int]error{}
	for k := 0; k < 1+r.IntN(3); k++ {
		fails[1+r.IntN(14)] = errors.New("sendto: no buffer space available")
	}
	side.EP.mu.Lock()
	side.EP.wrFailAt = fails
	side.EP.mu.Unlock()
	cerr, serr := p.Handshake(5 * time.Minute)
	if cerr == nil && serr == nil {
		res.Count("sendfail_hs_completed", 1)
		p.C.StartPump()
		p.S.StartPump()
		side.EP.mu.Lock()
		side.EP.wrFailAt = map[int]error{side.EP.wrCalls + 1: errors.New("sendto: no buffer space available")}
		side.EP.mu.Unlock()
		for k := 0; k < 5; k++ {
			_, _ = p.C.Conn.Write([]byte(fmt.Sprintf("c-%d-%d", idx, k)))
			_, _ = p.S.Conn.Write([]byte(fmt.Sprintf("s-%d-%d", idx, k)))
		}
		time.Sleep(100 * time.Millisecond)
	} else {
		res.Count("sendfail_hs_failed", 1)
	}
	side.EP.mu.Lock()
	res.Count("sendfail_datagrams_attempted", int64(side.EP.wrCalls))
	side.EP.mu.Unlock()
	res.NonTrivial(fmt.Sprintf("sendfail/%s/%s/%v", cfg.FP(), side.Name, fails))
	layout := "plain"
	if cfg.CIDc > 0 || cfg.CIDs > 0 {
		layout = "cid"
	}
	vfNonceCheckPair(res, p, "transient-send-failure/"+layout, map[string]any{"scenario": "transient-send-failure", "cfg": cfg, "case": idx, "side": side.Name})
	p.Close()
	synctest.Wait()
}

// vfC09Overflow: the counter is preset close to 2^48; writes must fail rather than wrap.
func vfC09Overflow(t *testing.T, res *vfResult, sn string) {
	cfg := vfBaseCfg(vfSuiteByName(sn), "ecdsa")
	if cfg.Is13() {
		cfg.CVer, cfg.SVer = "13", "13"
	}
	n := vfNewNet()
	co, so := cfg.Options(nil, nil)
	p, err := vfNewPair(n, co, so)
	if err != nil {
		res.Inconc("overflow cfg: " + err.Error())

		return
	}
	if ce, se := p.Handshake(time.Minute); ce != nil || se != nil {
		res.Inconc(fmt.Sprintf("overflow handshake failed %v %v", ce, se))
		p.Close()

		return
	}
	p.S.StartPump()
	time.Sleep(50 * time.Millisecond) // let post-handshake traffic (tickets, ACKs) settle
	synctest.Wait()
	cm := vfCommon(p.C.Conn)
	ep := cm.LocalEpoch()
	p.C.Conn.lock.Lock()
	for len(cm.LocalSequenceNumber) <= int(ep) {
		cm.LocalSequenceNumber = append(cm.LocalSequenceNumber, 0)
	}
	atomic.StoreUint64(&cm.LocalSequenceNumber[ep], (1<<48)-3)
	p.C.Conn.lock.Unlock()
	before := len(n.Emissions("c"))
	okWrites, failWrites := 0, 0
	for k := 0; k < 8; k++ {
		_, err := p.C.Conn.Write([]byte(fmt.Sprintf("ovf-%d", k)))
		if err == nil {
			okWrites++
			if failWrites > 0 {
				res.Violate("C09:overflow:write-succeeds-after-overflow:"+sn, "a Write succeeded after an earlier Write had failed with sequence overflow", nil)
			}
		} else {
			failWrites++
			if !errors.Is(err, errSequenceNumberOverflowVF()) {
				res.Seen("overflow_errors", err.Error())
			}
		}
	}
	res.Eval(1)
	res.Count("overflow_ok_writes", int64(okWrites))
	res.Count("overflow_failed_writes", int64(failWrites))
	ems := n.Emissions("c")[before:]
	for _, w := range ems {
		recs, _ := vfParseDatagram(w.Data, 0)
		for _, r := range recs {
			if !r.Unified && r.Seq >= 1<<48 {
				res.Violate("C09:overflow:wire-seq-ge-2^48:"+sn, fmt.Sprintf("emitted seq %d", r.Seq), nil)
			}
			if !r.Unified && r.Epoch == ep && r.Seq < (1<<48)-3 && r.Type == 23 {
				res.Violate("C09:overflow:wrapped:"+sn, fmt.Sprintf("after the counter reached 2^48-3 an application record with seq %d was emitted", r.Seq), nil)
			}
		}
	}
	if okWrites > 3 {
		res.Violate("C09:overflow:too-many-writes:"+sn, fmt.Sprintf("%d writes succeeded with only 3 sequence numbers left before 2^48", okWrites), nil)
	}
	if failWrites == 0 {
		res.Violate("C09:overflow:no-failure:"+sn, "no Write failed although the sequence space was exhausted", nil)
	}
	res.NonTrivial("overflow/" + sn)
	// the exhausted session exported and imported again (DTLS 1.2): it stays exhausted, no number is used twice
	if !cfg.Is13() {
		used := map[uint64]bool{}
		for _, w := range n.Emissions("c") {
			recs, _ := vfParseDatagram(w.Data, 0)
			for _, r := range recs {
				if !r.Unified && r.Epoch == ep {
					used[r.Seq] = true
				}
			}
		}
		if st, ok := p.C.Conn.ConnectionState(); ok {
			if raw, err := st.MarshalBinary(); err == nil {
				var st2 State
				if err := st2.UnmarshalBinary(raw); err == nil {
					ep2 := n.Endpoint("c2", "10.0.0.3:3333")
					n.Alias("10.0.0.3:3333", ep2)
					if rc, err := ResumeWithOptions(&st2, ep2, vfAddr(vfServerAddr)); err == nil {
						mark := n.LogLen()
						okAfter := 0
						for k := 0; k < 4; k++ {
							if _, err := rc.Write([]byte(fmt.Sprintf("ovf-resumed-%d", k))); err == nil {
								okAfter++
							}
						}
						synctest.Wait()
						for _, w := range n.LogSince(mark) {
							if w.Deliver || w.From != "c2" {
								continue
							}
							recs, _ := vfParseDatagram(w.Data, 0)
							for _, r := range recs {
								if !r.Unified && r.Epoch == ep && r.Type == 23 {
									// the counter had passed 2^48: every number below it counts as used, whatever this
									// run (which jumped the counter forward) really emitted
									res.Violate("C09:overflow:write-succeeds-after-overflow:after-export:"+sn, fmt.Sprintf("the exhausted session, exported and resumed, emitted an application record (epoch %d, seq %d); %d writes succeeded after the import", ep, r.Seq, okAfter), nil)
								}
								if !r.Unified && r.Epoch == ep && (used[r.Seq] || r.Seq >= 1<<48) {
									res.Violate("C09:overflow:number-reused-after-export:"+sn, fmt.Sprintf("the exhausted session, exported and resumed, emitted (epoch %d, seq %d), a number already used (or beyond 2^48); %d writes succeeded after the import", ep, r.Seq, okAfter), nil)
								}
							}
						}
						res.Count("overflow_export_import_checked", 1)
						res.Count("overflow_writes_ok_after_import", int64(okAfter))
						_ = ep2.Close()
						_ = rc.Close()
					}
				}
			}
		}
	}
	p.Close()
	synctest.Wait()
}

// vfC09ExportImport: a DTLS 1.2 session whose application looks at ConnectionState() at several moments of its life
// (as applications do to read the peer certificate), exports it after more traffic, and continues on the imported
// copy: across the original and the resumed connection no (epoch, sequence number) may be used twice, and the
// untouched peer must receive everything (a re-used number is dropped by its replay window).
func vfC09ExportImport(t *testing.T, res *vfResult, sn string, cid int, side string) {
	cfg := vfBaseCfg(vfSuiteByName(sn), "ecdsa")
	cfg.CIDc, cfg.CIDs = cid, cid
	n := vfNewNet()
	co, so := cfg.Options(nil, nil)
	p, err := vfNewPair(n, co, so)
	res.Eval(1)
	if err != nil {
		res.Inconc("export/import cfg: " + err.Error())

		return
	}
	if ce, se := p.Handshake(time.Minute); ce != nil || se != nil {
		res.Inconc(fmt.Sprintf("export/import handshake failed %v %v", ce, se))
		p.Close()

		return
	}
	x, y := vfSideOf(p, side) // x is exported, y stays
	y.StartPump()
	x.StartPump()
	id := fmt.Sprintf("export-import/%s/cid%d/%s", sn, cid, side)
	sent := 0
	write := func(c *Conn, k int) {
		for i := 0; i < k; i++ {
			sent++
			if _, err := c.Write([]byte(fmt.Sprintf("c09-ei-%04d", sent))); err != nil {
				res.Count("export_import_write_errors", 1)
			}
		}
		synctest.Wait()
	}
	_, _ = x.Conn.ConnectionState() // right after the handshake
	write(x.Conn, 3)
	_, _ = x.Conn.ConnectionState() // and again in mid-life
	write(x.Conn, 4)
	_, _ = y.Conn.Write([]byte("from-the-peer"))
	synctest.Wait()
	st, ok := x.Conn.ConnectionState()
	mark := n.LogLen()
	if !ok {
		res.Inconc("export/import: no ConnectionState")
		p.Close()

		return
	}
	raw, err := st.MarshalBinary()
	var st2 State
	if err == nil {
		err = st2.UnmarshalBinary(raw)
	}
	if err != nil {
		res.Inconc("export/import: " + err.Error())
		p.Close()

		return
	}
	yCID := vfCIDLenOf(y.Conn)
	// the original connection goes away silently, the copy takes over its address
	addr := string(x.EP.addr)
	var gone atomic.Bool
	gone.Store(true)
	n.SetOnSend(func(n *vfNet, w *vfWire) {
		if w.From == x.Name && gone.Load() {
			return // (its close_notify, numbered after the export, never reaches the peer and is not part of the history)
		}
		from := x.EP.addr
		if w.From == y.Name {
			from = y.EP.addr
		}
		n.Deliver(w.Dst, w.Data, from)
	})
	_ = x.Conn.Close()
	synctest.Wait()
	ep2 := n.Endpoint(x.Name+"2", addr)
	n.Alias(addr, ep2)
	rc, err := ResumeWithOptions(&st2, ep2, y.EP.addr)
	if err != nil {
		res.Inconc("export/import resume: " + err.Error())
		p.Close()

		return
	}
	go func() {
		buf := make([]byte, 2048)
		for {
			if _, err := rc.Read(buf); err != nil {
				return
			}
		}
	}()
	write(rc, 6)
	time.Sleep(50 * time.Millisecond)
	synctest.Wait()
	// every record either incarnation emitted
	var ems []*vfWire
	for i, w := range n.LogSince(0) {
		if !w.Deliver && ((w.From == x.Name && i < mark) || w.From == x.Name+"2") {
			ems = append(ems, w)
		}
	}
	obs, _ := vfDecodeSeqs(ems, nil, yCID)
	res.Count("records_decoded", int64(len(obs)))
	seen := map[[2]uint64]int{}
	for _, o := range obs {
		k := [2]uint64{uint64(o.Epoch), o.Seq}
		if o.Epoch == 0 {
			continue
		}
		if prev, dup := seen[k]; dup {
			res.Violate(fmt.Sprintf("C09:duplicate:export-import:v1.2:%s", map[bool]string{true: "cid", false: "nocid"}[cid > 0]),
				fmt.Sprintf("%s: record (epoch %d, seq %d) was emitted by the original connection (datagram #%d) and again after the exported state was imported (datagram #%d)", id, o.Epoch, o.Seq, prev, o.Idx), map[string]any{"case": id})

			break
		}
		seen[k] = o.Idx
	}
	got := 0
	for _, rd := range y.ReadsSnapshot() {
		if bytes.HasPrefix(rd, []byte("c09-ei-")) {
			got++
		}
	}
	if got != sent {
		res.Violate(fmt.Sprintf("C09:export-import:payloads-lost:v1.2:%s", map[bool]string{true: "cid", false: "nocid"}[cid > 0]),
			fmt.Sprintf("%s: %d payloads were written across export and import, the untouched peer received %d", id, sent, got), map[string]any{"case": id})
	}
	res.Count("export_import_sessions", 1)
	res.NonTrivial(id)
	_ = rc.Close()
	_ = ep2.Close()
	p.Close()
	synctest.Wait()
}

// vfC09LongEpoch13: more than 2^16 records in one DTLS 1.3 epoch. The record header carries 16 bits of the record
// number; the nonce has to come from the full 64-bit number. Every emitted record is opened with the nonce of its
// reconstructed number; one that only opens under the number of an earlier record has re-used that nonce.
func vfC09LongEpoch13(t *testing.T, res *vfResult, sn string) {
	cfg := vfBaseCfg(vfSuiteByName(sn), "ecdsa")
	cfg.CVer, cfg.SVer, cfg.HelloVerify = "13", "13", false
	n := vfNewNet()
	co, so := cfg.Options(nil, nil)
	p, err := vfNewPair(n, co, so)
	res.Eval(1)
	if err != nil {
		res.Inconc("long epoch cfg: " + err.Error())

		return
	}
	if ce, se := p.Handshake(time.Minute); ce != nil || se != nil {
		res.Inconc(fmt.Sprintf("long epoch handshake failed %v %v", ce, se))
		p.Close()

		return
	}
	p.S.StartPump()
	p.C.StartPump()
	time.Sleep(3 * time.Second)
	synctest.Wait()
	const total = 65536 + 80
	for i := 0; i < total; i++ {
		if _, err := p.C.Conn.Write([]byte(fmt.Sprintf("le-%06d", i))); err != nil {
			res.Inconc("long epoch write: " + err.Error())

			break
		}
		if i%256 == 255 {
			synctest.Wait()
		}
	}
	time.Sleep(50 * time.Millisecond)
	synctest.Wait()
	ems := n.Emissions("c")
	obs, und := vfDecodeSeqs(ems, p.C.Conn, vfCIDLenOf(p.S.Conn))
	res.Count("records_decoded", int64(len(obs)))
	res.Count("long_epoch_records", int64(len(obs)))
	if und > 0 {
		res.Violate("C09:nonce-not-from-record-number:long-epoch:v1.3",
			fmt.Sprintf("long-epoch/%s: %d of %d records the client emitted in one epoch do not open under the nonce of their own record number (first numbers are fine: the nonce is not derived from the full 64-bit record number, so nonces repeat after 2^16 records)", sn, und, und+len(obs)), map[string]any{"case": sn})
	}
	if cls, what := vfNonceVerdict(obs); cls != "" {
		res.Violate("C09:"+cls+":long-epoch:v1.3", what, nil)
	}
	got := 0
	for _, rd := range p.S.ReadsSnapshot() {
		if bytes.HasPrefix(rd, []byte("le-")) {
			got++
		}
	}
	res.Count("long_epoch_payloads_delivered", int64(got))
	res.NonTrivial("long-epoch/" + sn)
	p.Close()
	synctest.Wait()
}

func errSequenceNumberOverflowVF() error { return errSeqOverflowSentinel }

var errSeqOverflowSentinel = errors.New("vf-sentinel")

func TestVF_C09(t *testing.T) {
	vfGetPKI()
	res := vfNewResult("C09", "wire-log decoder over (1) real-scheduler stress sessions (8 writers per side, key updates, racing "+
		"Close; race detector on) per cipher/CID layout, (2) virtual-time handshakes with retransmissions under PRNG fault masks "+
		"with CID / padding / tiny MTU, (3) counter preset to 2^48-3. Non-trivial = a session whose emitted records were decoded "+
		"and checked; distinct = distinct (scenario, configuration, mask)")
	res.Assume("DTLS 1.3 sequence numbers are recovered with the sender's own write generations (library code); their correctness is C10's subject",
		"emission order is the order of WriteTo calls on the injected PacketConn")
	// (2) faulted handshakes in virtual time
	nhs := vfPick(600, 20000)
	vfBubbles(t, nhs, func(t *testing.T, i int) { vfC09FaultedHandshake(t, res, i) })
	vfBubbles(t, vfPick(120, 1200), func(t *testing.T, i int) { vfC09TransientSendFailure(t, res, i) })
	// (3) overflow
	ov := []string{"ECDSA-GCM128", "ECDSA-CBC", "ECDSA-CHACHA", "13-GCM128"}
	vfBubbles(t, len(ov), func(t *testing.T, i int) { vfC09Overflow(t, res, ov[i]) })
	// (4) export / import with earlier ConnectionState() calls, (5) more than 2^16 records in one DTLS 1.3 epoch
	type ei struct {
		sn   string
		cid  int
		side string
	}
	var eis []ei
	for _, sn := range []string{"ECDSA-GCM128", "ECDSA-CBC", "ECDSA-CHACHA", "ECDSA-CCM8"} {
		for _, cid := range []int{0, 4} {
			for _, side := range []string{"c", "s"} {
				eis = append(eis, ei{sn, cid, side})
			}
		}
	}
	vfBubbles(t, len(eis), func(t *testing.T, i int) { vfC09ExportImport(t, res, eis[i].sn, eis[i].cid, eis[i].side) })
	le := []string{"13-GCM128"}
	if vfThorough() {
		le = []string{"13-GCM128", "13-CHACHA", "13-GCM256"}
	}
	vfBubbles(t, len(le), func(t *testing.T, i int) { vfC09LongEpoch13(t, res, le[i]) })
	// (1) stress on the real scheduler
	scs := vfC09StressCfgs()
	iters := vfPick(2, 12)
	vfParallel(len(scs)*iters, func(_, i int) { vfC09StressRun(res, scs[i%len(scs)], i/len(scs)) })
	vfParallel(vfPick(16, 64), func(_, i int) { vfC09PathValidationOrder(res, i) })
	res.Floor("records_decoded", 1000)
	res.Floor("stress_sessions", int64(len(scs)))
	res.Floor("hs_completed", 50)
	res.Finish(t)
}
