//go:build verif

package dtls

// C04 Transcript integrity. An on-path adversary without keys rewrites one logical plaintext
// handshake message (every copy, retransmissions included, by a pure function of the original
// bytes): bit flips at every body position and field-level rewrites (cipher suites, every extension
// stripped / reordered / edited, randoms, session id, cookie, compression, versions). Oracle: no
// endpoint that sent or received an altered message may return nil from HandshakeContext.

import (
	"bytes"
	"encoding/binary"
	"fmt"
	"sort"
	"strings"
	"sync"
	"testing"
	"testing/synctest"
	"time"

	dtlsstate "github.com/pion/dtls/v3/internal/state"
)

// vfHello is a raw view of a ClientHello / ServerHello body.
type vfHello struct {
	Client  bool
	Version []byte
	Random  []byte
	SID     []byte
	Cookie  []byte // client only
	Suites  []byte // client: list; server: 2 bytes
	Comp    []byte // client: list; server: 1 byte
	Exts    []vfExt
	HasExts bool
}

type vfExt struct {
	Type uint16
	Data []byte
}

func vfParseHello(body []byte, client bool) (*vfHello, bool) {
	h := &vfHello{Client: client}
	p := 0
	take := func(n int) []byte {
		if p+n > len(body) {
			p = len(body) + 1

			return nil
		}
		v := body[p : p+n]
		p += n

		return v
	}
	h.Version = take(2)
	h.Random = take(32)
	if l := take(1); l != nil {
		h.SID = take(int(l[0]))
	}
	if client {
		if l := take(1); l != nil {
			h.Cookie = take(int(l[0]))
		}
		if l := take(2); l != nil {
			h.Suites = take(int(binary.BigEndian.Uint16(l)))
		}
		if l := take(1); l != nil {
			h.Comp = take(int(l[0]))
		}
	} else {
		h.Suites = take(2)
		h.Comp = take(1)
	}
	if p > len(body) {
		return nil, false
	}
	if p == len(body) {
		return h, true
	}
	l := take(2)
	if l == nil {
		return nil, false
	}
	h.HasExts = true
	end := p + int(binary.BigEndian.Uint16(l))
	if end != len(body) {
		return nil, false
	}
	for p < end {
		hd := take(4)
		if hd == nil {
			return nil, false
		}
		d := take(int(binary.BigEndian.Uint16(hd[2:])))
		if p > len(body) {
			return nil, false
		}
		h.Exts = append(h.Exts, vfExt{binary.BigEndian.Uint16(hd), d})
	}

	return h, true
}

func (h *vfHello) Marshal() []byte {
	var b []byte
	b = append(b, h.Version...)
	b = append(b, h.Random...)
	b = append(b, byte(len(h.SID)))
	b = append(b, h.SID...)
	if h.Client {
		b = append(b, byte(len(h.Cookie)))
		b = append(b, h.Cookie...)
		b = binary.BigEndian.AppendUint16(b, uint16(len(h.Suites)))
		b = append(b, h.Suites...)
		b = append(b, byte(len(h.Comp)))
		b = append(b, h.Comp...)
	} else {
		b = append(b, h.Suites...)
		b = append(b, h.Comp...)
	}
	if h.HasExts || len(h.Exts) > 0 {
		var e []byte
		for _, x := range h.Exts {
			e = binary.BigEndian.AppendUint16(e, x.Type)
			e = binary.BigEndian.AppendUint16(e, uint16(len(x.Data)))
			e = append(e, x.Data...)
		}
		b = binary.BigEndian.AppendUint16(b, uint16(len(e)))
		b = append(b, e...)
	}

	return b
}

// region names the field that contains body offset off (for bit-flip signatures).
func vfHelloRegion(body []byte, client bool, off int) string {
	h, ok := vfParseHello(body, client)
	if !ok {
		return "body"
	}
	p := 0
	step := func(name string, n int) (string, bool) {
		if off < p+n {
			return name, true
		}
		p += n

		return "", false
	}
	for _, f := range []struct {
		n string
		l int
	}{{"version", 2}, {"random", 32}, {"session_id", 1 + len(h.SID)}} {
		if r, ok := step(f.n, f.l); ok {
			return r
		}
	}
	if client {
		for _, f := range []struct {
			n string
			l int
		}{{"cookie", 1 + len(h.Cookie)}, {"cipher_suites", 2 + len(h.Suites)}, {"compression", 1 + len(h.Comp)}} {
			if r, ok := step(f.n, f.l); ok {
				return r
			}
		}
	} else {
		if r, ok := step("cipher_suite", 2); ok {
			return r
		}
		if r, ok := step("compression", 1); ok {
			return r
		}
	}
	if r, ok := step("extensions_length", 2); ok {
		return r
	}
	for _, x := range h.Exts {
		if r, ok := step(fmt.Sprintf("ext%d", x.Type), 4+len(x.Data)); ok {
			return r
		}
	}

	return "body"
}

// vfRewrite is one deterministic message rewrite.
type vfRewrite struct {
	Name string
	F    func(typ uint8, body []byte) []byte // nil result = not applicable
}

func vfHelloRewrites() []vfRewrite {
	var rs []vfRewrite
	hello := func(name string, f func(h *vfHello) bool) {
		rs = append(rs, vfRewrite{Name: name, F: func(typ uint8, body []byte) []byte {
			if typ != 1 && typ != 2 {
				return nil
			}
			h, ok := vfParseHello(body, typ == 1)
			if !ok || !f(h) {
				return nil
			}

			return h.Marshal()
		}})
	}
	hello("suites-drop-first", func(h *vfHello) bool {
		if !h.Client || len(h.Suites) < 4 {
			return false
		}
		h.Suites = h.Suites[2:]

		return true
	})
	hello("suites-reverse", func(h *vfHello) bool {
		if !h.Client || len(h.Suites) < 4 {
			return false
		}
		n := append([]byte{}, h.Suites...)
		for i := 0; i+1 < len(n); i += 2 {
			copy(n[len(n)-2-i:], h.Suites[i:i+2])
		}
		h.Suites = n

		return !bytes.Equal(n, h.Suites) || true
	})
	hello("suites-append", func(h *vfHello) bool {
		if !h.Client {
			return false
		}
		h.Suites = append(append([]byte{}, h.Suites...), 0xc0, 0x2b)

		return true
	})
	hello("server-suite-change", func(h *vfHello) bool {
		if h.Client {
			return false
		}
		n := []byte{0xc0, 0x2b}
		if bytes.Equal(h.Suites, n) {
			n = []byte{0xc0, 0x2c}
		}
		h.Suites = n

		return true
	})
	hello("random-flip", func(h *vfHello) bool { h.Random = vfFlip(h.Random, 7); return true })
	hello("session-id-set", func(h *vfHello) bool { h.SID = bytes.Repeat([]byte{0x5a}, 32); return true })
	hello("session-id-clear", func(h *vfHello) bool {
		if len(h.SID) == 0 {
			return false
		}
		h.SID = nil

		return true
	})
	hello("cookie-flip", func(h *vfHello) bool {
		if !h.Client || len(h.Cookie) == 0 {
			return false
		}
		h.Cookie = vfFlip(h.Cookie, 3)

		return true
	})
	hello("compression-add", func(h *vfHello) bool {
		if !h.Client {
			return false
		}
		h.Comp = append(append([]byte{}, h.Comp...), 1)

		return true
	})
	hello("version-change", func(h *vfHello) bool {
		if bytes.Equal(h.Version, []byte{0xfe, 0xfd}) {
			h.Version = []byte{0xfe, 0xff}
		} else {
			h.Version = []byte{0xfe, 0xfd}
		}

		return true
	})
	hello("ext-reverse", func(h *vfHello) bool {
		if len(h.Exts) < 2 {
			return false
		}
		for i, j := 0, len(h.Exts)-1; i < j; i, j = i+1, j-1 {
			h.Exts[i], h.Exts[j] = h.Exts[j], h.Exts[i]
		}

		return true
	})
	hello("ext-append-unknown", func(h *vfHello) bool {
		h.Exts = append(h.Exts, vfExt{0xfafa, []byte{1, 2, 3}})
		h.HasExts = true

		return true
	})
	// a server_name the client never sent (a client that offers none): on the cookie-less hello no transcript covers it,
	// and the server must not keep it for the hello that follows
	hello("ext0-add-server-name", func(h *vfHello) bool {
		if !h.Client {
			return false
		}
		for _, x := range h.Exts {
			if x.Type == 0 {
				return false
			}
		}
		name := "evil.example"
		d := binary.BigEndian.AppendUint16(nil, uint16(len(name)+3))
		d = append(d, 0)
		d = binary.BigEndian.AppendUint16(d, uint16(len(name)))
		h.Exts = append(h.Exts, vfExt{0, append(d, name...)})
		h.HasExts = true

		return true
	})
	for _, typ := range []uint16{0, 10, 11, 13, 14, 16, 23, 43, 44, 50, 51, 54, 61, 65281} {
		typ := typ
		hello(fmt.Sprintf("ext%d-strip", typ), func(h *vfHello) bool {
			for i, x := range h.Exts {
				if x.Type == typ {
					h.Exts = append(append([]vfExt{}, h.Exts[:i]...), h.Exts[i+1:]...)

					return true
				}
			}

			return false
		})
		hello(fmt.Sprintf("ext%d-edit", typ), func(h *vfHello) bool {
			for i, x := range h.Exts {
				if x.Type == typ && len(x.Data) > 0 {
					h.Exts[i].Data = vfFlip(x.Data, len(x.Data)-1)

					return true
				}
			}

			return false
		})
		hello(fmt.Sprintf("ext%d-list-drop-first", typ), func(h *vfHello) bool {
			for i, x := range h.Exts {
				// uint16-length-prefixed list of 2-byte items (groups, sig algs, versions use 1-byte prefix: skipped)
				if x.Type == typ && len(x.Data) >= 6 && int(binary.BigEndian.Uint16(x.Data)) == len(x.Data)-2 && (typ == 10 || typ == 13 || typ == 50) {
					n := binary.BigEndian.AppendUint16(nil, uint16(len(x.Data)-4))
					h.Exts[i].Data = append(n, x.Data[4:]...)

					return true
				}
			}

			return false
		})
	}
	// HelloVerifyRequest
	rs = append(rs, vfRewrite{Name: "hvr-version", F: func(typ uint8, body []byte) []byte {
		if typ != 3 || len(body) < 3 {
			return nil
		}
		n := append([]byte{}, body...)
		if n[1] == 0xfd {
			n[1] = 0xff
		} else {
			n[1] = 0xfd
		}

		return n
	}})

	return rs
}

func vfFlip(b []byte, i int) []byte {
	n := append([]byte{}, b...)
	if len(n) > 0 {
		n[i%len(n)] ^= 0x20
	}

	return n
}

type vfC04Mode struct {
	Name    string
	Cfg     vfCfg
	Resumed bool
	Split   bool // the path delivers every record in a datagram of its own (a flight spans several datagrams)
}

func vfC04Modes() []vfC04Mode {
	var ms []vfC04Mode
	for _, base := range []struct {
		n, suite, kind string
	}{{"ecdhe", "ECDSA-GCM128", "ecdsa"}, {"psk", "PSK-GCM", ""}, {"ecdhepsk", "ECDHEPSK-CBC", ""}} {
		for _, ems := range []bool{true, false} {
			for _, hv := range []bool{true, false} {
				c := vfBaseCfg(vfSuiteByName(base.suite), base.kind)
				c.HelloVerify = hv
				c.ALPN, c.SRTP = 2, 2
				if !ems {
					c.EMSc, c.EMSs = DisableExtendedMasterSecret, DisableExtendedMasterSecret
				}
				if base.n == "ecdhe" {
					c.ClientAuth, c.ClientCert, c.Verify = RequireAndVerifyClientCert, true, true
				}
				ms = append(ms, vfC04Mode{Name: fmt.Sprintf("12-%s-ems%v-hv%v", base.n, ems, hv), Cfg: c})
			}
		}
	}
	// both sides' default suite lists: the order of the client's list decides the selection, so reordering it is an attack
	for _, ems := range []bool{true, false} {
		c := vfBaseCfg(vfSuiteInfo{Name: "default", Auth: "ecdsa"}, "ecdsa")
		c.ALPN = 2
		if !ems {
			c.EMSc, c.EMSs = DisableExtendedMasterSecret, DisableExtendedMasterSecret
		}
		ms = append(ms, vfC04Mode{Name: fmt.Sprintf("12-multisuite-ems%v-hvtrue", ems), Cfg: c})
		ms = append(ms, vfC04Mode{Name: fmt.Sprintf("12-multisuite-ems%v-hvtrue-split", ems), Cfg: c, Split: true})
	}
	for _, base := range []struct {
		n, suite, kind string
	}{{"ecdhe", "ECDSA-GCM128", "ecdsa"}, {"psk", "PSK-GCM", ""}} {
		c := vfBaseCfg(vfSuiteByName(base.suite), base.kind)
		c.EMSc, c.EMSs = DisableExtendedMasterSecret, DisableExtendedMasterSecret
		c.HelloVerify = false
		ms = append(ms, vfC04Mode{Name: fmt.Sprintf("12-%s-emsfalse-hvfalse-split", base.n), Cfg: c, Split: true})
	}
	c := vfBaseCfg(vfSuiteByName("PSK-GCM"), "")
	c.Store = true
	ms = append(ms, vfC04Mode{Name: "12-resumed-emstrue", Cfg: c, Resumed: true})
	c.EMSc, c.EMSs = DisableExtendedMasterSecret, DisableExtendedMasterSecret
	ms = append(ms, vfC04Mode{Name: "12-resumed-emsfalse", Cfg: c, Resumed: true})
	c = vfBaseCfg(vfSuiteByName("13-GCM128"), "ecdsa")
	c.CVer, c.SVer, c.HelloVerify, c.MTU, c.SRTP = "13", "13", false, 4000, 2
	ms = append(ms, vfC04Mode{Name: "13-direct", Cfg: c})
	c.HelloVerify = true
	ms = append(ms, vfC04Mode{Name: "13-hrr", Cfg: c})
	// connection IDs on both sides (return routability checking is then negotiated too): both are negotiated parameters
	for _, hv := range []bool{true, false} {
		c = vfBaseCfg(vfSuiteByName("ECDSA-GCM128"), "ecdsa")
		c.CIDc, c.CIDs, c.HelloVerify = 4, 6, hv
		ms = append(ms, vfC04Mode{Name: fmt.Sprintf("12-cid-hv%v", hv), Cfg: c})
	}
	// both endpoints accept DTLS 1.2 and 1.3: the version itself is a negotiated parameter an attacker may try to steer
	c = vfBaseCfg(vfSuiteInfo{Name: "default", Auth: "ecdsa"}, "ecdsa")
	c.CVer, c.SVer, c.HelloVerify, c.Curves = "dual", "dual", true, 1
	ms = append(ms, vfC04Mode{Name: "dual-both-hvtrue", Cfg: c})
	c.HelloVerify = false
	ms = append(ms, vfC04Mode{Name: "dual-both-hvfalse", Cfg: c})
	// the same with a fuller ClientHello: verification by server name, SRTP, connection IDs and ALPN put further
	// extensions behind supported_versions
	c = vfBaseCfg(vfSuiteInfo{Name: "default", Auth: "ecdsa"}, "ecdsa")
	c.CVer, c.SVer, c.HelloVerify, c.Curves = "dual", "dual", true, 1
	c.Verify, c.SRTP, c.CIDc, c.CIDs, c.ALPN = true, 2, 4, 4, 2
	ms = append(ms, vfC04Mode{Name: "dual-both-full-hello-hvtrue", Cfg: c})

	return ms
}

// vfTarget selects the logical message: sender, handshake type, occurrence (-1 = every occurrence).
type vfTarget struct {
	From string
	Type uint8
	Occ  int
}

func (t vfTarget) String() string {
	o := "all"
	if t.Occ >= 0 {
		o = fmt.Sprint(t.Occ)
	}

	return fmt.Sprintf("%s:%s#%s", t.From, vfHSName(t.Type), o)
}

type vfC04Case struct {
	Mode    vfC04Mode
	Target  vfTarget
	Rewrite *vfRewrite // nil => bit flip at Pos
	Pos     int
	Bit     uint
}

func (c vfC04Case) ID() string {
	if c.Rewrite != nil {
		return fmt.Sprintf("%s/%s/%s", c.Mode.Name, c.Target, c.Rewrite.Name)
	}

	return fmt.Sprintf("%s/%s/bit%d@%d", c.Mode.Name, c.Target, c.Bit, c.Pos)
}

type vfC04Outcome struct {
	Applied   int
	Region    string
	CErr      error
	SErr      error
	Delivered map[string]bool // endpoints that received an altered message
	OrigLen   int
	Params    string // negotiated parameters when both sides completed
	Storm     bool
}

// vfNegotiated summarises every negotiated parameter of a completed pair.
func vfNegotiated(p *vfPair) string {
	cs, ss := vfSnapshot(p.C.Conn), vfSnapshot(p.S.Conn)
	ems := func(c *Conn) string {
		if st, err := dtlsstate.As12(c.state); err == nil {
			return fmt.Sprintf("ems=%v,curve=%d", st.ExtendedMasterSecret, st.NamedCurve)
		}
		if st, err := dtlsstate.As13(c.state); err == nil {
			return fmt.Sprintf("group=%d", st.SelectedGroup)
		}

		return "?"
	}

	return fmt.Sprintf("ver=%s/%s suite=%04x/%04x %s/%s alpn=%q/%q srtp=%d/%d cid=%d,%d/%d,%d rrc=%v/%v sni=%q",
		cs.Version, ss.Version, cs.Suite, ss.Suite, ems(p.C.Conn), ems(p.S.Conn), cs.ALPN, ss.ALPN, cs.SRTP, ss.SRTP,
		len(cs.LocalCID)/2, len(cs.RemoteCID)/2, len(ss.LocalCID)/2, len(ss.RemoteCID)/2,
		vfCommon(p.C.Conn).RRCNegotiated, vfCommon(p.S.Conn).RRCNegotiated, vfCommon(p.S.Conn).ServerName)
}

// vfC04Run executes one case inside a bubble.
func vfC04Run(c vfC04Case, probe bool) (out vfC04Outcome, layout map[string]int) {
	out.Delivered = map[string]bool{}
	layout = map[string]int{}
	var cStore, sStore *vfMemStore
	if c.Mode.Cfg.Store {
		cStore, sStore = vfNewMemStore("c"), vfNewMemStore("s")
	}
	opts := func() ([]ClientOption, []ServerOption) {
		if c.Mode.Cfg.Store {
			return c.Mode.Cfg.Options(cStore, sStore)
		}

		return c.Mode.Cfg.Options(nil, nil)
	}
	if c.Mode.Resumed {
		n0 := vfNewNet()
		co, so := opts()
		p0, err := vfNewPair(n0, co, so)
		if err != nil {
			return out, layout
		}
		if ce, se := p0.Handshake(time.Minute); ce != nil || se != nil {
			p0.Close()

			return out, layout
		}
		p0.Close()
		synctest.Wait()
	}
	n := vfNewNet()
	// DTLS 1.3 endpoints that both wait answer each other's retransmissions without timer pacing; a
	// persistently tampered handshake then floods until the deadline. The cap keeps such runs cheap;
	// a run cut by it is counted, not judged.
	n.stormCap = 3000
	var mu sync.Mutex
	occ := map[string]map[uint16]int{} // sender+type -> msg_seq -> occurrence index
	n.onSend = func(n *vfNet, w *vfWire) {
		from := vfAddrOf(w.From)
		recs, ok := vfParseDatagram(w.Data, 0)
		if !ok {
			n.Deliver(w.Dst, w.Data, from)

			return
		}
		var dg []byte
		for _, rc := range recs {
			if rc.Unified || rc.Type != 22 || rc.Epoch != 0 {
				dg = append(dg, rc.Raw...)

				continue
			}
			h, rest, okh := vfParseHS(rc.Body)
			if !okh || len(rest) != 0 {
				dg = append(dg, rc.Raw...)

				continue
			}
			key := fmt.Sprintf("%s/%d", w.From, h.Type)
			mu.Lock()
			if occ[key] == nil {
				occ[key] = map[uint16]int{}
			}
			if _, seen := occ[key][h.MsgSeq]; !seen {
				occ[key][h.MsgSeq] = len(occ[key])
			}
			o := occ[key][h.MsgSeq]
			if probe && h.FragOff == 0 {
				layout[fmt.Sprintf("%s:%d#%d", w.From, h.Type, o)] = int(h.Length)
			}
			mu.Unlock()
			match := !probe && w.From == c.Target.From && h.Type == c.Target.Type && (c.Target.Occ < 0 || c.Target.Occ == o)
			if !match {
				dg = append(dg, rc.Raw...)

				continue
			}
			newBody := []byte(nil)
			whole := h.FragOff == 0 && h.FragLen == h.Length
			if c.Rewrite != nil {
				if whole {
					newBody = c.Rewrite.F(h.Type, h.Body)
				}
			} else if c.Pos >= int(h.FragOff) && c.Pos < int(h.FragOff+h.FragLen) {
				newBody = append([]byte{}, h.Body...)
				newBody[c.Pos-int(h.FragOff)] ^= 1 << c.Bit
				if whole && (h.Type == 1 || h.Type == 2) {
					out.Region = vfHelloRegion(h.Body, h.Type == 1, c.Pos)
				} else {
					out.Region = "body"
				}
			}
			if newBody == nil || bytes.Equal(newBody, h.Body) {
				dg = append(dg, rc.Raw...)

				continue
			}
			mu.Lock()
			out.Applied++
			out.OrigLen = int(h.Length)
			if w.From == "c" {
				out.Delivered["s"] = true
			} else {
				out.Delivered["c"] = true
			}
			out.Delivered[w.From] = true // the sender of an altered message must not complete either
			mu.Unlock()
			var frag []byte
			if c.Rewrite != nil {
				frag = vfHSFragment(h.Type, uint32(len(newBody)), h.MsgSeq, 0, uint32(len(newBody)), newBody)
			} else {
				frag = vfHSFragment(h.Type, h.Length, h.MsgSeq, h.FragOff, h.FragLen, newBody)
			}
			dg = append(dg, vfLegacyRecord(22, rc.Version, 0, rc.Seq, nil, -1, frag)...)
		}
		if c.Mode.Split {
			if parts, ok := vfParseDatagram(dg, 0); ok && len(parts) > 1 {
				for _, part := range parts {
					n.Deliver(w.Dst, part.Raw, from)
				}

				return
			}
		}
		n.Deliver(w.Dst, dg, from)
	}
	co, so := opts()
	p, err := vfNewPair(n, co, so)
	if err != nil {
		return out, layout
	}
	out.CErr, out.SErr = p.Handshake(40 * time.Second)
	if probe {
		out.Applied = 1
	}
	if out.CErr == nil && out.SErr == nil {
		out.Params = vfNegotiated(p)
	}
	out.Storm = n.Storm()
	p.Close()
	synctest.Wait()

	return out, layout
}

func TestVF_C04(t *testing.T) {
	vfGetPKI()
	res := vfNewResult("C04", "on-path rewriting of one logical plaintext handshake message per run (first / second / every copy of a type, "+
		"retransmissions included): one bit flip per stratified body position and the table of field rewrites (suites, each extension stripped/"+
		"edited/list-shortened, randoms, session id, cookie, compression, versions, unknown extension, HelloVerifyRequest version) under "+
		"{ECDHE-cert, PSK, ECDHE-PSK} x EMS on/off x hello-verify on/off, resumed, DTLS 1.3 direct/HRR. Non-trivial = the alteration was "+
		"applied to a delivered message and changed its bytes; distinct = distinct (mode, target, mutation)")
	res.Assume("the adversary has no keys: only epoch-0 messages are rewritten (encrypted messages are C05's subject, keyed alteration is C03's rogue peer)",
		"field rewrites are applied to unfragmented messages (DTLS 1.3 modes run with MTU 4000); bit flips also to fragments")
	modes := vfC04Modes()
	rewrites := vfHelloRewrites()
	// probe every mode for its message layout
	layouts := make([]map[string]int, len(modes))
	baseline := make([]string, len(modes))
	vfBubbles(t, len(modes), func(t *testing.T, i int) {
		o, l := vfC04Run(vfC04Case{Mode: modes[i]}, true)
		layouts[i] = l
		baseline[i] = o.Params
	})
	modeIdx := map[string]int{}
	for i, m := range modes {
		modeIdx[m.Name] = i
		if baseline[i] == "" {
			res.Inconc("baseline run of mode " + m.Name + " did not complete")
		}
	}
	var cases []vfC04Case
	stride := vfPick(23, 1)
	for mi, m := range modes {
		keys := make([]string, 0, len(layouts[mi]))
		for k := range layouts[mi] {
			keys = append(keys, k)
		}
		sort.Strings(keys)
		types := map[string]int{}
		for _, k := range keys {
			var from string
			var typ, o int
			parts := strings.SplitN(k, ":", 2)
			from = parts[0]
			fmt.Sscanf(parts[1], "%d#%d", &typ, &o)
			types[fmt.Sprintf("%s:%d", from, typ)]++
			ln := layouts[mi][k]
			tg := vfTarget{From: from, Type: uint8(typ), Occ: o}
			r := vfRand("C04/pos/"+m.Name+k, 0)
			for pos := r.IntN(stride); pos < ln; pos += stride {
				cases = append(cases, vfC04Case{Mode: m, Target: tg, Pos: pos, Bit: uint(r.IntN(8))})
			}
			for ri := range rewrites {
				cases = append(cases, vfC04Case{Mode: m, Target: tg, Rewrite: &rewrites[ri]})
			}
		}
		// "every occurrence" targets for message types that occur more than once
		for tk, cnt := range types {
			if cnt < 2 {
				continue
			}
			var from string
			var typ int
			parts := strings.SplitN(tk, ":", 2)
			from = parts[0]
			fmt.Sscanf(parts[1], "%d", &typ)
			for ri := range rewrites {
				cases = append(cases, vfC04Case{Mode: m, Target: vfTarget{From: from, Type: uint8(typ), Occ: -1}, Rewrite: &rewrites[ri]})
			}
		}
	}
	vfCaseName = func(i int) string { return cases[i].ID() }
	vfBubbles(t, len(cases), func(t *testing.T, i int) {
		c := cases[i]
		out, _ := vfC04Run(c, false)
		res.Eval(1)
		if out.Applied == 0 {
			res.Count("not_applicable", 1)

			return
		}
		if out.Storm {
			res.Count("cut_by_emission_cap", 1)
			res.Seen("emission_cap_modes", c.Mode.Name)
		}
		res.NonTrivial(c.ID())
		res.Count("alterations_applied", 1)
		res.Count("applied/"+c.Mode.Name, 1)
		cOK, sOK := out.CErr == nil, out.SErr == nil
		var offenders []string
		if cOK && out.Delivered["c"] {
			offenders = append(offenders, "client")
		}
		if sOK && out.Delivered["s"] {
			offenders = append(offenders, "server")
		}
		mut := ""
		if c.Rewrite != nil {
			mut = c.Rewrite.Name
		} else {
			mut = "bitflip:" + out.Region
		}
		// Messages that RFC 6347 keeps out of the Finished transcript (the cookie-less first ClientHello when
		// a HelloVerifyRequest follows, and the HelloVerifyRequest itself) cannot be protected by the
		// transcript check. For them the property's consequence is monitored instead: the alteration must
		// not steer any negotiated parameter away from the untampered run of the same configuration.
		untranscripted := !c.Mode.Cfg.Is13() && c.Mode.Cfg.HelloVerify && !c.Mode.Resumed &&
			((c.Target.Type == 1 && c.Target.Occ == 0) || c.Target.Type == 3)
		if untranscripted {
			res.Count("untranscripted_alterations", 1)
			if cOK && sOK {
				if out.Params != baseline[modeIdx[c.Mode.Name]] {
					res.Violate(fmt.Sprintf("C04:steered-via-untranscripted-message:%s:%s", c.Target, strings.SplitN(mut, ":", 2)[0]+vfMutField(mut)),
						fmt.Sprintf("%s: altering %s (%s), which the Finished transcript does not cover, changed the negotiated parameters: %s instead of %s",
							c.ID(), c.Target, mut, out.Params, baseline[modeIdx[c.Mode.Name]]), map[string]any{"case": c.ID()})
				} else {
					res.Count("untranscripted_no_effect", 1)
				}
			} else {
				res.Count("both_refused", 1)
			}

			return
		}
		if len(offenders) == 0 {
			res.Count("both_refused", 1)
			if i%211 == 0 {
				res.Sample(map[string]any{"case": c.ID(), "mutation": mut, "client": vfErrClass(out.CErr), "server": vfErrClass(out.SErr)})
			}

			return
		}
		res.Count("completed_despite_alteration", 1)
		mode := c.Mode.Name
		// root-cause level: mode, which message type from which sender, who completed; the concrete
		// mutation is in the description (one unchecked Finished shows up under dozens of mutations)
		sig := fmt.Sprintf("C04:%s:%s:%s:completed=%s", mode, c.Target.From, vfHSName(c.Target.Type), strings.Join(offenders, "+"))
		res.Violate(sig, fmt.Sprintf("%s: %s was altered in transit (%s) and yet HandshakeContext returned nil on: %s (client=%v, server=%v)",
			c.ID(), c.Target, mut, strings.Join(offenders, ", "), out.CErr, out.SErr), map[string]any{"case": c.ID()})
	})
	vfCaseName = nil
	res.Floor("alterations_applied", 500)
	res.Floor("both_refused", 300)
	res.Finish(t)
}

// vfMutField reduces a mutation name to the field it touches (ext23-strip -> :ext23).
func vfMutField(mut string) string {
	m := strings.TrimPrefix(mut, "bitflip:")
	if i := strings.Index(m, "-"); i > 0 && strings.HasPrefix(m, "ext") {
		m = m[:i]
	}
	if strings.HasPrefix(mut, "bitflip:") {
		return ":" + m
	}
	if strings.HasPrefix(m, "ext") {
		return ":field"
	}

	return ""
}
