//go:build verif

package dtls

// C03 Peer authentication. A rogue-but-competent peer (genuine pion endpoint whose credentials
// and outgoing flights are manipulated: configuration, lying crypto.Signer, FilterFlight hook with
// recomputed Finished) against an honest endpoint, over the table of deviations x policies x key
// types. Oracle: an independent acceptance table; expected-reject rows must end without an
// established connection and without application data, expected-accept rows (positive controls)
// must succeed.

import (
	"bytes"
	"context"
	"crypto"
	"crypto/ecdsa"
	"crypto/ed25519"
	"crypto/elliptic"
	"crypto/rand"
	"crypto/tls"
	"crypto/x509"
	"crypto/x509/pkix"
	"encoding/asn1"
	"encoding/pem"
	"fmt"
	"github.com/pion/dtls/v3/pkg/protocol"
	"io"
	"math/big"
	"net"
	"os"
	"path/filepath"
	"strings"
	"sync"
	"testing"
	"testing/synctest"
	"time"

	dtlsflight "github.com/pion/dtls/v3/internal/flight"
	dtlsstate "github.com/pion/dtls/v3/internal/state"
	"github.com/pion/dtls/v3/internal/verifhook"
	ref "github.com/pion/dtls/v3/internal/zzverifref"
	"github.com/pion/dtls/v3/pkg/protocol/handshake"
	"github.com/pion/dtls/v3/pkg/protocol/recordlayer"
)

// vfFlightScript rewrites the flights of one connection (keyed by its handshake config).
type vfFlightScript struct {
	Omit map[handshake.Type]bool // drop these message types from every generated flight
	// EditFinished, when set, replaces the verify_data of every Finished this connection generates (the record is
	// still protected correctly: only the proof inside is wrong)
	EditFinished func(verifyData []byte) []byte
	applied      int
	mu           sync.Mutex
}

var vfScripts sync.Map // *dtlsconfig.HandshakeConfig -> *vfFlightScript
var vfFilterOnce sync.Once

// vfExtraFilter edits generated flights in place (installed by other checks' init functions).
var vfExtraFilter func(key any, isClient bool, pkts []*dtlsflight.Packet)

func vfInstallFilter() {
	vfFilterOnce.Do(func() {
		verifhook.SetFilter(func(key any, isClient bool, flight string, state, cache any, pkts []*dtlsflight.Packet) []*dtlsflight.Packet {
			if vfExtraFilter != nil {
				vfExtraFilter(key, isClient, pkts)
			}
			v, ok := vfScripts.Load(key)
			if !ok {
				return pkts
			}
			sc, _ := v.(*vfFlightScript)

			return sc.apply(isClient, state, cache, pkts)
		})
	})
}

func (sc *vfFlightScript) apply(isClient bool, state, cache any, pkts []*dtlsflight.Packet) []*dtlsflight.Packet {
	if sc.EditFinished != nil {
		for _, p := range pkts {
			if h, ok := p.Record.Content.(*handshake.Handshake); ok {
				if f, ok := h.Message.(*handshake.MessageFinished); ok {
					f.VerifyData = sc.EditFinished(append([]byte(nil), f.VerifyData...))
					sc.mu.Lock()
					sc.applied++
					sc.mu.Unlock()
				}
			}
		}

		return pkts
	}
	var out []*dtlsflight.Packet
	changed := false
	for _, p := range pkts {
		if h, ok := p.Record.Content.(*handshake.Handshake); ok && h.Message != nil && sc.Omit[h.Message.Type()] {
			changed = true

			continue
		}
		out = append(out, p)
	}
	if !changed {
		return pkts
	}
	sc.mu.Lock()
	sc.applied++
	sc.mu.Unlock()
	// DTLS 1.2 client flight 5 carries its own Finished: recompute it over the transcript the peer will see.
	if st, ok := state.(*dtlsstate.State12); ok && isClient {
		if c, ok := cache.(*dtlsflight.Cache); ok {
			vfRefinish12(st, c, out)
		}
	}

	return out
}

// vfRefinish12 recomputes the client Finished of a filtered flight 5 (reference PRF).
func vfRefinish12(st *dtlsstate.State12, cache *dtlsflight.Cache, pkts []*dtlsflight.Packet) {
	var fin *handshake.MessageFinished
	for _, p := range pkts {
		if h, ok := p.Record.Content.(*handshake.Handshake); ok {
			if f, ok := h.Message.(*handshake.MessageFinished); ok {
				fin = f
			}
		}
	}
	if fin == nil || st.CipherSuite == nil || len(st.MasterSecret) == 0 {
		return
	}
	// peer's view: last ClientHello, then the server flight, then our (filtered) messages
	var transcript []byte
	items := cache.VFItems()
	var lastCH *dtlsflight.HandshakeCacheItem
	for _, it := range items {
		if it.IsClient && it.Typ == handshake.TypeClientHello && (lastCH == nil || it.MessageSequence > lastCH.MessageSequence) {
			lastCH = it
		}
	}
	if lastCH == nil {
		return
	}
	transcript = append(transcript, lastCH.Data...)
	for _, typ := range []handshake.Type{handshake.TypeServerHello, handshake.TypeCertificate, handshake.TypeServerKeyExchange,
		handshake.TypeCertificateRequest, handshake.TypeServerHelloDone} {
		for _, it := range items {
			if !it.IsClient && it.Typ == typ {
				transcript = append(transcript, it.Data...)

				break
			}
		}
	}
	seq := uint16(st.HandshakeSendSequence)
	for _, p := range pkts {
		h, ok := p.Record.Content.(*handshake.Handshake)
		if !ok {
			continue
		}
		if _, isFin := h.Message.(*handshake.MessageFinished); isFin {
			break
		}
		cp := *h
		cp.Header.MessageSequence = seq
		seq++
		raw, err := cp.Marshal()
		if err != nil {
			return
		}
		transcript = append(transcript, raw...)
	}
	fin.VerifyData = ref.VerifyData12(st.CipherSuite.HashFunc(), st.MasterSecret, true, transcript)
	st.LocalVerifyData = fin.VerifyData
}

// vfLyingSigner presents the victim's public key but signs with its own.
type vfLyingSigner struct {
	pub  crypto.PublicKey
	real crypto.Signer
}

func (l vfLyingSigner) Public() crypto.PublicKey { return l.pub }
func (l vfLyingSigner) Sign(r io.Reader, digest []byte, opts crypto.SignerOpts) ([]byte, error) {
	return l.real.Sign(r, digest, opts)
}

func vfStolenChain(chain tls.Certificate) tls.Certificate {
	k, _ := ecdsa.GenerateKey(elliptic.P256(), rand.Reader)
	victim, _ := chain.PrivateKey.(crypto.Signer)

	return tls.Certificate{Certificate: chain.Certificate, Leaf: chain.Leaf, PrivateKey: vfLyingSigner{pub: victim.Public(), real: k}}
}

// vfForgingSigner knows only the victim's PUBLIC ECDSA key. It reports an Ed25519 public key, so the endpoint it
// is given to announces the digest-less {Ed25519, Ed25519} scheme, and it "signs" with an ECDSA signature that is
// valid for the all-zero digest (v random, R = v*Q, r = R.x, s = r/v), which needs no private key. A verifier that
// lets the certificate's key type pick the verification and the announced scheme pick the (absent) digest accepts it.
type vfForgingSigner struct {
	victim *ecdsa.PublicKey
	pub    crypto.PublicKey
}

func (f vfForgingSigner) Public() crypto.PublicKey { return f.pub }
func (f vfForgingSigner) Sign(io.Reader, []byte, crypto.SignerOpts) ([]byte, error) {
	curve := f.victim.Curve
	n := curve.Params().N
	for {
		v, err := rand.Int(rand.Reader, n)
		if err != nil {
			return nil, err
		}
		if v.Sign() == 0 {
			continue
		}
		x, _ := curve.ScalarMult(f.victim.X, f.victim.Y, v.Bytes()) //nolint:staticcheck
		r := new(big.Int).Mod(x, n)
		sv := new(big.Int).Mul(r, new(big.Int).ModInverse(v, n))
		sv.Mod(sv, n)
		if r.Sign() == 0 || sv.Sign() == 0 {
			continue
		}

		return asn1.Marshal(struct{ R, S *big.Int }{r, sv})
	}
}

func vfForgedSchemeChain(chain tls.Certificate) tls.Certificate {
	victim, _ := chain.PrivateKey.(crypto.Signer)
	pub, _, _ := ed25519.GenerateKey(rand.Reader)

	return tls.Certificate{Certificate: chain.Certificate, Leaf: chain.Leaf,
		PrivateKey: vfForgingSigner{victim: victim.Public().(*ecdsa.PublicKey), pub: pub}} //nolint:forcetypeassert
}

// vfOwnLeafPlusVictimCert: a credential the rogue can really use (its own self-signed certificate, carrying the
// victim's names, and its own key) followed by the victim's genuine certificate: every check that looks at
// "a certificate of the chain" instead of the leaf is offered something valid to look at.
func vfOwnLeafPlusVictimCert(victim tls.Certificate, dns string) tls.Certificate {
	return vfOwnCertPlusVictimCert(victim, dns, false)
}

// vfOwnCertPlusVictimCert: with ca set the rogue's own self-signed certificate is flagged as a CA certificate, so that
// code which looks for "the end-entity certificate of the chain" by that flag lands on the victim's.
func vfOwnCertPlusVictimCert(victim tls.Certificate, dns string, ca bool) tls.Certificate {
	k, _ := ecdsa.GenerateKey(elliptic.P256(), rand.Reader)
	tmpl := &x509.Certificate{
		IsCA: ca, BasicConstraintsValid: ca,
		SerialNumber: big.NewInt(777), Subject: pkix.Name{CommonName: "vf-rogue-selfsigned"}, DNSNames: []string{dns},
		NotBefore: time.Date(1999, 6, 1, 0, 0, 0, 0, time.UTC), NotAfter: time.Date(2099, 1, 1, 0, 0, 0, 0, time.UTC),
		KeyUsage: x509.KeyUsageDigitalSignature, ExtKeyUsage: []x509.ExtKeyUsage{x509.ExtKeyUsageServerAuth, x509.ExtKeyUsageClientAuth},
	}
	der, err := x509.CreateCertificate(rand.Reader, tmpl, tmpl, k.Public(), k)
	if err != nil {
		panic(err)
	}
	leaf, _ := x509.ParseCertificate(der)

	return tls.Certificate{Certificate: [][]byte{der, victim.Certificate[0]}, PrivateKey: k, Leaf: leaf}
}

type vfC03Row struct {
	Name     string
	Ver      string // 12 | 13
	Rogue    string // "s": server is the rogue (client honest) ; "c": client is the rogue
	Dev      string
	Kind     string // ecdsa | rsa | ed25519
	Policy   ClientAuthType
	Verify   bool   // honest client verifies the server chain (RootCAs + ServerName)
	Expect   string // accept | reject | either
	PSK      bool
	Variant  string // cross dimension: plain | noems | cid | nohv | mtu100
	SrvName  string // the name the honest client is configured with (default vfServerName); may be an IP literal
	Callback bool   // the honest side also installs a VerifyPeerCertificate callback that accepts whatever it is shown
}

func (r vfC03Row) ID() string {
	id := fmt.Sprintf("%s/v%s/rogue-%s/%s/%s/policy%d/verify=%v/%s", r.Name, r.Ver, r.Rogue, r.Dev, r.Kind, r.Policy, r.Verify, r.Variant)
	if r.SrvName != "" {
		id += "/name=" + r.SrvName
	}
	if r.Callback {
		id += "/permissive-callback"
	}

	return id
}

func vfC03Rows() []vfC03Row {
	var rows []vfC03Row
	variants := []string{"plain"}
	if vfThorough() {
		variants = []string{"plain", "noems", "cid", "nohv", "mtu100"}
	}
	for _, variant := range variants {
		for _, ver := range []string{"12", "13"} {
			kinds := []string{"ecdsa", "rsa", "ed25519"}
			if ver == "13" {
				kinds = []string{"ecdsa", "ed25519"}
			}
			// --- rogue server, honest client
			for _, kind := range kinds {
				for _, verify := range []bool{true, false} {
					exp := func(whenVerify, whenSkip string) string {
						if verify {
							return whenVerify
						}

						return whenSkip
					}
					add := func(dev, e string) {
						rows = append(rows, vfC03Row{Name: "server-cred", Ver: ver, Rogue: "s", Dev: dev, Kind: kind, Verify: verify, Expect: e, Variant: variant})
					}
					add("control", "accept")
					add("stolen-chain-own-key", "reject")
					add("omit-certificate", "reject")
					if ver == "12" {
						add("omit-server-key-exchange", "reject")
					} else {
						add("omit-certificate-verify", "reject")
						add("omit-certificate-and-verify", "reject")
					}
					if kind == "ecdsa" {
						add("key-usage-of-the-other-role", exp("reject", "accept"))
						add("expires-between-connections", exp("reject", "accept"))
						add("victim-chain-forged-digestless-scheme", "reject")
						add("own-selfsigned-leaf-plus-victim-cert", exp("reject", "accept"))
						add("own-selfsigned-ca-cert-plus-victim-cert", exp("reject", "accept"))
						add("unknown-ca", exp("reject", "accept"))
						add("wrong-name", exp("reject", "accept"))
						add("expired", exp("reject", "accept"))
					}
				}
			}
			// --- the configured server name is an IP literal: it is still the name the chain has to be valid for
			for _, ip := range []string{"192.0.2.7", "2001:db8::7"} {
				rows = append(rows,
					vfC03Row{Name: "server-cred", Ver: ver, Rogue: "s", Dev: "ip-name-control", Kind: "ecdsa", Verify: true, Expect: "accept", Variant: variant, SrvName: ip},
					vfC03Row{Name: "server-cred", Ver: ver, Rogue: "s", Dev: "ip-name-cert-for-other-name", Kind: "ecdsa", Verify: true, Expect: "reject", Variant: variant, SrvName: ip})
			}
			// --- rogue client, honest server (server verifies against ClientCAs)
			for _, pol := range []ClientAuthType{NoClientCert, RequestClientCert, RequireAnyClientCert, VerifyClientCertIfGiven, RequireAndVerifyClientCert} {
				table := map[string]string{}
				switch pol {
				case NoClientCert:
					table = map[string]string{"none": "accept", "valid": "accept", "unknown-ca": "accept", "expired": "accept", "stolen-chain-own-key": "accept", "omit-certificate-verify": "accept", "victim-chain-forged-digestless-scheme": "accept"}
				case RequestClientCert:
					table = map[string]string{"none": "accept", "valid": "accept", "unknown-ca": "accept", "expired": "accept", "stolen-chain-own-key": "either", "omit-certificate-verify": "either", "victim-chain-forged-digestless-scheme": "either"}
				case RequireAnyClientCert:
					table = map[string]string{"none": "reject", "no-credential-certificate-message-omitted": "reject", "valid": "accept", "unknown-ca": "accept", "expired": "accept", "stolen-chain-own-key": "reject", "omit-certificate-verify": "reject", "omit-certificate": "reject", "victim-chain-forged-digestless-scheme": "reject"}
				case VerifyClientCertIfGiven:
					table = map[string]string{"none": "accept", "valid": "accept", "unknown-ca": "reject", "expired": "reject", "stolen-chain-own-key": "reject", "omit-certificate-verify": "reject", "own-selfsigned-leaf-plus-victim-cert": "reject", "own-selfsigned-ca-cert-plus-victim-cert": "reject", "victim-chain-forged-digestless-scheme": "reject", "expires-between-connections": "reject", "key-usage-of-the-other-role": "reject"}
				case RequireAndVerifyClientCert:
					table = map[string]string{"none": "reject", "no-credential-certificate-message-omitted": "reject", "valid": "accept", "unknown-ca": "reject", "expired": "reject", "stolen-chain-own-key": "reject", "omit-certificate-verify": "reject", "omit-certificate": "reject", "own-selfsigned-leaf-plus-victim-cert": "reject", "own-selfsigned-ca-cert-plus-victim-cert": "reject", "victim-chain-forged-digestless-scheme": "reject", "expires-between-connections": "reject", "key-usage-of-the-other-role": "reject"}
				}
				for dev, e := range table {
					ks := []string{"ecdsa"}
					if dev == "valid" || dev == "stolen-chain-own-key" {
						ks = kinds
					}
					for _, kind := range ks {
						rows = append(rows, vfC03Row{Name: "client-cred", Ver: ver, Rogue: "c", Dev: dev, Kind: kind, Policy: pol, Verify: true, Expect: e, Variant: variant})
					}
				}
			}
		}
		// PSK
		for _, sn := range []string{"PSK-GCM", "ECDHEPSK-CBC", "PSK-CHACHA"} {
			rows = append(rows, vfC03Row{Name: "psk/" + sn, Ver: "12", Rogue: "c", Dev: "control", PSK: true, Expect: "accept", Variant: variant})
			rows = append(rows, vfC03Row{Name: "psk/" + sn, Ver: "12", Rogue: "c", Dev: "wrong-psk", PSK: true, Expect: "reject", Variant: variant})
			rows = append(rows, vfC03Row{Name: "psk/" + sn, Ver: "12", Rogue: "s", Dev: "wrong-psk", PSK: true, Expect: "reject", Variant: variant})
			// the rogue presents an identity the honest side has no key for - its key lookup answers (nil, nil), the
			// way a Go map lookup does - and keys the handshake with the empty key
			rows = append(rows, vfC03Row{Name: "psk/" + sn, Ver: "12", Rogue: "c", Dev: "unprovisioned-identity-empty-key", PSK: true, Expect: "reject", Variant: variant})
			rows = append(rows, vfC03Row{Name: "psk/" + sn, Ver: "12", Rogue: "s", Dev: "unprovisioned-identity-empty-key", PSK: true, Expect: "reject", Variant: variant})
			// ... or with an empty, non-nil slice ([]byte(table[id]) over a map of strings)
			rows = append(rows, vfC03Row{Name: "psk/" + sn, Ver: "12", Rogue: "c", Dev: "unprovisioned-identity-empty-nonnil-key", PSK: true, Expect: "reject", Variant: variant})
			rows = append(rows, vfC03Row{Name: "psk/" + sn, Ver: "12", Rogue: "s", Dev: "unprovisioned-identity-empty-nonnil-key", PSK: true, Expect: "reject", Variant: variant})
		}
	}
	// An application callback that has no objection must not replace the library's own verdict: every row whose
	// outcome rests on chain verification is repeated with a permissive VerifyPeerCertificate on the honest side.
	chainDevs := map[string]bool{"control": true, "valid": true, "unknown-ca": true, "wrong-name": true, "expired": true, "expires-between-connections": true, "key-usage-of-the-other-role": true,
		"own-selfsigned-leaf-plus-victim-cert": true, "own-selfsigned-ca-cert-plus-victim-cert": true, "ip-name-cert-for-other-name": true, "stolen-chain-own-key": true}
	for _, r := range append([]vfC03Row(nil), rows...) {
		if r.PSK || !chainDevs[r.Dev] || r.Kind != "ecdsa" || !r.Verify || r.Variant != "plain" {
			continue
		}
		if r.Rogue == "c" && r.Policy != VerifyClientCertIfGiven && r.Policy != RequireAndVerifyClientCert {
			continue
		}
		r.Callback = true
		rows = append(rows, r)
	}
	// deterministic order
	return rows
}

func vfC03Run(t *testing.T, res *vfResult, row vfC03Row) {
	pki := vfGetPKI()
	var cO, sO []Option
	if row.Ver == "13" {
		cO, sO = append(cO, vfV13()...), append(sO, vfV13()...)
	} else {
		cO, sO = append(cO, vfV12()...), append(sO, vfV12()...)
	}
	switch row.Variant {
	case "noems":
		cO, sO = append(cO, WithExtendedMasterSecret(DisableExtendedMasterSecret)), append(sO, WithExtendedMasterSecret(DisableExtendedMasterSecret))
	case "cid":
		cO, sO = append(cO, WithConnectionIDGenerator(vfCIDGen(4))), append(sO, WithConnectionIDGenerator(vfCIDGen(4)))
	case "mtu100":
		if row.Ver == "12" {
			cO, sO = append(cO, WithMTU(100)), append(sO, WithMTU(100))
		} else {
			cO, sO = append(cO, WithMTU(300)), append(sO, WithMTU(300))
		}
	}
	// omissions that change the transcript before ClientKeyExchange need a master secret that does not
	// depend on the transcript for the rogue to stay competent
	if row.Rogue == "c" && row.Dev == "omit-certificate" && row.Ver == "12" {
		cO, sO = append(cO, WithExtendedMasterSecret(DisableExtendedMasterSecret)), append(sO, WithExtendedMasterSecret(DisableExtendedMasterSecret))
	}
	script := &vfFlightScript{Omit: map[handshake.Type]bool{}}
	var co []ClientOption
	var so []ServerOption
	if row.PSK {
		sn := row.Name[len("psk/"):]
		si := vfSuiteByName(sn)
		good := func([]byte) ([]byte, error) { return vfPSKKey, nil }
		bad := func([]byte) ([]byte, error) { return []byte{9, 9, 9, 9, 9, 9, 9, 9}, nil }
		cpsk, spsk := good, good
		if row.Dev == "wrong-psk" {
			if row.Rogue == "c" {
				cpsk = bad
			} else {
				spsk = bad
			}
		}
		cid, sid := "id", "hint"
		if strings.HasPrefix(row.Dev, "unprovisioned-identity-empty-") {
			keys := map[string][]byte{"id": vfPSKKey, "hint": vfPSKKey}
			lookup := func(h []byte) ([]byte, error) { return keys[string(h)], nil }
			if row.Dev == "unprovisioned-identity-empty-nonnil-key" {
				skeys := map[string]string{"id": string(vfPSKKey), "hint": string(vfPSKKey)}
				lookup = func(h []byte) ([]byte, error) { return []byte(skeys[string(h)]), nil }
			}
			empty := func([]byte) ([]byte, error) { return []byte{}, nil }
			if row.Rogue == "c" {
				cpsk, spsk, cid = empty, lookup, "mallory"
			} else {
				spsk, cpsk, sid = empty, lookup, "mallory"
			}
		}
		cO = append(cO, WithCipherSuites(si.ID), WithPSK(cpsk), WithPSKIdentityHint([]byte(cid)))
		sO = append(sO, WithCipherSuites(si.ID), WithPSK(spsk), WithPSKIdentityHint([]byte(sid)))
		co, so = vfCO(cO...), vfSO(sO...)
	} else {
		serverCert := pki.Leaf(row.Kind, "server")
		clientCert := pki.Leaf(row.Kind, "client")
		haveClientCert := true
		if row.Rogue == "s" {
			switch row.Dev {
			case "unknown-ca":
				serverCert = pki.Leaf("ecdsa", "server-rogueca")
			case "wrong-name":
				serverCert = pki.Leaf("ecdsa", "server-wrongname")
			case "ip-name-control":
				serverCert = pki.Leaf("ecdsa", "server-ip")
			case "ip-name-cert-for-other-name":
				// a genuine certificate of the same CA, whose key the server holds, issued for a DNS name only
			case "expired":
				serverCert = pki.Leaf("ecdsa", "server-expired")
			case "expires-between-connections":
				serverCert = pki.Leaf("ecdsa", "server-shortlived")
			case "key-usage-of-the-other-role":
				serverCert = pki.Leaf("ecdsa", "server-clientauth-eku")
			case "stolen-chain-own-key":
				serverCert = vfStolenChain(serverCert)
			case "victim-chain-forged-digestless-scheme":
				serverCert = vfForgedSchemeChain(serverCert)
			case "own-selfsigned-leaf-plus-victim-cert":
				serverCert = vfOwnLeafPlusVictimCert(serverCert, vfServerName)
			case "own-selfsigned-ca-cert-plus-victim-cert":
				serverCert = vfOwnCertPlusVictimCert(serverCert, vfServerName, true)
			case "omit-certificate":
				script.Omit[handshake.TypeCertificate] = true
			case "omit-server-key-exchange":
				script.Omit[handshake.TypeServerKeyExchange] = true
			case "omit-certificate-verify":
				script.Omit[handshake.TypeCertificateVerify] = true
			case "omit-certificate-and-verify":
				script.Omit[handshake.TypeCertificate] = true
				script.Omit[handshake.TypeCertificateVerify] = true
			}
		} else {
			switch row.Dev {
			case "none":
				haveClientCert = false
			case "no-credential-certificate-message-omitted":
				// a client without any certificate that does not even send the (empty) Certificate message: its
				// last flight is the Finished alone
				haveClientCert = false
				script.Omit[handshake.TypeCertificate] = true
				script.Omit[handshake.TypeCertificateVerify] = true
			case "unknown-ca":
				clientCert = pki.Leaf("ecdsa", "client-rogueca")
			case "expired":
				clientCert = pki.Leaf("ecdsa", "client-expired")
			case "expires-between-connections":
				clientCert = pki.Leaf("ecdsa", "client-shortlived")
			case "key-usage-of-the-other-role":
				clientCert = pki.Leaf("ecdsa", "client-serverauth-eku")
			case "stolen-chain-own-key":
				clientCert = vfStolenChain(clientCert)
			case "victim-chain-forged-digestless-scheme":
				clientCert = vfForgedSchemeChain(clientCert)
			case "own-selfsigned-leaf-plus-victim-cert":
				clientCert = vfOwnLeafPlusVictimCert(clientCert, "vf.client.example")
			case "own-selfsigned-ca-cert-plus-victim-cert":
				clientCert = vfOwnCertPlusVictimCert(clientCert, "vf.client.example", true)
			case "omit-certificate-verify":
				script.Omit[handshake.TypeCertificateVerify] = true
			case "omit-certificate":
				script.Omit[handshake.TypeCertificate] = true
			}
		}
		sO = append(sO, WithCertificates(serverCert))
		if haveClientCert {
			// the rogue presents its certificate whatever certificate_authorities the request lists
			cc := clientCert
			cO = append(cO, WithGetClientCertificate(func(*CertificateRequestInfo) (*tls.Certificate, error) { return &cc, nil }))
		}
		if row.Verify {
			name := vfServerName
			if row.SrvName != "" {
				name = row.SrvName
			}
			cO = append(cO, WithRootCAs(pki.Pool), WithServerName(name))
		} else {
			cO = append(cO, WithInsecureSkipVerify(true))
		}
		if row.Callback {
			permissive := WithVerifyPeerCertificate(func([][]byte, [][]*x509.Certificate) error { return nil })
			if row.Rogue == "s" {
				cO = append(cO, permissive)
			} else {
				sO = append(sO, permissive)
			}
		}
		co, so = vfCO(cO...), vfSO(sO...)
		so = append(so, WithClientAuth(row.Policy), WithClientCAs(pki.Pool))
	}
	if row.Dev == "expires-between-connections" {
		// The same peer, chain and configuration were accepted while the certificate was valid (required: it is the
		// positive control); the judged connection is made twelve virtual hours later, after NotAfter.
		so0 := so
		if row.Variant == "nohv" || row.Ver == "13" {
			so0 = append(append([]ServerOption(nil), so...), WithInsecureSkipVerifyHello(true))
		}
		p0, err := vfNewPair(vfNewNet(), co, so0)
		if err != nil {
			res.Count("config_rejected", 1)

			return
		}
		ce, se := p0.Handshake(90 * time.Second)
		p0.Close()
		synctest.Wait()
		if ce != nil || se != nil {
			res.Violate(fmt.Sprintf("C03:positive-control-failed:v%s:rogue-%s:%s:first-connection", row.Ver, row.Rogue, row.Dev),
				fmt.Sprintf("%s: the certificate is still valid on the first connection, which failed: client=%v server=%v", row.ID(), ce, se), map[string]any{"row": row})

			return
		}
		res.Count("accepted_while_valid", 1)
		time.Sleep(12 * time.Hour)
	}
	if row.Variant == "nohv" || row.Ver == "13" {
		so = append(so, WithInsecureSkipVerifyHello(true))
	}
	n := vfNewNet()
	p, err := vfNewPair(n, co, so)
	res.Eval(1)
	if err != nil {
		res.Count("config_rejected", 1)
		res.Seen("config_rejected_rows", row.ID()+": "+err.Error())

		return
	}
	rogue, honest := vfSideOf(p, row.Rogue)
	if len(script.Omit) > 0 {
		vfScripts.Store(rogue.Conn.handshakeConfig, script)
		defer vfScripts.Delete(rogue.Conn.handshakeConfig)
	}
	cerr, serr := p.Handshake(90 * time.Second)
	herr := cerr
	if honest == p.S {
		herr = serr
	}
	established := herr == nil
	// the rogue tries to push data regardless
	honest.StartPump()
	marker := []byte("rogue-payload-" + vfShortHash(row.ID()))
	done := make(chan struct{})
	go func() {
		defer close(done)
		_ = rogue.Conn.SetWriteDeadline(time.Now().Add(5 * time.Second))
		_, _ = rogue.Conn.Write(marker)
	}()
	time.Sleep(10 * time.Second)
	synctest.Wait()
	gotData := false
	for _, r := range honest.ReadsSnapshot() {
		if bytes.Contains(r, marker) {
			gotData = true
		}
	}
	if len(script.Omit) > 0 {
		script.mu.Lock()
		ap := script.applied
		script.mu.Unlock()
		if ap == 0 && row.Expect == "reject" && !(row.Rogue == "c" && row.Policy == NoClientCert) {
			res.Count("deviation_not_applied", 1)
			res.Seen("deviation_not_applied_rows", row.ID())
		}
	}
	res.NonTrivial(row.ID())
	res.Count("rows/"+row.Expect, 1)
	outcome := "rejected"
	if established {
		outcome = "established"
	}
	res.Count("outcome/"+outcome, 1)
	// root-cause level: version, which side deviates, the deviation and (for client rows) the policy;
	// key type and the honest side's verification setting are in the description
	sigRow := fmt.Sprintf("v%s:rogue-%s:%s", row.Ver, row.Rogue, row.Dev)
	if row.Rogue == "c" && !row.PSK {
		sigRow += fmt.Sprintf(":policy%d", row.Policy)
	}
	switch row.Expect {
	case "reject":
		if established || gotData {
			res.Violate("C03:accepted-without-credential:"+sigRow,
				fmt.Sprintf("%s: the honest %s reported an established connection (established=%v, application data delivered=%v) although the peer lacked the required credential; rogue HandshakeContext: %v",
					row.ID(), honest.Name, established, gotData, map[bool]error{true: cerr, false: serr}[row.Rogue == "c"]), map[string]any{"row": row})
		} else {
			res.Count("rejected_as_required", 1)
			res.Seen("reject_reasons", fmt.Sprintf("%s/%s: %s", row.Ver, row.Dev, vfErrNorm(herr)))
		}
	case "accept":
		if !established || (cerr != nil || serr != nil) {
			res.Violate("C03:positive-control-failed:"+sigRow,
				fmt.Sprintf("%s: a peer holding the required credential was refused: client=%v server=%v", row.ID(), cerr, serr), map[string]any{"row": row})
		} else {
			res.Count("accepted_as_required", 1)
			if !gotData {
				res.Count("accept_rows_without_data", 1)
			}
		}
	default:
		res.Count("either/"+outcome, 1)
	}
	res.Sample(map[string]any{"row": row.ID(), "expect": row.Expect, "honest_result": vfErrClass(herr), "data_delivered": gotData})
	p.Close()
	<-done
	synctest.Wait()
}

// vfC03ResumeBypass: a client without any certificate runs a full handshake up to ClientKeyExchange and
// ChangeCipherSpec, withholds Certificate and Finished, and then offers the session of that unfinished handshake
// (whose master secret it knows) on a second connection. A server that requires a client certificate must not
// complete that abbreviated handshake: it never saw a credential.
func vfC03ResumeBypass(t *testing.T, res *vfResult, pol ClientAuthType, ems bool) {
	pki := vfGetPKI()
	res.Eval(1)
	id := fmt.Sprintf("resume-bypass/policy%d/ems=%v", pol, ems)
	replay := map[string]any{"row": id}
	sS := vfNewMemStore("s")
	emsOpt := RequestExtendedMasterSecret
	if !ems {
		emsOpt = DisableExtendedMasterSecret
	}
	mkServer := func() []ServerOption {
		so := vfSO(append(vfV12(), WithCertificates(pki.Leaf("ecdsa", "server")), WithSessionStore(sS), WithExtendedMasterSecret(emsOpt))...)

		return append(so, WithClientAuth(pol), WithClientCAs(pki.Pool), WithInsecureSkipVerifyHello(true))
	}
	mkClient := func(store SessionStore) []ClientOption {
		o := append(vfV12(), WithInsecureSkipVerify(true), WithServerName(vfServerName), WithExtendedMasterSecret(emsOpt))
		if store != nil {
			o = append(o, WithSessionStore(store))
		}

		return vfCO(o...)
	}
	// connection 1: the unfinished handshake
	p, err := vfNewPair(vfNewNet(), mkClient(vfNewMemStore("c0")), mkServer())
	if err != nil {
		res.Count("config_rejected", 1)

		return
	}
	sc := &vfFlightScript{Omit: map[handshake.Type]bool{handshake.TypeCertificate: true, handshake.TypeFinished: true}}
	vfScripts.Store(p.C.Conn.handshakeConfig, sc)
	defer vfScripts.Delete(p.C.Conn.handshakeConfig)
	ce, se := p.Handshake(8 * time.Second)
	var sid, secret []byte
	if st, err := dtlsstate.As12(p.C.Conn.state); err == nil {
		sid, secret = append([]byte(nil), st.SessionID...), append([]byte(nil), st.MasterSecret...)
	}
	p.Close()
	synctest.Wait()
	if ce == nil || se == nil {
		res.Count("resume_bypass_first_connection_completed", 1)
	}
	_, stored := sS.Snapshot()[string(sid)]
	res.Seen("resume_bypass_first", fmt.Sprintf("%s: client=%s server=%s session-stored=%v", id, vfErrNorm(ce), vfErrNorm(se), stored && len(sid) > 0))
	if len(sid) == 0 || len(secret) == 0 {
		res.Count("resume_bypass_no_secret", 1)

		return
	}
	// connection 2: offer that session
	cS := vfNewMemStore("c")
	_ = cS.Set([]byte(vfServerAddr+"_"+vfServerName), Session{ID: sid, Secret: secret})
	n := vfNewNet()
	p2, err := vfNewPair(n, mkClient(cS), mkServer())
	if err != nil {
		return
	}
	ce, se = p2.Handshake(20 * time.Second)
	res.NonTrivial(id)
	res.Count("resume_bypass_attempts", 1)
	abbreviated := true
	for _, w := range n.Emissions("s") {
		if strings.Contains(vfKind(w.Data), "ServerHelloDone") {
			abbreviated = false
		}
	}
	res.Seen("resume_bypass_second", fmt.Sprintf("%s: client=%s server=%s abbreviated=%v", id, vfErrNorm(ce), vfErrNorm(se), abbreviated))
	if se == nil && (pol == RequireAnyClientCert || pol == RequireAndVerifyClientCert) {
		res.Violate(fmt.Sprintf("C03:accepted-without-credential:v12:resumed-session-of-unfinished-handshake:policy%d", pol),
			fmt.Sprintf("the server (client-auth policy %d) completed an abbreviated=%v handshake with a client that never presented a certificate: it resumed the session "+
				"of an earlier handshake that stopped before Finished and before any client credential was seen; %s", pol, abbreviated, id), replay)
	}
	p2.Close()
	synctest.Wait()
}

// vfC03ResumeOtherName: a client with a session store verifies the server for one name, then connects to the same
// transport address configured with ANOTHER name the server's certificate is not valid for. Whatever the session
// machinery does, the second connection may only be established if the peer is authenticated for the second name:
// a session stored for the first name must not be resumed in its place.
func vfC03ResumeOtherName(t *testing.T, res *vfResult, first, second string) {
	pki := vfGetPKI()
	res.Eval(1)
	id := fmt.Sprintf("resume-other-name/first=%s/second=%s", first, second)
	cS, sS := vfNewMemStore("c"), vfNewMemStore("s")
	leaf := pki.Leaf("ecdsa", "server")
	if net.ParseIP(first) != nil {
		leaf = pki.Leaf("ecdsa", "server-ip") // valid for 192.0.2.7 and 2001:db8::7 only
	}
	mk := func(name string) ([]ClientOption, []ServerOption) {
		co := vfCO(append(vfV12(), WithRootCAs(pki.Pool), WithServerName(name), WithSessionStore(cS))...)
		so := append(vfSO(append(vfV12(), WithCertificates(leaf), WithSessionStore(sS))...), WithInsecureSkipVerifyHello(true))

		return co, so
	}
	co, so := mk(first)
	p, err := vfNewPair(vfNewNet(), co, so)
	if err != nil {
		res.Count("config_rejected", 1)

		return
	}
	ce, se := p.Handshake(30 * time.Second)
	p.Close()
	synctest.Wait()
	if ce != nil || se != nil {
		res.Violate("C03:positive-control-failed:resume-other-name:first-connection", fmt.Sprintf("%s: client=%v server=%v", id, ce, se), map[string]any{"row": id})

		return
	}
	co, so = mk(second)
	n := vfNewNet()
	p2, err := vfNewPair(n, co, so)
	if err != nil {
		res.Count("config_rejected", 1)

		return
	}
	ce, se = p2.Handshake(30 * time.Second)
	res.NonTrivial(id)
	res.Count("resume_other_name_attempts", 1)
	abbreviated := true
	for _, w := range n.Emissions("s") {
		if strings.Contains(vfKind(w.Data), "ServerHelloDone") {
			abbreviated = false
		}
	}
	if ce == nil {
		res.Violate("C03:accepted-without-credential:v12:rogue-s:session-of-another-server-name",
			fmt.Sprintf("%s: the client, now configured with a server name the peer's certificate is not valid for, reported an established connection (abbreviated=%v): the session verified for the first name stood in for the missing credential",
				id, abbreviated), map[string]any{"row": id})
	} else {
		res.Count("rejected_as_required", 1)
	}
	p2.Close()
	synctest.Wait()
}

// vfC03PSKPolicyUnder13: the honest client's only credential policy is a pre-shared key (no roots, no server name),
// but its version range includes DTLS 1.3, where this implementation authenticates with certificates only. A server
// that holds some certificate of a CA the machine trusts - and no PSK - must not obtain an established connection.
// (The machine's trust store is simulated: SSL_CERT_FILE points at the harness CA for this test process.)
func vfC03PSKPolicyUnder13(t *testing.T, res *vfResult, clientVer string) {
	pki := vfGetPKI()
	res.Eval(1)
	id := "psk-only-client-with-dtls13-enabled/client-versions=" + clientVer
	psk := func([]byte) ([]byte, error) { return vfPSKKey, nil }
	var cO []Option
	switch clientVer {
	case "dual":
		cO = append(cO, WithMinVersion(protocol.Version1_2), WithMaxVersion(protocol.Version1_3),
			WithCipherSuites(TLS_PSK_WITH_AES_128_GCM_SHA256, TLS_AES_128_GCM_SHA256))
	case "13":
		cO = append(cO, vfV13()...)
	case "dual-default-suites":
		cO = append(cO, WithMinVersion(protocol.Version1_2), WithMaxVersion(protocol.Version1_3))
	}
	cO = append(cO, WithPSK(psk), WithPSKIdentityHint([]byte("id")))
	sO := append(vfV13(), WithCertificates(pki.Leaf("ecdsa", "server-wrongname"))) // any certificate of the trusted CA
	n := vfNewNet()
	p, err := vfNewPair(n, vfCO(cO...), append(vfSO(sO...), WithInsecureSkipVerifyHello(true)))
	res.NonTrivial(id)
	res.Count("psk_policy_under_13_cases", 1)
	if err != nil {
		res.Count("psk_policy_under_13_config_refused", 1)
		res.Seen("psk_policy_under_13_config_errors", id+": "+vfErrNorm(err))

		return
	}
	ce, se := p.Handshake(20 * time.Second)
	if ce == nil {
		res.Violate("C03:accepted-without-credential:v13:rogue-s:psk-only-client-accepts-certificate",
			fmt.Sprintf("%s: a client whose only credential policy is a pre-shared key completed a DTLS 1.3 handshake (server error: %v) with a server that holds no PSK, only some certificate of a CA in the machine's trust store (no server name is checked)", id, se),
			map[string]any{"row": id})
	} else {
		res.Count("rejected_as_required", 1)
	}
	p.Close()
	synctest.Wait()
}

// vfC03AckOnlyClient: a DTLS 1.3 client that went through the key exchange (no credential is needed for that) withholds
// its Certificate / CertificateVerify / Finished and sends a single ACK, protected under the handshake keys, that names
// every record of the server's flight. An acknowledgement proves nothing: the server must not report success.
func vfC03AckOnlyClient(t *testing.T, res *vfResult, policy ClientAuthType, withCert bool) {
	pki := vfGetPKI()
	res.Eval(1)
	id := fmt.Sprintf("ack-only-client/policy%d/cert=%v", policy, withCert)
	cO := append(vfV13(), WithInsecureSkipVerify(true))
	if withCert {
		cO = append(cO, WithCertificates(pki.Leaf("ecdsa", "client-rogueca")))
	}
	sO := append(vfV13(), WithCertificates(pki.Leaf("ecdsa", "server")))
	so := append(vfSO(sO...), WithClientAuth(policy), WithClientCAs(pki.Pool))
	n := vfNewNet()
	p, err := vfNewPair(n, vfCO(cO...), so)
	if err != nil {
		res.Count("config_rejected", 1)

		return
	}
	var mu sync.Mutex
	dropped := 0
	sawProtected := make(chan struct{})
	n.SetOnSend(func(n *vfNet, w *vfWire) {
		if w.From == "c" && len(w.Data) > 0 && w.Data[0]&0xe0 == 0x20 {
			mu.Lock()
			dropped++
			if dropped == 1 {
				close(sawProtected)
			}
			mu.Unlock()

			return // everything the client protects by itself is lost
		}
		n.Deliver(w.Dst, w.Data, vfAddrOf(w.From))
	})
	ctx, cancel := context.WithTimeout(context.Background(), 30*time.Second)
	defer cancel()
	var wg sync.WaitGroup
	wg.Add(2)
	go func() { defer wg.Done(); p.C.Err = p.C.Conn.HandshakeContext(ctx) }()
	go func() { defer wg.Done(); p.S.Err = p.S.Conn.HandshakeContext(ctx) }()
	select {
	case <-sawProtected:
		records := make([]protocol.RecordNumber, 0, 16)
		for seq := uint64(0); seq < 16; seq++ {
			records = append(records, protocol.RecordNumber{Epoch: 2, SequenceNumber: seq})
		}
		ack := &dtlsflight.Packet{
			Record:        &recordlayer.RecordLayer{Header: recordlayer.Header{Version: protocol.Version1_2, Epoch: 2}, Content: &protocol.ACK{Records: records}},
			ShouldEncrypt: true,
		}
		p.C.Conn.writeLock.Lock()
		dgs, _, aerr := p.C.Conn.prepareRawPacketsTracked([]*dtlsflight.Packet{ack})
		p.C.Conn.writeLock.Unlock()
		if aerr != nil {
			res.Count("ack_only_client_ack_not_built", 1)
		}
		for _, d := range dgs {
			n.Deliver(vfServerAddr, d.raw, vfAddr(vfClientAddr))
		}
		res.Count("ack_only_client_acks_sent", int64(len(dgs)))
	case <-ctx.Done():
	}
	wg.Wait()
	res.NonTrivial(id)
	if p.S.Err == nil {
		st, _ := p.S.Conn.ConnectionState()
		res.Violate(fmt.Sprintf("C03:accepted-without-credential:v13:rogue-c:ack-only-client:policy%d", policy),
			fmt.Sprintf("%s: the server reported a successful handshake (peer certificates: %d) although the client's Certificate, CertificateVerify and Finished never arrived: one ACK under the handshake keys was enough", id, len(st.PeerCertificates)),
			map[string]any{"ack_only": id})
	} else {
		res.Count("ack_only_client_refused", 1)
	}
	n.SetOnSend(nil)
	p.Close()
	synctest.Wait()
}

func TestVF_C03(t *testing.T) {
	vfGetPKI()
	vfInstallFilter()
	// the machine's trust store, for endpoints configured without RootCAs: the harness CA only
	if dir := vfEnv().Out; dir != "" {
		pemPath := filepath.Join(dir, "c03-system-roots.pem")
		_ = os.WriteFile(pemPath, pem.EncodeToMemory(&pem.Block{Type: "CERTIFICATE", Bytes: vfGetPKI().CA.Raw}), 0o600)
		_ = os.Setenv("SSL_CERT_FILE", pemPath)
		_ = os.Setenv("SSL_CERT_DIR", filepath.Join(dir, "no-such-dir"))
	}
	res := vfNewResult("C03", "exhaustive deviation table: rogue server (unknown CA, wrong name, expired, stolen chain signed with another key, "+
		"omitted Certificate / ServerKeyExchange / CertificateVerify) x key type x client verification on/off, rogue client (no certificate, "+
		"untrusted, expired, stolen chain, omitted CertificateVerify / Certificate) x the five client-auth policies, wrong PSK, for DTLS 1.2 and 1.3; "+
		"thorough crosses with EMS off / CID / no hello-verify / small MTU. The rogue is a genuine endpoint (Finished recomputed after omissions). "+
		"Distinct = distinct table rows executed")
	res.Assume("acceptance table from the documented ClientAuthType semantics; RequestClientCert with a bad or missing proof is 'either'",
		"a rogue whose deviation prevents it from computing matching keys (EMS with a changed pre-CKE transcript) is run with EMS disabled")
	rows := vfC03Rows()
	vfCaseName = func(i int) string { return rows[i].ID() }
	vfBubbles(t, len(rows), func(t *testing.T, i int) { vfC03Run(t, res, rows[i]) })
	vfCaseName = nil
	type rb struct {
		pol ClientAuthType
		ems bool
	}
	var rbs []rb
	for _, pol := range []ClientAuthType{NoClientCert, RequestClientCert, RequireAnyClientCert, VerifyClientCertIfGiven, RequireAndVerifyClientCert} {
		rbs = append(rbs, rb{pol, true}, rb{pol, false})
	}
	vfBubbles(t, len(rbs), func(t *testing.T, i int) { vfC03ResumeBypass(t, res, rbs[i].pol, rbs[i].ems) })
	names := [][2]string{{vfServerName, "other.example"}, {"192.0.2.7", "192.0.2.8"}, {"2001:db8::7", "2001:db8::8"}, {"192.0.2.7", "other.example"}, {vfServerName, "192.0.2.8"}}
	vfBubbles(t, len(names), func(t *testing.T, i int) { vfC03ResumeOtherName(t, res, names[i][0], names[i][1]) })
	pv := []string{"dual", "13", "dual-default-suites"}
	vfBubbles(t, len(pv), func(t *testing.T, i int) { vfC03PSKPolicyUnder13(t, res, pv[i]) })
	aoc := []ClientAuthType{NoClientCert, RequireAnyClientCert, RequireAndVerifyClientCert, VerifyClientCertIfGiven}
	vfBubbles(t, len(aoc)*2, func(t *testing.T, i int) { vfC03AckOnlyClient(t, res, aoc[i/2], i%2 == 1) })
	res.Exhaustive = true
	res.Floor("rejected_as_required", 40)
	res.Floor("accepted_as_required", 30)
	res.Finish(t)
}
