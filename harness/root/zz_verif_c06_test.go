//go:build verif

package dtls

// C06 Anti-replay. The sender writes n unique payloads whose records the router captures; an arrival
// script (sequence of record indices, repetitions allowed) is then replayed to the receiver in lock
// step. Oracle: no payload is delivered twice; every record whose FIRST arrival is fewer than W
// sequence numbers behind the newest accepted record of its epoch (independent window model over the
// decoded wire sequence numbers) is delivered.

import (
	"bytes"
	"context"
	"fmt"
	"strings"
	"sync"
	"sync/atomic"
	"testing"
	"testing/synctest"
	"time"
)

type vfC06Case struct {
	Name      string
	Cfg       vfCfg
	W         int
	N         int
	Script    []int
	UpdateAt  int // DTLS 1.3: UpdateKeys (sender) after this many writes; <=0 none
	UpdateN   int // number of consecutive key updates at that point (0 = 1)
	ScriptTag string
	// PreDeliver: everything written before the update reaches the receiver (once, in order) before the update
	// starts, so the receiver's replay state of the old epoch is populated when the KeyUpdate is processed
	PreDeliver bool
}

func (c vfC06Case) ID() string {
	return fmt.Sprintf("%s/W%d/n%d/%s", c.Name, c.W, c.N, c.ScriptTag)
}

func vfScriptString(s []int) string {
	if len(s) > 40 {
		return fmt.Sprintf("%v...(%d)", s[:40], len(s))
	}

	return fmt.Sprint(s)
}

func vfC06Cfgs() []vfVariant {
	var out []vfVariant
	c := vfBaseCfg(vfSuiteByName("ECDSA-GCM128"), "ecdsa")
	out = append(out, vfVariant{Name: "12-gcm", Cfg: c})
	c = vfBaseCfg(vfSuiteByName("ECDSA-CBC"), "ecdsa")
	out = append(out, vfVariant{Name: "12-cbc", Cfg: c})
	c = vfBaseCfg(vfSuiteByName("PSK-CCM8"), "")
	c.CIDc, c.CIDs = 4, 8
	out = append(out, vfVariant{Name: "12-ccm8-cid", Cfg: c})
	c = vfBaseCfg(vfSuiteByName("13-GCM128"), "ecdsa")
	c.CVer, c.SVer, c.HelloVerify = "13", "13", false
	out = append(out, vfVariant{Name: "13-gcm", Cfg: c})
	c = vfBaseCfg(vfSuiteByName("13-CHACHA"), "ecdsa")
	c.CVer, c.SVer, c.HelloVerify, c.CIDc, c.CIDs = "13", "13", false, 4, 4
	out = append(out, vfVariant{Name: "13-chacha-cid", Cfg: c})

	return out
}

func vfC06Run(t *testing.T, res *vfResult, c vfC06Case) {
	n := vfNewNet()
	co, so := c.Cfg.Options(nil, nil)
	co = append(co, WithReplayProtectionWindow(c.W))
	so = append(so, WithReplayProtectionWindow(c.W))
	p, err := vfNewPair(n, co, so)
	res.Eval(1)
	if err != nil {
		res.Count("config_rejected", 1)

		return
	}
	if ce, se := p.Handshake(time.Minute); ce != nil || se != nil {
		res.Count("session_failed", 1)
		p.Close()
		synctest.Wait()

		return
	}
	p.C.StartPump()
	p.S.StartPump()
	time.Sleep(3 * time.Second)
	synctest.Wait()
	sender, receiver := p.C, p.S
	holding := true
	var held []*vfWire
	n.SetOnSend(func(n *vfNet, w *vfWire) {
		if w.From == sender.Name && holding {
			held = append(held, w)

			return
		}
		n.Deliver(w.Dst, w.Data, vfAddrOf(w.From))
	})
	payloads := make([][]byte, c.N)
	recIdx := make([]int, c.N) // index into held
	var preDelivered []int
	for i := 0; i < c.N; i++ {
		if c.UpdateAt > 0 && i == c.UpdateAt {
			if c.PreDeliver {
				for j := 0; j < i; j++ {
					n.Deliver(string(receiver.EP.addr), held[recIdx[j]].Data, vfAddrOf(sender.Name))
					preDelivered = append(preDelivered, j)
				}
				synctest.Wait()
			}
			for u := 0; u < max(1, c.UpdateN); u++ {
				holding = false
				ctx, cancel := context.WithTimeout(context.Background(), 30*time.Second)
				uerr := sender.Conn.UpdateKeys(ctx, KeyUpdateOptions{})
				cancel()
				synctest.Wait()
				holding = true
				if uerr != nil {
					res.Count("keyupdate_failed", 1)
				} else {
					res.Count("keyupdates", 1)
				}
			}
		}
		payloads[i] = []byte(fmt.Sprintf("c06-%s-%04d-%s", vfShortHash(c.ID()), i, strings.Repeat("x", i%7)))
		before := len(held)
		if _, err := sender.Conn.Write(payloads[i]); err != nil {
			res.Count("write_failed", 1)
			p.Close()
			synctest.Wait()

			return
		}
		synctest.Wait()
		if len(held) != before+1 {
			res.Count("unexpected_emission_count", 1)
			p.Close()
			synctest.Wait()

			return
		}
		recIdx[i] = before
	}
	// decode (epoch, seq) of every captured record with the independent wire decoder
	obs, und := vfDecodeSeqs(held, sender.Conn, vfCIDLenOf(receiver.Conn))
	if und != 0 || len(obs) != len(held) {
		res.Count("undecodable_records", 1)
		p.Close()
		synctest.Wait()

		return
	}
	type key struct {
		epoch uint16
	}
	highest := map[uint16]uint64{}
	hasHighest := map[uint16]bool{}
	arrived := map[int]bool{}
	must := map[int]bool{}
	either := map[int]bool{}
	dupArrivals, reordered := 0, 0
	for _, idx := range preDelivered { // arrived in order before the update: all new, all due
		o := obs[recIdx[idx]]
		arrived[idx], must[idx] = true, true
		if !hasHighest[o.Epoch] || o.Seq > highest[o.Epoch] {
			highest[o.Epoch], hasHighest[o.Epoch] = o.Seq, true
		}
	}
	for _, idx := range c.Script {
		o := obs[recIdx[idx]]
		if arrived[idx] {
			dupArrivals++
		} else {
			arrived[idx] = true
			h, ok := highest[o.Epoch], hasHighest[o.Epoch]
			switch {
			case !ok || o.Seq > h:
				must[idx] = true
			case h-o.Seq < uint64(c.W):
				must[idx] = true
				reordered++
			default:
				either[idx] = true
			}
			if must[idx] && (!ok || o.Seq > h) {
				highest[o.Epoch], hasHighest[o.Epoch] = o.Seq, true
			}
		}
		n.Deliver(string(receiver.EP.addr), held[recIdx[idx]].Data, vfAddrOf(sender.Name))
		synctest.Wait()
	}
	reads := receiver.ReadsSnapshot()
	count := map[int]int{}
	unknown := 0
	for _, r := range reads {
		found := false
		for i, pl := range payloads {
			if bytes.Equal(r, pl) {
				count[i]++
				found = true

				break
			}
		}
		if !found {
			unknown++
		}
	}
	sig := fmt.Sprintf("%s:W%d", c.Name, c.W)
	for i, k := range count {
		if k > 1 {
			res.Violate("C06:delivered-twice:"+c.Name, fmt.Sprintf("%s: payload %d was delivered %d times; script %s", c.ID(), i, k, vfScriptString(c.Script)),
				map[string]any{"case": c.ID(), "script": c.Script})
		}
	}
	if unknown > 0 {
		res.Violate("C06:unknown-payload:"+c.Name, fmt.Sprintf("%s: %d delivered payloads were never written", c.ID(), unknown), nil)
	}
	for i := range must {
		if count[i] == 0 {
			o := obs[recIdx[i]]
			res.Violate("C06:in-window-record-dropped:"+sig, fmt.Sprintf("%s: record %d (epoch %d, seq %d) first arrived fewer than %d numbers behind the newest accepted record of its epoch and was not delivered; script %s",
				c.ID(), i, o.Epoch, o.Seq, c.W, vfScriptString(c.Script)), map[string]any{"case": c.ID(), "script": c.Script})
		}
	}
	for i := range either {
		if count[i] > 0 {
			res.Count("outside_window_delivered", 1)
		} else {
			res.Count("outside_window_dropped", 1)
		}
	}
	res.Count("duplicate_arrivals_rejected", int64(dupArrivals))
	res.Count("reordered_accepted", int64(reordered))
	res.Count("arrivals", int64(len(c.Script)))
	res.NonTrivial(c.ID())
	if dupArrivals > 0 && reordered > 0 && res.Get("samples_taken") < 6 {
		res.Count("samples_taken", 1)
		res.Sample(map[string]any{"case": c.ID(), "script": vfScriptString(c.Script), "delivered": len(reads), "duplicates_in_script": dupArrivals, "reordered": reordered})
	}
	p.Close()
	synctest.Wait()
}

// vfC06LastWords: the peer writes a payload and closes at once; the application on this side is not sitting in Read
// at that moment and calls it a little later. The record arrived and was accepted before the close_notify: it is
// delivered (exactly once), and only then does Read report the end of the session.
func vfC06LastWords(t *testing.T, res *vfResult, idx int) {
	vs := vfC06Cfgs()
	v := vs[idx%len(vs)]
	res.Eval(1)
	co, so := v.Cfg.Options(nil, nil)
	p, err := vfNewPair(vfNewNet(), co, so)
	if err != nil {
		res.Count("config_rejected", 1)

		return
	}
	if ce, se := p.Handshake(time.Minute); ce != nil || se != nil {
		res.Count("handshake_failed", 1)
		p.Close()
		synctest.Wait()

		return
	}
	time.Sleep(3 * time.Second) // DTLS 1.3 post-handshake flights settle
	synctest.Wait()
	from, to := p.C, p.S
	if (idx/len(vs))%2 == 1 {
		from, to = p.S, p.C
	}
	pl := []byte(fmt.Sprintf("last-words-%d", idx))
	_, werr := from.Conn.Write(pl)
	_ = from.Conn.Close()
	time.Sleep(100 * time.Millisecond)
	synctest.Wait()
	id := fmt.Sprintf("last-words/%s/%s", v.Name, to.Name)
	res.NonTrivial(fmt.Sprintf("%s/%d", id, idx))
	buf := make([]byte, 256)
	_ = to.Conn.SetReadDeadline(time.Now().Add(5 * time.Second))
	n1, err1 := to.Conn.Read(buf)
	got := append([]byte(nil), buf[:n1]...)
	res.Count("last_words_cases", 1)
	if werr == nil && (err1 != nil || !bytes.Equal(got, pl)) {
		res.Violate("C06:accepted-record-not-delivered:followed-by-close-notify:"+vfVerClass(v),
			fmt.Sprintf("%s: the peer wrote %q and closed; the first Read afterwards returned (%q, %v) instead of the payload", id, pl, got, err1), map[string]any{"last_words": idx})
	} else if werr == nil {
		n2, err2 := to.Conn.Read(buf)
		if err2 == nil {
			res.Violate("C06:delivered-twice:last-words:"+vfVerClass(v), fmt.Sprintf("%s: a second Read returned %q", id, buf[:n2]), map[string]any{"last_words": idx})
		}
		res.Count("last_words_delivered_before_eof", 1)
	}
	p.Close()
	synctest.Wait()
}

// vfC06ReplayAcrossExport: the receiving side's state is exported and resumed (DTLS 1.2) between the delivery of a
// record and its replay. One session, one payload written once: the resumed connection must not deliver it again,
// and must keep delivering new records.
func vfC06ReplayAcrossExport(t *testing.T, res *vfResult, idx int) {
	res.Eval(1)
	suites := vfC19Suites()
	c := vfC19Case{Suite: suites[idx%len(suites)], CID: []int{-1, 4}[(idx/len(suites))%2], Side: []string{"c", "s"}[idx%2], Idx: idx}
	w, err := vfC19Setup(c)
	if err != nil {
		res.Count("replay_across_export_setup_failed", 1)

		return
	}
	defer w.close()
	x, y := w.c, w.s
	if c.Side == "s" {
		x, y = w.s, w.c
	}
	id := fmt.Sprintf("replay-across-export/%s/cid%d/%s", c.Suite, c.CID, c.Side)
	res.NonTrivial(fmt.Sprintf("%s/%d", id, idx))
	var delivered []*vfWire
	for k := 0; k < 3; k++ {
		mark := w.n.LogLen()
		if msg, _ := w.send(y, "before-export"); msg != "" {
			res.Count("replay_across_export_setup_failed", 1)

			return
		}
		for _, e := range w.n.LogSince(mark) {
			if !e.Deliver && e.From == y.name {
				delivered = append(delivered, e)
			}
		}
	}
	if _, _, stage, err := w.export(x, nil); err != nil {
		res.Count("replay_across_export_export_failed", 1)
		res.Seen("replay_across_export_failures", stage+": "+vfErrNorm(err))

		return
	}
	if idx%3 == 2 {
		// chained: the imported connection is exported again before it has received anything itself
		id += "/chained"
		if _, _, stage, err := w.export(x, nil); err != nil {
			res.Count("replay_across_export_export_failed", 1)
			res.Seen("replay_across_export_failures", "second "+stage+": "+vfErrNorm(err))

			return
		}
		res.Count("replay_across_export_chained", 1)
	}
	before := len(x.snapshot())
	for _, e := range delivered {
		w.n.Deliver(string(x.ep.addr), e.Data, y.ep.addr)
	}
	synctest.Wait()
	time.Sleep(50 * time.Millisecond)
	synctest.Wait()
	res.Count("replays_across_export_injected", int64(len(delivered)))
	if extra := len(x.snapshot()) - before; extra > 0 {
		res.Violate("C06:delivered-twice:replayed-after-export-and-resume",
			fmt.Sprintf("%s: %d records the original connection had already delivered were replayed to the connection resumed from its exported state: %d payloads were delivered again (e.g. %q)",
				id, len(delivered), extra, x.snapshot()[before]), map[string]any{"replay_across_export": idx})
	}
	if msg, _ := w.send(y, "after-export"); msg != "" {
		res.Violate("C06:in-window-record-dropped:after-export-and-resume", fmt.Sprintf("%s: a new record sent after the resume: %s", id, msg), map[string]any{"replay_across_export": idx})
	}
}

// vfC06QueuedWrites: DTLS 1.3. A key update of X waits for its (lost) acknowledgement, a second one is queued behind
// it, several application writes are queued behind that, and then the peer asks X to update its keys: X has to slip
// its answer in ahead of the queue. Nothing is duplicated by the network here, so each payload written once must be
// delivered exactly once.
func vfC06QueuedWrites(t *testing.T, res *vfResult, idx int) {
	res.Eval(1)
	suite := []string{"13-GCM128", "13-CHACHA", "13-GCM256"}[idx%3]
	writes := 2 + (idx/3)%3
	cfg := vfBaseCfg(vfSuiteByName(suite), "ecdsa")
	cfg.CVer, cfg.SVer, cfg.HelloVerify = "13", "13", false
	co, so := cfg.Options(nil, nil)
	n := vfNewNet()
	p, err := vfNewPair(n, co, so)
	if err != nil {
		res.Count("config_rejected", 1)

		return
	}
	if ce, se := p.Handshake(time.Minute); ce != nil || se != nil {
		res.Count("session_failed", 1)
		p.Close()
		synctest.Wait()

		return
	}
	x, y := p.S, p.C
	if (idx/9)%2 == 1 {
		x, y = p.C, p.S
	}
	p.C.StartPump()
	p.S.StartPump()
	time.Sleep(3 * time.Second)
	synctest.Wait()
	var dropToX atomic.Bool
	n.SetOnSend(func(n *vfNet, w *vfWire) {
		if dropToX.Load() && w.From == y.Name {
			return
		}
		n.Deliver(w.Dst, w.Data, vfAddrOf(w.From))
	})
	ctx, cancel := context.WithTimeout(context.Background(), 60*time.Second)
	defer cancel()
	var wg sync.WaitGroup
	bg := func(f func()) {
		wg.Add(1)
		go func() { defer wg.Done(); f() }()
	}
	dropToX.Store(true) // the acknowledgement of the first update does not arrive
	bg(func() { _ = x.Conn.UpdateKeys(ctx, KeyUpdateOptions{}) })
	time.Sleep(100 * time.Millisecond)
	bg(func() { _ = x.Conn.UpdateKeys(ctx, KeyUpdateOptions{}) })
	time.Sleep(60 * time.Millisecond)
	var payloads [][]byte
	_ = x.Conn.SetWriteDeadline(time.Now().Add(30 * time.Second))
	for k := 0; k < writes; k++ {
		pl := []byte(fmt.Sprintf("c06-queued-%d-%d", idx, k))
		payloads = append(payloads, pl)
		bg(func() { _, _ = x.Conn.Write(pl) })
		time.Sleep(60 * time.Millisecond)
	}
	dropToX.Store(false)
	bg(func() { _ = y.Conn.UpdateKeys(ctx, KeyUpdateOptions{RequestPeerUpdate: true}) })
	time.Sleep(20 * time.Second)
	synctest.Wait()
	id := fmt.Sprintf("queued-writes/%s/%s/x%d", suite, x.Name, writes)
	res.NonTrivial(fmt.Sprintf("%s/%d", id, idx))
	res.Count("queued_write_cases", 1)
	count := map[string]int{}
	for _, rd := range y.ReadsSnapshot() {
		count[string(rd)]++
	}
	for _, pl := range payloads {
		switch k := count[string(pl)]; {
		case k > 1:
			res.Violate("C06:delivered-twice:writes-queued-behind-key-update", fmt.Sprintf("%s: payload %q was written once and delivered %d times (no datagram was duplicated); all reads: %v", id, pl, k, count),
				map[string]any{"queued_writes": idx})
		case k == 0:
			res.Violate("C06:accepted-record-not-delivered:writes-queued-behind-key-update", fmt.Sprintf("%s: payload %q was written (queued behind a pending key update) and never delivered within 20 s of a clean path; all reads: %v", id, pl, count),
				map[string]any{"queued_writes": idx})
		default:
			res.Count("queued_writes_delivered_once", 1)
		}
	}
	cancel()
	p.Close()
	wg.Wait()
	synctest.Wait()
}

// vfC06EarlyDuplicates: the side that finished first writes while the other still waits for the end of the handshake
// (its last flight, or the acknowledgement of it, was lost), and the network duplicates those early datagrams. What
// is accepted before the handshake is complete is kept for the first Read calls - once.
func vfC06EarlyDuplicates(t *testing.T, res *vfResult, idx int) { vfEarlyDataRun(t, res, idx, 3) }

// vfEarlyDataRun: burst = payloads the finishing side writes at once. With a burst beyond what is held for the first Read
// calls (100) the surplus is lost like any datagram; the handshake must still complete (used by C02 and C08).
func vfEarlyDataRun(t *testing.T, res *vfResult, idx, burst int) {
	res.Eval(1)
	var vs []vfVariant
	for _, v := range vfC02Variants() {
		switch v.Name {
		case "13-direct", "13-hrr", "13-clientauth", "dualstack-both-nohv", "12-ecdsa", "12-psk", "12-resumed":
			vs = append(vs, v)
		}
	}
	v := vs[idx%len(vs)]
	// the last thing the side that finishes first sends for the handshake is lost once (DTLS 1.2: the first datagram
	// carrying its ChangeCipherSpec; DTLS 1.3: the server's first `lose` protected datagrams after the client's
	// Finished flight, i.e. its ACK and ticket); every protected datagram after that is delivered twice
	lose := 1 + (idx/len(vs))%3
	id := fmt.Sprintf("early-duplicates/%s/lose%d/burst%d", v.Name, lose, burst)
	var cS, sS *vfMemStore
	if v.Cfg.Store {
		cS, sS = vfNewMemStore("c"), vfNewMemStore("s")
	}
	if v.Resumed {
		co, so := v.Cfg.Options(cS, sS)
		p0, err := vfNewPair(vfNewNet(), co, so)
		if err != nil {
			return
		}
		if ce, se := p0.Handshake(time.Minute); ce != nil || se != nil {
			p0.Close()
			synctest.Wait()

			return
		}
		p0.Close()
		synctest.Wait()
	}
	n := vfNewNet()
	n.stormCap = 30000
	var mu sync.Mutex
	lostCCS := map[string]bool{}
	clientProtected, serverLost, duplicated := false, 0, 0
	n.SetOnSend(func(n *vfNet, w *vfWire) {
		from := vfAddrOf(w.From)
		recs, ok := vfParseDatagram(w.Data, 0)
		protected, ccs, unified := false, false, len(w.Data) > 0 && w.Data[0]&0xe0 == 0x20
		if ok {
			for _, rc := range recs {
				if !rc.Unified && rc.Type == 20 {
					ccs = true
				}
				if rc.Unified || rc.Epoch > 0 {
					protected = true
				}
			}
		} else {
			protected = true // connection-ID framing this parser was not told about
		}
		mu.Lock()
		drop := false
		switch {
		case ccs && !lostCCS[w.From] && !lostCCS["any"]:
			lostCCS[w.From], lostCCS["any"] = true, true
			drop = true
		case unified && w.From == "c":
			clientProtected = true
		case unified && w.From == "s" && clientProtected && serverLost < lose:
			serverLost++
			drop = true
		}
		dup := !drop && protected && (lostCCS["any"] || serverLost > 0)
		if dup {
			duplicated++
		}
		mu.Unlock()
		if drop {
			return
		}
		n.Deliver(w.Dst, w.Data, from)
		if dup {
			n.Deliver(w.Dst, w.Data, from)
		}
	})
	co, so := v.Cfg.Options(cS, sS)
	p, err := vfNewPair(n, co, so)
	if err != nil {
		res.Count("config_rejected", 1)

		return
	}
	p.Early = burst
	p.HandshakeTimed(2 * time.Minute)
	if p.C.Err != nil || p.S.Err != nil {
		res.Count("early_duplicates_handshake_failed", 1)
		if burst > 3 {
			res.NonTrivial(id)
			res.Violate(fmt.Sprintf("%s:hs-wedged-by-early-application-data:%s", res.Property, vfVerClass(v)),
				fmt.Sprintf("%s: the side that finished first wrote %d payloads at once while the other still waited for the (once lost) end of the handshake; the handshake did not complete within 2 min: client=%v server=%v", id, burst, p.C.Err, p.S.Err),
				map[string]any{"early_burst": idx})
		}
		p.Close()
		synctest.Wait()

		return
	}
	if burst > 3 {
		res.Count("early_bursts_survived", 1)
	}
	p.C.StartPump()
	p.S.StartPump()
	time.Sleep(3 * time.Second)
	synctest.Wait()
	res.NonTrivial(id)
	res.Count("early_duplicate_cases", 1)
	mu.Lock()
	res.Count("early_duplicate_datagrams_delivered_twice", int64(duplicated))
	mu.Unlock()
	for _, side := range []*vfSide{p.C, p.S} {
		seen := map[string]int{}
		for _, r := range side.ReadsSnapshot() {
			seen[string(r)]++
		}
		for pl, k := range seen {
			if strings.HasPrefix(pl, "early-") {
				res.Count("early_payloads_delivered", 1)
			}
			if k > 1 {
				res.Violate("C06:delivered-twice:early-application-data:"+vfVerClass(v),
					fmt.Sprintf("%s: Read on %s returned the payload %q %d times (written once by the peer as soon as its own handshake was done; its datagram was duplicated while %s still waited for the end of the handshake)", id, side.Name, pl, k, side.Name),
					map[string]any{"early_dup": idx})
			}
		}
	}
	p.Close()
	synctest.Wait()
}

func TestVF_C06(t *testing.T) {
	vfGetPKI()
	res := vfNewResult("C06", "arrival scripts over captured application records: exhaustive for all scripts of length <= n+2 over n <= 3 (quick) / 4 "+
		"(thorough) records at W=64; window-edge families for W in {1,2,8,32,33,40,48,63,64,65,96,97,100,127,128,200} (a record held until W-1 / W / W+1 newer ones were accepted, "+
		"then replayed twice); bursts; DTLS 1.3 scripts spanning a KeyUpdate; PRNG scripts over 300 records. Five configurations (GCM, CBC, CCM-8+CID, "+
		"1.3 GCM, 1.3 ChaCha+CID). Distinct = distinct (configuration, W, script)")
	res.Assume("record sequence numbers are decoded from the wire (DTLS 1.3: with the sender's write generations)",
		"'session' = one Conn lifetime; replay across export/import is observed by the C19 monitor")
	cfgs := vfC06Cfgs()
	var cases []vfC06Case
	// exhaustive short scripts
	maxN := vfPick(3, 4)
	for _, v := range cfgs {
		for n := 1; n <= maxN; n++ {
			for L := 1; L <= n+2; L++ {
				total := 1
				for i := 0; i < L; i++ {
					total *= n
				}
				for code := 0; code < total; code++ {
					s := make([]int, L)
					x := code
					for i := range s {
						s[i] = x % n
						x /= n
					}
					if !vfThorough() && v.Name != "12-gcm" && code%3 != 0 {
						continue
					}
					cases = append(cases, vfC06Case{Name: v.Name, Cfg: v.Cfg, W: 64, N: n, Script: s, ScriptTag: fmt.Sprintf("exh%v", s)})
				}
			}
		}
	}
	// window edges
	for _, v := range cfgs {
		for _, W := range []int{1, 2, 8, 32, 33, 40, 48, 63, 64, 65, 96, 97, 100, 127, 128, 200} {
			for _, k := range []int{W - 1, W, W + 1} {
				if k < 1 {
					continue
				}
				n := k + 2
				var s []int
				for i := 1; i <= k; i++ {
					s = append(s, i)
				}
				s = append(s, 0, 0, k+1, 0, 1)
				cases = append(cases, vfC06Case{Name: v.Name, Cfg: v.Cfg, W: W, N: n, Script: s, ScriptTag: fmt.Sprintf("edge-hold0-until-%d", k)})
			}
		}
		// bursts
		var s []int
		for i := 0; i < 20; i++ {
			s = append(s, i, i, i)
		}
		cases = append(cases, vfC06Case{Name: v.Name, Cfg: v.Cfg, W: 64, N: 20, Script: s, ScriptTag: "burst3"})
		// reverse order within the window, then everything again
		s = nil
		for i := 40; i >= 0; i-- {
			s = append(s, i)
		}
		for i := 0; i <= 40; i++ {
			s = append(s, i)
		}
		cases = append(cases, vfC06Case{Name: v.Name, Cfg: v.Cfg, W: 64, N: 41, Script: s, ScriptTag: "reverse41-then-replay"})
		if v.Cfg.Is13() {
			for _, at := range []int{1, 3, 5} {
				s = nil
				for i := 9; i >= 0; i-- {
					s = append(s, i, i)
				}
				cases = append(cases, vfC06Case{Name: v.Name, Cfg: v.Cfg, W: 64, N: 10, Script: s, UpdateAt: at, ScriptTag: fmt.Sprintf("keyupdate@%d-reverse-dup", at)})
				// in order across the update, then everything once more: the old epoch's records are replayed after
				// the receiver has accepted records of the new epoch
				s = nil
				for rep := 0; rep < 2; rep++ {
					for i := 0; i < 10; i++ {
						s = append(s, i)
					}
				}
				cases = append(cases, vfC06Case{Name: v.Name, Cfg: v.Cfg, W: 64, N: 10, Script: s, UpdateAt: at, ScriptTag: fmt.Sprintf("keyupdate@%d-forward-then-replay-all", at)})
				cases = append(cases, vfC06Case{Name: v.Name, Cfg: v.Cfg, W: 64, N: 10, Script: s, UpdateAt: at, PreDeliver: true,
					ScriptTag: fmt.Sprintf("delivered-then-keyupdate@%d-then-replay-all", at)})
				// old epoch, one record of the new epoch, old epoch again, rest
				s = nil
				for i := 0; i < at; i++ {
					s = append(s, i)
				}
				s = append(s, at)
				for i := 0; i < at; i++ {
					s = append(s, i)
				}
				for i := at; i < 10; i++ {
					s = append(s, i, i)
				}
				cases = append(cases, vfC06Case{Name: v.Name, Cfg: v.Cfg, W: 64, N: 10, Script: s, UpdateAt: at, ScriptTag: fmt.Sprintf("keyupdate@%d-old-new-old", at)})
				// four (five, eight) updates in a row: the wire carries only the two low bits of the epoch, so the old
				// and the new epoch look alike on the wire; then the old epoch's late records are replayed
				for _, nu := range []int{4, 5, 8} {
					s = nil
					for i := 0; i < 25; i++ {
						s = append(s, i)
					}
					for i := 8; i < 20; i++ {
						s = append(s, i)
					}
					cases = append(cases, vfC06Case{Name: v.Name, Cfg: v.Cfg, W: 64, N: 25, Script: s, UpdateAt: 20, UpdateN: nu, ScriptTag: fmt.Sprintf("keyupdate-x%d@20-replay-old-epoch", nu)})
				}
			}
		}
		// a long-lived DTLS 1.3 epoch: the wire carries 16 bits of the record number, so beyond 65536 records the
		// receiver reconstructs it; records just below a multiple of 65536 arrive a few places late, after it
		if v.Cfg.Is13() && (vfThorough() || v.Name == "13-gcm") {
			const total = 65545
			s = make([]int, 0, total)
			for i := 0; i < total; i++ {
				if i >= 65533 && i <= 65535 {
					continue
				}
				s = append(s, i)
				if i == 65539 {
					s = append(s, 65533, 65534, 65535)
				}
			}
			cases = append(cases, vfC06Case{Name: v.Name, Cfg: v.Cfg, W: 64, N: total, Script: s, ScriptTag: "long-epoch-late-records-across-65536"})
		}
		// PRNG long scripts
		for k := 0; k < vfPick(6, 200); k++ {
			r := vfRand("C06/long/"+v.Name, k)
			nrec := vfPick(120, 300)
			W := []int{8, 64, 64, 128}[r.IntN(4)]
			var sc []int
			for i := 0; i < nrec; i++ {
				j := i + r.IntN(2*W) - W/2
				if j < 0 {
					j = 0
				}
				if j >= nrec {
					j = nrec - 1
				}
				sc = append(sc, j)
				if r.IntN(4) == 0 {
					sc = append(sc, r.IntN(nrec))
				}
			}
			cases = append(cases, vfC06Case{Name: v.Name, Cfg: v.Cfg, W: W, N: nrec, Script: sc, ScriptTag: fmt.Sprintf("prng%d", k)})
		}
	}
	vfCaseName = func(i int) string { return cases[i].ID() }
	vfBubbles(t, len(cases), func(t *testing.T, i int) { vfC06Run(t, res, cases[i]) })
	vfBubbles(t, vfPick(6, 40)*len(vfC06Cfgs()), func(t *testing.T, i int) { vfC06LastWords(t, res, i) })
	vfBubbles(t, vfPick(24, 200), func(t *testing.T, i int) { vfC06ReplayAcrossExport(t, res, i) })
	vfBubbles(t, vfPick(18, 180), func(t *testing.T, i int) { vfC06QueuedWrites(t, res, i) })
	vfBubbles(t, 42, func(t *testing.T, i int) { vfC06EarlyDuplicates(t, res, i) })
	// a record delayed past a key update in an epoch that has seen more than 2^16 records (the wire carries 16 bits)
	vfBubbles(t, vfPick(1, 3), func(t *testing.T, i int) {
		vfC20Straggler(t, res, []string{"13-GCM128", "13-CHACHA", "13-GCM256"}[i], []int{65536 + 40, 2*65536 + 7, 65536 + 1}[i], []string{"c", "s", "c"}[i])
	})
	vfCaseName = nil
	res.Floor("duplicate_arrivals_rejected", 100)
	res.Floor("reordered_accepted", 100)
	res.Floor("outside_window_dropped", 5)
	res.Finish(t)
}
