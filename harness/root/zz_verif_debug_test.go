//go:build verif

package dtls

import (
	"fmt"
	"os"
	"testing"
)

// TestVF_Debug: ad-hoc scenario runner used while triaging (not registered as a check).
func TestVF_Debug(t *testing.T) {
	if os.Getenv("VERIF_DEBUG") == "" {
		t.Skip("debug only")
	}
	vfGetPKI()
	res := vfNewResult("C16", "debug")
	c := vfC16Case{Variant: "13", Phase: "established", Actor: "c", Action: "read-deadline", K: 0, Idx: 348}
	vfBubbles(t, 6000, func(t *testing.T, i int) { vfC16Run(t, res, c) })
	for _, v := range res.Violations {
		fmt.Println(v.Signature, v.What)
	}
	fmt.Println("violations", len(res.Violations))
}
