//go:build verif

package dtls

import (
	"fmt"
	"os"
	"testing"
	"testing/synctest"
	"time"
)

// TestVF_Debug: ad-hoc scenario runner used while triaging (not registered as a check).
func TestVF_Debug(t *testing.T) {
	if os.Getenv("VERIF_DEBUG") == "" {
		t.Skip("debug only")
	}
	vfGetPKI()
	synctest.Test(t, func(t *testing.T) {
		cfg := vfBaseCfg(vfSuiteByName("ECDSA-GCM128"), "ecdsa")
		co, so := cfg.Options(nil, nil)
		n := vfNewNet()
		p, _ := vfNewPair(n, co, so)
		fmt.Println(p.Handshake(time.Minute))
		p.C.StartPump()
		p.S.StartPump()
		fmt.Println("rt:", vfRoundTrip(p, "a", time.Minute))
		st, ok := p.S.Conn.ConnectionState()
		fmt.Println("accepted:", st.acceptedRemoteSequence, ok, p.S.Conn.acceptedRemoteSequence.Load())
		raw, err := st.MarshalBinary()
		var st2 State
		fmt.Println(err, st2.UnmarshalBinary(raw), st2.acceptedRemoteSequence, st2.remoteEpoch)
		n2 := vfNewNet()
		rc, err := ResumeWithOptions(&st2, n2.Endpoint("s2", vfServerAddr), vfAddr(vfClientAddr))
		fmt.Println("resume", err)
		fmt.Println("hs", rc.Handshake())
		cm := vfCommon(rc)
		fmt.Println("detectors", len(cm.ReplayDetector), rc.acceptedRemoteSequence.Load())
		for seq := uint64(0); seq < 4; seq++ {
			_, ok := cm.ReplayDetector[1].Check(seq)
			fmt.Println("check", seq, ok)
		}
		p.Close()
	})
}
