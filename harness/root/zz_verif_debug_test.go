//go:build verif

package dtls

import (
	"fmt"
	"os"
	"testing"
	"testing/synctest"
	"time"
)

// TestVF_Debug: ad-hoc scenario runner used while triaging (not registered as a check).
func TestVF_Debug(t *testing.T) {
	vfGetPKI()
	if os.Getenv("VERIF_DEBUG") == "" {
		t.Skip("debug only")
	}
	synctest.Test(t, func(t *testing.T) {
		vfDumpWire = true
		res := vfNewResult("DBG", "debug")
		var v vfVariant
		for _, x := range vfC02Variants() {
			if x.Name == os.Getenv("VERIF_DEBUG") {
				v = x
			}
		}
		var cut int
		fmt.Sscanf(os.Getenv("VERIF_DEBUG_CUT"), "%d", &cut)
		c := vfC17Case{V: v, Target: os.Getenv("VERIF_DEBUG_TARGET"), Cut: cut, Interval: time.Second, Backoff: true, Mode: os.Getenv("VERIF_DEBUG_MODE")}
		vfC17Silence(res, c)
		for _, vi := range res.Violations {
			fmt.Println("VIOL", vi.Signature, vi.What[:min(len(vi.What), 300)])
		}
	})
}
