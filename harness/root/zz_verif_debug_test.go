//go:build verif

package dtls

import (
	"fmt"
	"os"
	"testing"
)

// TestVF_Debug: ad-hoc scenario runner used while triaging (not registered as a check).
func TestVF_Debug(t *testing.T) {
	if os.Getenv("VERIF_DEBUG") == "" {
		t.Skip("debug only")
	}
	vfGetPKI()
	res := vfNewResult("C16", "debug")
	var cases []vfC16Case
	for _, c := range vfC16Cases() {
		if c.Action == "read-deadline" && c.Phase == "established" {
			cases = append(cases, c)
		}
	}
	fmt.Println("cases", len(cases))
	vfBubbles(t, len(cases)*400, func(t *testing.T, i int) { vfC16Run(t, res, cases[i%len(cases)]) })
	for _, v := range res.Violations {
		fmt.Println(v.Signature, v.What)
	}
	fmt.Println("violations", len(res.Violations))
}
