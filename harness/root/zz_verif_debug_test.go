//go:build verif

package dtls

import (
	"fmt"
	"os"
	"testing"
	"testing/synctest"
)

// TestVF_Debug: ad-hoc scenario runner used while triaging (not registered as a check).
func TestVF_Debug(t *testing.T) {
	if os.Getenv("VERIF_DEBUG") == "" {
		t.Skip("debug only")
	}
	vfGetPKI()
	res := vfNewResult("C06", "debug")
	vfDumpWire = true
	synctest.Test(t, func(t *testing.T) { vfC06EarlyDuplicates(t, res, 0) })
	for _, v := range res.Violations {
		fmt.Println(v.Signature, v.What)
	}
	fmt.Println("violations", len(res.Violations), res.Counters)
}
