//go:build verif

package dtls

import (
	"fmt"
	"os"
	"testing"
	"testing/synctest"
	"time"
)

// TestVF_Debug: ad-hoc scenario runner used while triaging (not registered as a check).
func TestVF_Debug(t *testing.T) {
	vfGetPKI()
	if os.Getenv("VERIF_DEBUG") == "" {
		t.Skip("debug only")
	}
	synctest.Test(t, func(t *testing.T) {
		vfDumpWire = true
		pki := vfGetPKI()
		n := vfNewNet()
		vfDumpWire = false
		for _, cv := range []string{"12", "13", "dual"} {
			for _, sv := range []string{"12", "13", "dual"} {
				for _, hv := range []bool{true, false} {
					n = vfNewNet()
					co := vfCO(append(vfVerOpts(cv), WithRootCAs(pki.Pool), WithServerName(vfServerName))...)
					so := vfSO(append(vfVerOpts(sv), WithCertificates(pki.Leaf("ecdsa", "server")))...)
					if !hv {
						so = append(so, WithInsecureSkipVerifyHello(true))
					}
					p, err := vfNewPair(n, co, so)
					if err != nil {
						t.Fatal(err)
					}
					ce, se := p.Handshake(30 * time.Second)
					fmt.Printf("MATRIX client=%s server=%s hv=%v: %v / %v (datagrams %d)\n", cv, sv, hv, vfErrClass(ce), vfErrClass(se), len(n.Emissions("")))
					p.Close()
					synctest.Wait()
				}
			}
		}
	})
}
