//go:build verif

package dtls

import (
	"fmt"
	"testing"
	"testing/synctest"
	"time"
)

// TestVF_Debug: ad-hoc scenario runner used while triaging (not registered as a check).
func TestVF_Debug(t *testing.T) {
	vfGetPKI()
	synctest.Test(t, func(t *testing.T) {
		cfg := vfBaseCfg(vfSuiteByName("RSA-CHACHA"), "rsa")
		cfg.Store, cfg.Verify, cfg.ClientCert = true, true, true
		cs, ss := vfNewMemStore("c"), vfNewMemStore("s")
		vfDumpWire = true
		for round := 0; round < 2; round++ {
			n := vfNewNet()
			co, so := cfg.Options(cs, ss)
			p, err := vfNewPair(n, co, so)
			if err != nil {
				t.Fatal(err)
			}
			ce, se := p.Handshake(20 * time.Second)
			fmt.Printf("round %d: client=%v server=%v cstore=%s sstore=%s\n", round, ce, se, cs.LogString(), ss.LogString())
			p.Close()
			synctest.Wait()
		}
	})
}
