//go:build verif

package dtls

import (
	"fmt"
	"os"
	"testing"
	"testing/synctest"
	"time"
)

// TestVF_Debug: ad-hoc scenario runner used while triaging (not registered as a check).
func TestVF_Debug(t *testing.T) {
	if os.Getenv("VERIF_DEBUG") == "" {
		t.Skip("debug only")
	}
	vfGetPKI()
	synctest.Test(t, func(t *testing.T) {
		cfg := vfBaseCfg(vfSuiteByName("ECDSA-GCM128"), "ecdsa")
		co, so := cfg.Options(nil, nil)
		n := vfNewNet()
		p, err := vfNewPair(n, co, so)
		if err != nil {
			t.Fatal(err)
		}
		ce, se := p.Handshake(time.Minute)
		fmt.Println("handshake", ce, se)
		p.C.StartPump()
		p.S.StartPump()
		fmt.Println("rt0:", vfRoundTrip(p, "a", time.Minute))
		for e := 1; e <= 65535; e++ {
			rec := []byte{20, 0xfe, 0xfd, byte(e >> 8), byte(e), 0, 0, 0, 1, byte(e >> 8), byte(e), 0, 1, 1}
			n.Deliver(vfServerAddr, rec, vfAddr(vfClientAddr))
			if e%1000 == 0 {
				synctest.Wait()
			}
		}
		synctest.Wait()
		fmt.Println("server remote epoch:", vfCommon(p.S.Conn).RemoteEpoch())
		fmt.Println("rt1:", vfRoundTrip(p, "b", time.Minute))
		p.Close()
	})
}
