//go:build verif

package dtls

import (
	"fmt"
	"os"
	"runtime"
	"testing"
	"testing/synctest"
	"time"
)

// TestVF_Debug: ad-hoc scenario runner used while triaging (not registered as a check).
func TestVF_Debug(t *testing.T) {
	if os.Getenv("VERIF_DEBUG") == "" {
		t.Skip("debug only")
	}
	synctest.Test(t, func(t *testing.T) {
		ch := make(chan int)
		go func() { <-ch }()
		go func() { time.Sleep(time.Hour) }()
		synctest.Wait()
		buf := make([]byte, 1<<16)
		n := runtime.Stack(buf, true)
		fmt.Println(string(buf[:n]))
		close(ch)
	})
}
