//go:build verif

package dtls

import (
	"fmt"
	"os"
	"testing"
	"time"
)

// TestVF_Debug: ad-hoc scenario runner used while triaging (not registered as a check).
func TestVF_Debug(t *testing.T) {
	vfGetPKI()
	if os.Getenv("VERIF_DEBUG") == "" {
		t.Skip("debug only")
	}
	pki := vfGetPKI()
	for _, sv := range []string{"12", "13", "dual"} {
		n := vfNewNet()
		n.SetOnSend(func(*vfNet, *vfWire) {})
		co := vfCO(append(vfVerOpts("12"), WithRootCAs(pki.Pool), WithServerName(vfServerName))...)
		so := vfSO(append(vfVerOpts(sv), WithCertificates(pki.Leaf("ecdsa", "server")))...)
		p, err := vfNewPair(n, co, so)
		if err != nil {
			t.Fatal(err)
		}
		done := make(chan error, 1)
		t0 := time.Now()
		go func() {
			_ = p.S.Conn.SetWriteDeadline(time.Now().Add(300 * time.Millisecond))
			_, err := p.S.Conn.Write([]byte("x"))
			done <- err
		}()
		select {
		case err := <-done:
			fmt.Printf("DEBUG server=%s: Write returned %v after %v\n", sv, err, time.Since(t0))
		case <-time.After(3 * time.Second):
			fmt.Printf("DEBUG server=%s: Write still blocked after 3s (deadline was 300ms)\n", sv)
		}
		p.Close()
	}
}
