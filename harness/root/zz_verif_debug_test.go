//go:build verif

package dtls

import (
	"fmt"
	"os"
	"testing"

	"github.com/pion/dtls/v3/pkg/protocol/extension"
	extension13 "github.com/pion/dtls/v3/pkg/protocol/extension/dtls13"
	"github.com/pion/dtls/v3/pkg/protocol/handshake"
)

// TestVF_Debug: ad-hoc scenario runner used while triaging (not registered as a check).
func TestVF_Debug(t *testing.T) {
	if os.Getenv("VERIF_DEBUG") == "" {
		t.Skip("debug only")
	}
	cr := &handshake.MessageCertificateRequest{}
	fmt.Println("certreq odd:", cr.Unmarshal([]byte{1, 64, 0, 3, 4, 3, 4, 0, 0}), cr.SignatureHashAlgorithms)
	sg := &extension.SupportedGroups{}
	fmt.Println("groups odd:", sg.UnmarshalData([]byte{0, 3, 0, 29, 0}), sg)
	sa := &extension.SignatureAlgorithms{}
	fmt.Println("sigalgs odd:", sa.UnmarshalData([]byte{0, 3, 4, 3, 4}), sa)
	ca := &extension.CertificateSignatureAlgorithms{}
	fmt.Println("certsigalgs odd:", ca.UnmarshalData([]byte{0, 3, 4, 3, 4}), ca)
	us := &extension.SRTPOffer{}
	fmt.Println("srtp odd:", us.UnmarshalData([]byte{0, 3, 0, 1, 0, 0}), us)
	ov := &extension13.OfferedVersions{}
	fmt.Println("versions odd:", ov.UnmarshalData([]byte{3, 0xfe, 0xfc, 0xfe}), ov)
	ch := &handshake.MessageClientHello{}
	raw := append([]byte{0xfe, 0xfd}, make([]byte, 32)...)
	raw = append(raw, 0, 0, 0, 3, 0xc0, 0x2b, 0xc0, 1, 0)
	fmt.Println("clienthello odd suites:", ch.Unmarshal(raw), ch.CipherSuiteIDs)
}
