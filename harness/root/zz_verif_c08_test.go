//go:build verif

package dtls

// C08 Robustness. Live endpoints receive hostile datagrams at every point of the handshake and
// in the data phase. Monitors: process survival (the case about to run is logged to disk first, the
// driver attributes a death by re-running the in-flight cases alone), bubble deadlock detector,
// "still serves traffic" after unparseable / unauthentic input, stated buffer limits, and the
// plateau test over every per-connection container.

import (
	"bytes"
	"context"
	"fmt"
	"net"
	"os"
	"runtime"
	"sort"
	"strings"
	"sync"
	"testing"
	"testing/synctest"
	"time"

	dtlsfragmentbuffer "github.com/pion/dtls/v3/internal/fragmentbuffer"
	dtlshandshake "github.com/pion/dtls/v3/internal/handshake"
	dtlsstate "github.com/pion/dtls/v3/internal/state"
)

type vfC08Case struct {
	ID       string
	Scenario string // hs | est | authmal | plateau
	Variant  int
	Target   string
	K        int
	Gen      string
	Idx      int
}

func vfC08Variants() []vfVariant {
	var out []vfVariant
	for _, v := range vfC02Variants() {
		switch v.Name {
		case "12-ecdsa", "12-psk", "12-ecdhepsk", "12-clientauth", "12-cid44", "12-cbc-nohv", "12-mtu100", "13-direct", "13-hrr", "13-clientauth":
			out = append(out, v)
		}
	}
	c := vfBaseCfg(vfSuiteByName("ECDSA-CCM8"), "ecdsa")
	out = append(out, vfVariant{Name: "12-ccm8", Cfg: c})
	c = vfBaseCfg(vfSuiteByName("ECDSA-CHACHA"), "ecdsa")
	out = append(out, vfVariant{Name: "12-chacha", Cfg: c})
	c = vfBaseCfg(vfSuiteByName("ECDSA-CBC"), "ecdsa")
	c.CIDc, c.CIDs = 4, 4
	out = append(out, vfVariant{Name: "12-cbc-cid44", Cfg: c})
	c = vfBaseCfg(vfSuiteByName("13-CHACHA"), "ecdsa")
	c.CVer, c.SVer, c.HelloVerify, c.CIDc, c.CIDs = "13", "13", false, 4, 4
	out = append(out, vfVariant{Name: "13-chacha-cid44", Cfg: c})
	c = vfBaseCfg(vfSuiteByName("13-GCM256"), "ecdsa")
	c.CVer, c.SVer, c.HelloVerify = "13", "13", false
	out = append(out, vfVariant{Name: "13-gcm256", Cfg: c})

	return out
}

// vfC08TruncPerPoint: truncation cases per (variant, target, point); cut positions are spread evenly over them.
func vfC08TruncPerPoint() int { return vfPick(96, 400) }

func vfC08Cases() []vfC08Case {
	vs := vfC08Variants()
	var cases []vfC08Case
	add := func(c vfC08Case) {
		c.ID = fmt.Sprintf("%s/%s/%s/k%d/%s/%d", c.Scenario, vs[c.Variant].Name, c.Target, c.K, c.Gen, c.Idx)
		cases = append(cases, c)
	}
	gens := []string{"raw", "recgrammar", "hsgrammar", "mutate"}
	maxK := vfPick(8, 10)
	reps := vfPick(3, 30)
	for vi := range vs {
		for _, tgt := range []string{"c", "s"} {
			for k := 0; k <= maxK; k++ {
				for _, g := range gens {
					for i := 0; i < reps; i++ {
						add(vfC08Case{Scenario: "hs", Variant: vi, Target: tgt, K: k, Gen: g, Idx: i})
					}
				}
			}
		}
	}
	// retransmission-like duplicates at every point, and truncations of every message about to arrive
	for vi := range vs {
		for _, tgt := range []string{"c", "s"} {
			for k := 0; k <= maxK+4; k++ {
				add(vfC08Case{Scenario: "hs", Variant: vi, Target: tgt, K: k, Gen: "hsdup", Idx: 0})
				if k <= 4 {
					add(vfC08Case{Scenario: "hs", Variant: vi, Target: tgt, K: k, Gen: "hsfarseq", Idx: 0})
				}
				for i := 0; i < vfC08TruncPerPoint(); i++ {
					add(vfC08Case{Scenario: "hs", Variant: vi, Target: tgt, K: k, Gen: "hstrunc", Idx: i})
				}
			}
		}
	}
	for vi := range vs {
		for _, tgt := range []string{"c", "s"} {
			for _, g := range []string{"raw", "recgrammar", "mutate"} {
				for i := 0; i < vfPick(6, 60); i++ {
					add(vfC08Case{Scenario: "est", Variant: vi, Target: tgt, Gen: g, Idx: i})
				}
			}
			for i := 0; i < vfPick(12, 150); i++ {
				add(vfC08Case{Scenario: "authmal", Variant: vi, Target: tgt, Gen: "authmal", Idx: i})
			}
			// the authenticated peer keeps sending complete, correctly protected handshake messages with the next
			// message numbers after the handshake has finished: more than the reassembly limit in total
			// (DTLS 1.3: well-formed NewSessionTicket messages, which only a client accepts)
			if !vs[vi].Cfg.Is13() || tgt == "c" {
				add(vfC08Case{Scenario: "authmal", Variant: vi, Target: tgt, Gen: "auth-newmsgs", Idx: 0})
			}
			// unauthenticated ChangeCipherSpec records, one for every epoch value: outside a handshake they announce nothing
			if nm := vs[vi].Name; nm == "12-ecdsa" || nm == "12-cid44" || nm == "13-direct" || vfThorough() {
				add(vfC08Case{Scenario: "est", Variant: vi, Target: tgt, Gen: "ccs-sweep", Idx: 0})
			}
			// ... and ChangeCipherSpec records whose body is not the single byte 1, at the epochs in use
			add(vfC08Case{Scenario: "est", Variant: vi, Target: tgt, Gen: "ccs-malformed", Idx: 0})
		}
	}
	for vi := range vs {
		for _, tgt := range []string{"c", "s"} {
			add(vfC08Case{Scenario: "plateau", Variant: vi, Target: tgt, Gen: "storm", Idx: 0})
		}
	}

	return cases
}

func vfSideOf(p *vfPair, name string) (*vfSide, *vfSide) {
	if name == "c" {
		return p.C, p.S
	}

	return p.S, p.C
}

func vfAddrOf(name string) vfAddr {
	if name == "c" {
		return vfAddr(vfClientAddr)
	}

	return vfAddr(vfServerAddr)
}

// vfC08Handshake: inject a batch towards Target after the K-th genuine datagram was delivered to it.
func vfC08Handshake(res *vfResult, c vfC08Case, v vfVariant) {
	r := vfRand("C08/"+c.ID, 0)
	is13 := v.Cfg.Is13()
	n := vfNewNet()
	co, so := v.Cfg.Options(nil, nil)
	p, err := vfNewPair(n, co, so)
	if err != nil {
		res.Count("config_rejected", 1)

		return
	}
	target, peer := vfSideOf(p, c.Target)
	cidLen := 0
	if c.Target == "c" && v.Cfg.CIDc > 0 {
		cidLen = v.Cfg.CIDc
	}
	if c.Target == "s" && v.Cfg.CIDs > 0 {
		cidLen = v.Cfg.CIDs
	}
	var mu sync.Mutex
	delivered := 0
	var genuine [][]byte
	var batch []vfHostile
	injected := false
	n.onSend = func(n *vfNet, w *vfWire) {
		from := vfAddrOf(w.From)
		toTarget := w.From == peer.Name
		mu.Lock()
		if toTarget {
			genuine = append(genuine, w.Data)
		}
		doInject := toTarget && delivered == c.K && !injected
		if c.K == 0 && !injected && !toTarget && w.From == target.Name {
			doInject = true // before anything genuine arrived
		}
		var g [][]byte
		if doInject {
			injected = true
			g = append(g, genuine...)
		}
		if toTarget {
			delivered++
		}
		mu.Unlock()
		if doInject {
			var sample [][]byte
			for _, d := range g {
				recs, _ := vfParseDatagram(d, cidLen)
				for _, rc := range recs {
					if !rc.Unified && rc.Type == 22 && rc.Epoch == 0 {
						if h, _, ok := vfParseHS(rc.Body); ok {
							sample = append(sample, h.Body)
						}
					}
				}
			}
			nb := 24
			var b []vfHostile
			cid := vfRandBytes(r, cidLen)
			switch c.Gen {
			case "raw":
				b = vfGenRaw(r, nb)
			case "recgrammar":
				b = vfGenRecordGrammar(r, nb, cid, uint64(100+r.IntN(50)), vfThorough())
			case "hsgrammar":
				b = vfGenHandshakeGrammar(r, nb, uint64(20+r.IntN(20)), sample)
			case "mutate":
				b = vfGenMutateGenuine(r, nb, g)
				if len(b) == 0 {
					b = vfGenRaw(r, nb)
				}
			case "hsdup":
				b = vfGenFreshDuplicates(g, cidLen)
			case "hsfarseq":
				// more one-byte fragments than the reassembly buffer's fragment limit, all of message sequence
				// numbers no flight of this handshake can reach
				_, maxCount := dtlsfragmentbuffer.VFLimits()
				for d := 0; d*100 < maxCount+300; d++ {
					var frags []byte
					for q := 0; q < 100; q++ {
						frags = append(frags, vfHSFragment(11, 5000, uint16(40000+d), uint32(q), 1, []byte{byte(q)})...)
					}
					b = append(b, vfHostile{Data: vfLegacyRecord(22, 0xfefd, 0, uint64(30+d), nil, -1, frags), Class: "unreachable-message-seq",
						Note: "100 one-byte fragments of a message sequence number far beyond any flight"})
				}
			case "hstrunc":
				// one truncation of the message(s) the target is about to receive, ahead of the genuine datagram
				if toTarget {
					all := vfGenTruncatedMessages(w.Data, cidLen, 7)
					nIdx := vfC08TruncPerPoint()
					if k := c.Idx * len(all) / nIdx; len(all) > 0 && (c.Idx == 0 || k != (c.Idx-1)*len(all)/nIdx) {
						b = []vfHostile{all[k]}
					}
				}
			}
			vfClassify(b, is13, cidLen)
			mu.Lock()
			batch = b
			mu.Unlock()
			// the genuine datagram that triggered the injection goes first when it is for the target
			// (except for truncations of that very datagram's messages, which must get there before it)
			if toTarget && c.Gen != "hstrunc" {
				n.Deliver(w.Dst, w.Data, from)
			}
			for _, h := range b {
				n.Deliver(string(target.EP.addr), h.Data, vfAddrOf(peer.Name))
			}
			if !toTarget || c.Gen == "hstrunc" {
				n.Deliver(w.Dst, w.Data, from)
			}

			return
		}
		n.Deliver(w.Dst, w.Data, from)
	}
	cerr, serr := p.Handshake(2 * time.Minute)
	res.Eval(1)
	mu.Lock()
	b := batch
	mu.Unlock()
	classes := map[string]int{}
	for _, h := range b {
		classes[h.Class]++
		res.Count("injected/"+h.Class, 1)
	}
	if len(b) == 0 {
		res.Count("hs_injection_point_not_reached", 1)
	}
	mustComplete := len(b) > 0 && classes["plaintext"] == 0 && classes["plaintext-nonhandshake"] == 0 && classes["replay"] == 0
	completed := cerr == nil && serr == nil
	state := fmt.Sprintf("%s/%s/k%d", v.Name, c.Target, c.K)
	if len(b) > 0 {
		for cls := range classes {
			res.NonTrivial(state + "/" + c.Gen + "/" + cls)
		}
		res.Seen("hs_states_hit", state)
	}
	if completed {
		res.Count("hs_completed", 1)
		n.SetOnSend(nil)
		p.C.StartPump()
		p.S.StartPump()
		if rt := vfRoundTrip(p, "c08", time.Minute); rt != "" && mustComplete {
			res.Violate(fmt.Sprintf("C08:hs-no-traffic-after-discardable-input:%s:%s", vfVerClass(v), c.Target),
				fmt.Sprintf("after only unparseable/unauthentic datagrams were injected into the %s at point %d of variant %s the handshake completed but %s", c.Target, c.K, v.Name, rt),
				map[string]any{"case": c, "batch": vfBatchDump(b)})
		}
	} else {
		res.Count("hs_not_completed", 1)
		if mustComplete {
			res.Count("hs_not_completed_mustcomplete", 1)
			// find the culprit datagram class for the signature
			res.Violate(fmt.Sprintf("C08:hs-aborted-by-discardable-input:%s:%s:client=%s,server=%s", vfVerClass(v), c.Target, vfErrNorm(cerr), vfErrNorm(serr)),
				fmt.Sprintf("variant %s: only unparseable / unauthentic datagrams (%v) were injected into the %s after its %d-th genuine datagram, yet the handshake did not complete: client=%v server=%v",
					v.Name, classes, c.Target, c.K, cerr, serr),
				map[string]any{"case": c, "batch": vfBatchDump(b)})
		}
	}
	vfC08Limits(res, p, c.ID)
	p.Close()
	synctest.Wait()
}

// vfC08Trickle: the first datagram of each side is lost and, for the whole handshake, an undecodable datagram reaches the
// target every 250 ms. Dropped garbage must not stand in the way of handshake progress: the lost flights are
// retransmitted on their timers and the handshake completes.
func vfC08Trickle(res *vfResult, v vfVariant, tgt string) {
	res.Eval(1)
	n := vfNewNet()
	co, so := v.Cfg.Options(nil, nil)
	p, err := vfNewPair(n, co, so)
	if err != nil {
		res.Count("config_rejected", 1)

		return
	}
	target, peer := vfSideOf(p, tgt)
	var mu sync.Mutex
	sent := map[string]int{}
	n.SetOnSend(func(n *vfNet, w *vfWire) {
		mu.Lock()
		k := sent[w.From]
		sent[w.From]++
		mu.Unlock()
		if k == 0 {
			return // lost
		}
		n.Deliver(w.Dst, w.Data, vfAddrOf(w.From))
	})
	stop := make(chan struct{})
	fed := 0
	feeder := make(chan struct{})
	go func() {
		defer close(feeder)
		r := vfRand("C08/trickle/"+v.Name+tgt, 0)
		for i := 0; i < 480; i++ {
			select {
			case <-stop:
				return
			case <-time.After(250 * time.Millisecond):
			}
			g := []byte{byte(r.IntN(20))}
			if i%3 == 1 {
				g = vfGenRaw(r, 1)[0].Data
			}
			n.Deliver(string(target.EP.addr), g, vfAddrOf(peer.Name))
			fed++
		}
	}()
	cerr, serr := p.Handshake(2 * time.Minute)
	close(stop)
	<-feeder
	res.Count("trickle_datagrams", int64(fed))
	res.NonTrivial(fmt.Sprintf("trickle/%s/%s", v.Name, tgt))
	if cerr == nil && serr == nil {
		res.Count("trickle_completed", 1)
	} else {
		mu.Lock()
		sc, ss := sent["c"], sent["s"]
		mu.Unlock()
		res.Violate(fmt.Sprintf("C08:hs-starved-by-discardable-input:%s:%s", v.Name, tgt),
			fmt.Sprintf("variant %s: the first datagram of each side was lost and one undecodable datagram reached the %s every 250 ms (%d in all); the handshake did not complete within 2 min: client=%v server=%v; datagrams emitted client=%d server=%d",
				v.Name, tgt, fed, cerr, serr, sc, ss), map[string]any{"trickle": v.Name + "/" + tgt})
	}
	n.SetOnSend(nil)
	p.Close()
	synctest.Wait()
}

// vfC08ListenerFlood (real time, loopback UDP): a listener whose application is busy - it has not called Accept yet -
// receives one datagram that opens a pending connection and then a flood of undecodable datagrams from the same
// address. What the listener holds for that connection must stay within a fixed limit.
func vfC08ListenerFlood(res *vfResult, ver string) {
	res.Eval(1)
	pki := vfGetPKI()
	so := vfSO(append(vfVerOpts(ver), WithCertificates(pki.Leaf("ecdsa", "server")))...)
	ln, err := ListenWithOptions("udp", &net.UDPAddr{IP: net.IPv4(127, 0, 0, 1)}, so...)
	if err != nil {
		res.Inconc("listener: " + err.Error())

		return
	}
	defer func() { _ = ln.Close() }()
	sock, err := net.DialUDP("udp", nil, ln.Addr().(*net.UDPAddr)) //nolint:forcetypeassert
	if err != nil {
		res.Inconc("flood socket: " + err.Error())

		return
	}
	defer func() { _ = sock.Close() }()
	r := vfRand("C08/listener-flood/"+ver, 0)
	// something that looks like the start of a handshake opens the pending connection
	_, _ = sock.Write(vfLegacyRecord(22, 0xfeff, 0, 0, nil, -1, vfHSFragment(1, 40, 0, 0, 40, vfRandBytes(r, 40))))
	const total, size = 24000, 1200
	sent := 0
	for i := 0; i < total; i++ {
		if _, err := sock.Write(vfRandBytes(r, size)); err == nil {
			sent++
		}
		if i%64 == 63 {
			time.Sleep(time.Millisecond) // stay below the socket's receive buffer
		}
	}
	time.Sleep(200 * time.Millisecond)
	type acc struct {
		c   net.Conn
		err error
	}
	ch := make(chan acc, 1)
	go func() { c, err := ln.Accept(); ch <- acc{c, err} }()
	var a acc
	select {
	case a = <-ch:
	case <-time.After(5 * time.Second):
		res.Count("listener_flood_accept_timeout", 1)

		return
	}
	if a.err != nil {
		res.Count("listener_flood_accept_failed", 1)

		return
	}
	conn, _ := a.c.(*Conn)
	defer func() { _ = conn.Close() }()
	type buffered interface{ VFBuffered() (int, int) }
	var inner any = conn.nextConn
	if u, ok := inner.(interface{ Conn() net.PacketConn }); ok {
		inner = u.Conn()
	}
	b, ok := inner.(buffered)
	if !ok {
		res.Inconc(fmt.Sprintf("listener flood: no access to the pending connection's buffer (%T)", inner))

		return
	}
	pk, by := b.VFBuffered()
	res.NonTrivial("listener-flood/" + ver)
	res.Count("listener_flood_datagrams_sent", int64(sent))
	res.Max("max_listener_buffered_packets", int64(pk))
	res.Max("max_listener_buffered_bytes", int64(by))
	if by > 8<<20 {
		res.Violate("C08:limit:listenerBuffer",
			fmt.Sprintf("DTLS %s listener: %d undecodable datagrams of %d bytes from one unauthenticated address, sent while the application had not called Accept; the pending connection holds %d datagrams / %d bytes", ver, sent, size, pk, by),
			map[string]any{"listener_flood": ver})
	}
}

// vfC08ListenerEmptyDatagram (real time, loopback UDP): a connection served through a listener receives zero-length
// datagrams from its peer's address (anybody can send those). They cannot be parsed as DTLS records: they are dropped
// and the connection keeps serving.
func vfC08ListenerEmptyDatagram(res *vfResult, ver string) {
	vfC08ListenerJunk(res, ver, "empty-datagram")
}

// vfC08ListenerJunk: kind "empty-datagram" = three zero-length datagrams; kind "flood" = 6 000 undecodable datagrams from
// the peer's address while the application is not reading, more than the listener's buffer holds. Afterwards the
// connection serves genuine traffic again.
func vfC08ListenerJunk(res *vfResult, ver, kind string) {
	res.Eval(1)
	pki := vfGetPKI()
	so := vfSO(append(vfVerOpts(ver), WithCertificates(pki.Leaf("ecdsa", "server")))...)
	ln, err := ListenWithOptions("udp", &net.UDPAddr{IP: net.IPv4(127, 0, 0, 1)}, so...)
	if err != nil {
		res.Inconc("listener: " + err.Error())

		return
	}
	defer func() { _ = ln.Close() }()
	sock, err := net.ListenUDP("udp", &net.UDPAddr{IP: net.IPv4(127, 0, 0, 1)})
	if err != nil {
		res.Inconc("client socket: " + err.Error())

		return
	}
	co := vfCO(append(vfVerOpts(ver), WithInsecureSkipVerify(true))...)
	cc, err := ClientWithOptions(sock, ln.Addr(), co...)
	if err != nil {
		res.Inconc("client: " + err.Error())

		return
	}
	defer func() { _ = cc.Close() }()
	type acc struct {
		c   net.Conn
		err error
	}
	ch := make(chan acc, 1)
	go func() {
		c, err := ln.Accept()
		if err == nil {
			if dc, ok := c.(*Conn); ok {
				_ = dc.SetDeadline(time.Now().Add(10 * time.Second))
				err = dc.Handshake()
			}
		}
		ch <- acc{c, err}
	}()
	_ = cc.SetDeadline(time.Now().Add(10 * time.Second))
	if err := cc.Handshake(); err != nil {
		res.Count("listener_empty_handshake_failed", 1)

		return
	}
	a := <-ch
	if a.err != nil {
		res.Count("listener_empty_handshake_failed", 1)

		return
	}
	srv, _ := a.c.(*Conn)
	defer func() { _ = srv.Close() }()
	id := "listener-" + kind + "/" + ver
	res.NonTrivial(id)
	read := func(want string) string {
		buf := make([]byte, 256)
		_ = srv.SetReadDeadline(time.Now().Add(3 * time.Second))
		for {
			n, err := srv.Read(buf)
			if err != nil {
				return err.Error()
			}
			if string(buf[:n]) == want {
				return ""
			}
		}
	}
	_ = cc.SetDeadline(time.Time{})
	if _, err := cc.Write([]byte("before")); err != nil || read("before") != "" {
		res.Count("listener_empty_warmup_failed", 1)

		return
	}
	if kind == "flood" {
		// three payloads the application does not read yet park the connection's read loop, so that what follows
		// piles up in the listener's buffer
		for k := 0; k < 3; k++ {
			_, _ = cc.Write([]byte(fmt.Sprintf("parked-%d", k)))
		}
		time.Sleep(50 * time.Millisecond)
		r := vfRand("C08/listener-junk/"+ver, 0)
		for i := 0; i < 6000; i++ {
			_, _ = sock.WriteTo(vfRandBytes(r, 200), ln.Addr())
			if i%64 == 63 {
				time.Sleep(time.Millisecond)
			}
		}
		res.Count("injected/flood-at-listener-connection", 6000)
	} else {
		for i := 0; i < 3; i++ {
			_, _ = sock.WriteTo(nil, ln.Addr())
		}
		res.Count("injected/empty-datagram-at-listener", 3)
	}
	time.Sleep(50 * time.Millisecond)
	// (the junk is read away first; what the full buffer dropped is lost like any datagram, so the payload is written
	// again until it gets through)
	var werr error
	msg := "never written"
	for try := 0; try < 4 && msg != ""; try++ {
		_, werr = cc.Write([]byte("after"))
		msg = read("after")
	}
	if werr != nil || msg != "" {
		res.Violate("C08:est-stops-serving-after-discardable-input:listener-"+kind,
			fmt.Sprintf("%s: after the undecodable datagrams from its peer's address the connection accepted through the listener no longer delivers data: client Write err=%v, server Read: %s", id, werr, msg),
			map[string]any{"listener_junk": ver + "/" + kind})
	} else {
		res.Count("listener_empty_still_serving", 1)
	}
}

// vfC08OddVersionHello: a well-formed ClientHello that offers no version the server supports (rewritten in transit from
// a genuine client's hello: legacy_version DTLS 1.0 without supported_versions, or a supported_versions list of unknown
// versions only) reaches servers of every version range. Unauthenticated input in the first handshake state: the server
// refuses, it does not panic.
func vfC08OddVersionHello(res *vfResult, sver, kind string) {
	res.Eval(1)
	cfg := vfBaseCfg(vfSuiteInfo{Name: "default", Auth: "ecdsa"}, "ecdsa")
	cfg.CVer, cfg.SVer, cfg.HelloVerify = "12", sver, false
	if kind == "unknown-supported-versions" {
		cfg.CVer = "dual"
	}
	n := vfNewNet()
	co, so := cfg.Options(nil, nil)
	p, err := vfNewPair(n, co, so)
	if err != nil {
		res.Count("config_rejected", 1)

		return
	}
	rewritten := 0
	n.SetOnSend(func(n *vfNet, w *vfWire) {
		if w.From != "c" {
			n.Deliver(w.Dst, w.Data, vfAddrOf(w.From))

			return
		}
		recs, ok := vfParseDatagram(w.Data, 0)
		var dg []byte
		for _, rc := range recs {
			h, rest, okh := vfParseHS(rc.Body)
			if !ok || rc.Unified || rc.Type != 22 || rc.Epoch != 0 || !okh || len(rest) != 0 || h.Type != 1 || h.FragOff != 0 || h.FragLen != h.Length {
				dg = append(dg, rc.Raw...)

				continue
			}
			hello, okp := vfParseHello(h.Body, true)
			if !okp {
				dg = append(dg, rc.Raw...)

				continue
			}
			var exts []vfExt
			for _, e := range hello.Exts {
				if e.Type != 43 {
					exts = append(exts, e)
				}
			}
			if kind == "unknown-supported-versions" {
				exts = append(exts, vfExt{Type: 43, Data: []byte{4, 0xfe, 0x00, 0x03, 0x04}})
			} else {
				hello.Version = []byte{0xfe, 0xff}
			}
			hello.Exts = exts
			body := hello.Marshal()
			dg = append(dg, vfLegacyRecord(22, rc.Version, 0, rc.Seq, nil, -1, vfHSFragment(1, uint32(len(body)), h.MsgSeq, 0, uint32(len(body)), body))...)
			rewritten++
		}
		if !ok {
			dg = w.Data
		}
		n.Deliver(w.Dst, dg, vfAddrOf(w.From))
	})
	id := fmt.Sprintf("odd-version-hello/server=%s/%s", sver, kind)
	ctx, cancel := context.WithTimeout(context.Background(), 20*time.Second)
	defer cancel()
	var wg sync.WaitGroup
	wg.Add(2)
	var panicked any
	go func() {
		defer wg.Done()
		defer func() {
			if r := recover(); r != nil {
				panicked = r
			}
		}()
		p.S.Err = p.S.Conn.HandshakeContext(ctx)
	}()
	go func() { defer wg.Done(); p.C.Err = p.C.Conn.HandshakeContext(ctx) }()
	wg.Wait()
	res.NonTrivial(id)
	res.Count("injected/clienthello-without-common-version", int64(rewritten))
	if panicked != nil {
		res.Violate("C08:panic:clienthello-without-common-version:server="+sver,
			fmt.Sprintf("%s: the server's HandshakeContext panicked: %v", id, panicked), map[string]any{"odd_version": id})
	} else if p.S.Err == nil && p.C.Err == nil && sver != "12" {
		res.Count("odd_version_hello_completed", 1)
	} else {
		res.Count("odd_version_hello_refused", 1)
	}
	n.SetOnSend(nil)
	p.Close()
	synctest.Wait()
}

func vfVerClass(v vfVariant) string {
	if v.Cfg.Is13() {
		return "dtls13"
	}

	return "dtls12"
}

func vfBatchDump(b []vfHostile) []map[string]string {
	var out []map[string]string
	for _, h := range b {
		d := h.Data
		if len(d) > 200 {
			d = d[:200]
		}
		out = append(out, map[string]string{"class": h.Class, "note": h.Note, "hex": vfHex(d), "len": fmt.Sprint(len(h.Data))})
	}

	return out
}

// vfC08Limits checks the stated limits at quiescence.
func vfC08Limits(res *vfResult, p *vfPair, id string) {
	synctest.Wait()
	maxSize, maxCount := dtlsfragmentbuffer.VFLimits()
	for _, s := range []*vfSide{p.C, p.S} {
		s.Conn.lock.Lock()
		q := len(s.Conn.encryptedPackets)
		s.Conn.lock.Unlock()
		res.Max("max_encrypted_packets_queue", int64(q))
		if q > maxAppDataPacketQueueSize {
			res.Violate("C08:limit:encryptedPackets", fmt.Sprintf("%d queued future-epoch packets > limit %d", q, maxAppDataPacketQueueSize), map[string]any{"case": id})
		}
		// per-epoch replay windows: one per epoch the connection has really used, never one per epoch number a
		// datagram merely claims (in-package read at a quiescent point)
		s.Conn.lock.Lock()
		nd := len(vfCommon(s.Conn).ReplayDetector)
		s.Conn.lock.Unlock()
		res.Max("max_replay_detectors", int64(nd))
		if nd > 64 {
			res.Violate("C08:limit:replayDetectors", fmt.Sprintf("%d per-epoch replay detectors are allocated on one connection", nd), map[string]any{"case": id})
		}
		// the transcript cache holds what the handshake exchanged; complete messages the peer sends afterwards must
		// not pile up in it beyond what reassembly itself may hold
		cb := 0
		for _, it := range s.Conn.handshakeCache.VFItems() {
			cb += len(it.Data)
		}
		res.Max("max_handshake_cache_bytes", int64(cb))
		if cb > maxSize+256<<10 {
			ver := "dtls12"
			if _, ok := s.Conn.state.(*dtlsstate.State13); ok {
				ver = "dtls13"
			}
			res.Violate("C08:limit:handshakeCache:"+ver, fmt.Sprintf("the handshake message cache of %s holds %d bytes in %d messages (reassembly limit %d bytes)", s.Name, cb, s.Conn.handshakeCache.VFLen(), maxSize), map[string]any{"case": id})
		}
		ts, tc, _, af, ab := s.Conn.fragmentBuffer.VFStats()
		res.Max("max_fragment_buffer_bytes", int64(ab))
		res.Max("max_fragment_buffer_fragments", int64(af))
		if ab > maxSize || af > maxCount || ts > maxSize || tc > maxCount {
			res.Violate("C08:limit:fragmentBuffer", fmt.Sprintf("fragment buffer holds %d bytes / %d fragments (accounted %d/%d), limits %d/%d", ab, af, ts, tc, maxSize, maxCount), map[string]any{"case": id})
		}
	}
}

// vfC08Established: storm on an established connection, then genuine traffic must still flow.
func vfC08Established(res *vfResult, c vfC08Case, v vfVariant) {
	r := vfRand("C08/"+c.ID, 0)
	is13 := v.Cfg.Is13()
	n := vfNewNet()
	co, so := v.Cfg.Options(nil, nil)
	p, err := vfNewPair(n, co, so)
	if err != nil {
		res.Count("config_rejected", 1)

		return
	}
	if ce, se := p.Handshake(time.Minute); ce != nil || se != nil {
		res.Count("est_handshake_failed", 1)
		p.Close()
		synctest.Wait()

		return
	}
	target, peer := vfSideOf(p, c.Target)
	p.C.StartPump()
	p.S.StartPump()
	for k := 0; k < 3; k++ {
		_, _ = peer.Conn.Write([]byte(fmt.Sprintf("pre-%d", k)))
		_, _ = target.Conn.Write([]byte(fmt.Sprintf("pre-%d", k)))
	}
	time.Sleep(50 * time.Millisecond)
	synctest.Wait()
	cidLen := vfCIDLenOf(target.Conn)
	var genuine [][]byte
	for _, w := range n.Emissions(peer.Name) {
		genuine = append(genuine, w.Data)
	}
	res.Eval(1)
	var b []vfHostile
	nb := vfPick(150, 600)
	switch c.Scenario {
	case "authmal":
		tk, err := vfNewToolkit(p)
		if err != nil {
			res.Count("toolkit_unavailable", 1)
			p.Close()
			synctest.Wait()

			return
		}
		if c.Gen == "auth-newmsgs" {
			b = vfGenAuthNewMessages(r, tk, peer.Name, uint16(dtlsstate.HandshakeRecvSequence(target.Conn.state)), 2_400_000, is13)
		} else {
			b = vfGenAuthMalformed(r, tk, peer.Name, vfPick(12, 24))
		}
	default:
		switch c.Gen {
		case "raw":
			b = vfGenRaw(r, nb)
		case "recgrammar":
			b = vfGenRecordGrammar(r, nb, vfCommon(target.Conn).LocalConnectionID(), uint64(r.IntN(1000)), vfThorough())
			// on a protected association also the well-formed unprotected ones: a fatal alert, application data
			b = append(b,
				vfHostile{Data: vfLegacyRecord(21, 0xfefd, 0, 7901, nil, -1, []byte{2, 40}), Class: "?", Note: "epoch0-fatal-alert"},
				vfHostile{Data: vfLegacyRecord(23, 0xfefd, 0, 7902, nil, -1, []byte("epoch-0 application data")), Class: "?", Note: "epoch0-appdata"})
		case "mutate":
			b = vfGenMutateGenuine(r, nb, genuine)
		case "ccs-malformed":
			for _, e := range []int{0, 1, 2, 3, 4, 0xffff} {
				for k, body := range [][]byte{{}, {2}, {0}, {1, 1}, {0xff}, bytes.Repeat([]byte{1}, 40)} {
					b = append(b, vfHostile{Data: vfLegacyRecord(20, 0xfefd, uint16(e), uint64(0x7700+k), nil, -1, body), Note: fmt.Sprintf("ccs-epoch%d-body%d", e, k)})
				}
			}
		case "ccs-sweep":
			for round := 0; round < 2; round++ {
				for e := 1; e <= 0xffff; e++ {
					b = append(b, vfHostile{Data: []byte{20, 0xfe, 0xfd, byte(e >> 8), byte(e), 0, byte(round + 1), 0, 0, byte(e >> 8), byte(e), 0, 1, 1}})
				}
			}
		}
		vfClassify(b, is13, cidLen)
		if c.Gen == "ccs-sweep" || c.Gen == "ccs-malformed" {
			for i := range b {
				b[i].Class = "forged-change-cipher-spec"
			}
		}
	}
	classes := map[string]int{}
	before := len(n.Emissions(target.Name))
	for i, h := range b {
		classes[h.Class]++
		res.Count("injected/"+h.Class, 1)
		n.Deliver(string(target.EP.addr), h.Data, vfAddrOf(peer.Name))
		if i%512 == 511 {
			synctest.Wait() // long batches are fed at the pace the endpoint reads
		}
	}
	time.Sleep(20 * time.Millisecond)
	synctest.Wait()
	emittedDuring := len(n.Emissions(target.Name)) - before
	res.Count("est_target_emissions_during_storm", int64(emittedDuring))
	for cls := range classes {
		res.NonTrivial(fmt.Sprintf("%s/%s/%s/%s", c.Scenario, v.Name, c.Target, cls))
	}
	discardable := classes["plaintext"] == 0 && classes["authmalformed"] == 0
	rt := vfRoundTrip(p, "c08e", time.Minute)
	if rt == "" {
		res.Count("est_still_serving", 1)
	} else {
		res.Count("est_not_serving", 1)
		res.Seen("est_not_serving_kinds", fmt.Sprintf("%s/%s: %s", c.Scenario, vfVerClass(v), strings.SplitN(rt, "(", 2)[0]))
		if discardable {
			res.Violate(fmt.Sprintf("C08:est-stops-serving-after-discardable-input:%s:%s", vfVerClass(v), c.Gen),
				fmt.Sprintf("variant %s: after %d unparseable / unauthentic / replayed datagrams (%v) the established %s no longer serves traffic: %s", v.Name, len(b), classes, c.Target, rt),
				map[string]any{"case": c, "batch_head": vfBatchDump(b[:min(len(b), 30)])})
		}
	}
	vfC08Limits(res, p, c.ID)
	p.Close()
	synctest.Wait()
}

type vfSizes map[string]int64

func vfContainerSizes(c *Conn) vfSizes {
	s := vfSizes{}
	s["handshakeCache"] = int64(c.handshakeCache.VFLen())
	c.lock.Lock()
	s["encryptedPackets"] = int64(len(c.encryptedPackets))
	s["pendingACKs"] = int64(len(c.pendingACKs))
	c.lock.Unlock()
	_, _, msgs, af, ab := c.fragmentBuffer.VFStats()
	s["fragmentBuffer.messages"], s["fragmentBuffer.fragments"], s["fragmentBuffer.bytes"] = int64(msgs), int64(af), int64(ab)
	cm := vfCommon(c)
	s["replayDetectors"] = int64(len(cm.ReplayDetector))
	s["localSequenceNumbers"] = int64(len(cm.LocalSequenceNumber))
	s["remoteSequenceNumbers"] = int64(len(cm.RemoteSequenceNumber))
	if st, ok := c.state.(*dtlsstate.State13); ok {
		w, r := st.TrafficKeys.VFCounts()
		s["trafficKeys.writeOld"], s["trafficKeys.readOld"] = int64(w), int64(r)
	}
	if q, f, ri, ok := dtlshandshake.VFPostHandshakeSizes(c.fsm); ok {
		s["postHandshake.queue"], s["postHandshake.flights"], s["postHandshake.recordIndex"] = int64(q), int64(f), int64(ri)
	}
	s["fsm.flights"] = int64(dtlshandshake.VFFSMFlights(c.fsm))

	return s
}

// vfC08Plateau: the same storm for N, 2N, 4N datagrams; bounded state shows size(4N)==size(2N).
func vfC08Plateau(res *vfResult, c vfC08Case, v vfVariant) {
	r := vfRand("C08/"+c.ID, 0)
	is13 := v.Cfg.Is13()
	n := vfNewNet()
	n.stormCap = 0
	co, so := v.Cfg.Options(nil, nil)
	p, err := vfNewPair(n, co, so)
	if err != nil {
		return
	}
	if ce, se := p.Handshake(time.Minute); ce != nil || se != nil {
		p.Close()
		synctest.Wait()

		return
	}
	target, peer := vfSideOf(p, c.Target)
	p.C.StartPump()
	p.S.StartPump()
	_, _ = peer.Conn.Write([]byte("warm"))
	_, _ = target.Conn.Write([]byte("warm"))
	time.Sleep(50 * time.Millisecond)
	synctest.Wait()
	cidLen := vfCIDLenOf(target.Conn)
	var genuine [][]byte
	for _, w := range n.Emissions(peer.Name) {
		genuine = append(genuine, w.Data)
	}
	// an authenticated peer that keeps retransmitting its final handshake message with fresh record numbers
	tk, tkErr := vfNewToolkit(p)
	var lastHS []byte
	for _, it := range peer.Conn.handshakeCache.VFItems() {
		if it.IsClient == (peer.Name == "c") && len(it.Data) >= 12 {
			lastHS = it.Data
		}
	}
	N := vfPick(3000, 40000)
	marks := []int{N, 2 * N, 4 * N}
	var at []vfSizes
	sent := 0
	batchNo := 0
	junkSeq := 0
	res.Eval(1)
	for _, m := range marks {
		for sent < m {
			var h []vfHostile
			batchNo++
			switch batchNo % 5 {
			case 4:
				// complete, well-formed but unauthenticated handshake messages, numbered consecutively from the
				// message sequence the target expects next: each one assembles at once
				cur := dtlsstate.HandshakeRecvSequence(target.Conn.state)
				for q := 0; q < 8; q++ {
					body := vfRandBytes(r, 40)
					ms := uint16(cur + junkSeq)
					junkSeq++
					h = append(h, vfHostile{Data: vfLegacyRecord(22, 0xfefd, 0, uint64(500000+sent+q), nil, -1,
						vfHSFragment([]uint8{1, 11, 12, 16, 20}[q%5], uint32(len(body)), ms, 0, uint32(len(body)), body)), Class: "?",
						Note: "complete unauthenticated handshake message at the next expected sequence"})
					res.Count("plateau_sequential_junk_messages", 1)
				}
			case 0:
				h = vfGenRaw(r, 8)
			case 1:
				h = vfGenRecordGrammar(r, 8, vfCommon(target.Conn).LocalConnectionID(), uint64(sent), false)
			case 2:
				h = vfGenHandshakeGrammar(r, 8, uint64(1000+sent), nil)
			default:
				// genuine handshake datagrams of the peer, replayed verbatim (retransmissions) and mutated
				h = vfGenMutateGenuine(r, 8, genuine)
				if tkErr == nil && lastHS != nil {
					ep, first := tk.reserve(peer.Name, 4)
					for q := 0; q < 4; q++ {
						if b, err := tk.Seal(peer.Name, ep, first+uint64(q), 22, lastHS, r.Uint64()); err == nil {
							h = append(h, vfHostile{Data: b, Class: "authmalformed", Note: "authentic retransmission of the final handshake message"})
							res.Count("plateau_authentic_retransmissions", 1)
						}
					}
				}
			}
			vfClassify(h, is13, cidLen)
			for _, x := range h {
				n.Deliver(string(target.EP.addr), x.Data, vfAddrOf(peer.Name))
				sent++
			}
			if sent%256 < 8 {
				time.Sleep(time.Millisecond)
				synctest.Wait()
			}
		}
		time.Sleep(10 * time.Millisecond)
		synctest.Wait()
		at = append(at, vfContainerSizes(target.Conn))
		if target.EP.IsClosed() {
			break
		}
	}
	res.Count("plateau_runs", 1)
	res.Count("plateau_datagrams", int64(sent))
	if len(at) == 3 {
		keys := make([]string, 0, len(at[0]))
		for k := range at[2] {
			keys = append(keys, k)
		}
		sort.Strings(keys)
		for _, k := range keys {
			a, b2, c4 := at[0][k], at[1][k], at[2][k]
			res.Max("plateau_max/"+k, c4)
			res.NonTrivial("plateau/" + v.Name + "/" + c.Target + "/" + k)
			// containers with a stated limit are judged against that limit only (vfC08Limits)
			if k == "encryptedPackets" || strings.HasPrefix(k, "fragmentBuffer.") {
				continue
			}
			// linear growth continues between 2N and 4N (allowing small constants)
			if c4 > b2+8 && b2 > a+4 && (c4-b2) >= (b2-a) {
				res.Violate(fmt.Sprintf("C08:plateau:%s:%s", k, vfVerClass(v)),
					fmt.Sprintf("variant %s, %s: per-connection container %s keeps growing with hostile input: %d after %d datagrams, %d after %d, %d after %d",
						v.Name, c.Target, k, a, marks[0], b2, marks[1], c4, marks[2]),
					map[string]any{"case": c, "sizes": at})
			}
		}
		res.Sample(map[string]any{"plateau": v.Name + "/" + c.Target, "N": N, "sizes_at_N_2N_4N": at})
	} else {
		res.Count("plateau_target_closed_early", 1)
	}
	p.Close()
	synctest.Wait()
}

func TestVF_C08(t *testing.T) {
	vfGetPKI()
	res := vfNewResult("C08", "hostile datagrams (raw bytes, record grammar, handshake grammar, mutated genuine traffic, authenticated-but-"+
		"malformed records sealed with the session keys) injected into live clients and servers after every k-th genuine datagram of "+
		"every handshake variant and into established connections; plateau test of every per-connection container at N/2N/4N datagrams. "+
		"Non-trivial/distinct = distinct (variant, target, handshake point, generator, datagram class) tuples actually injected")
	res.Assume("'unparseable' is decided by the library's own pure unpack/header functions in the connection's version/CID context",
		"parseable plaintext (epoch 0) input is only required not to crash, wedge or bloat: DTLS cannot authenticate epoch 0",
		"a process death is attributed by re-running the in-flight cases alone (driver)")
	vs := vfC08Variants()
	cases := vfC08Cases()
	only := map[string]bool{}
	for _, c := range strings.Split(os.Getenv("VERIF_ONLY_CASES"), "\x1f") {
		if c != "" {
			only[c] = true
		}
	}
	var run []vfC08Case
	for _, c := range cases {
		if vfEnv().SkipCase[c.ID] {
			res.Count("cases_skipped_after_crash", 1)

			continue
		}
		if len(only) > 0 && !only[c.ID] {
			continue
		}
		run = append(run, c)
	}
	heap0 := vfHeap()
	vfCaseName = func(i int) string { return run[i].ID }
	defer func() { vfCaseName = nil }()
	vfBubbles(t, len(run), func(t *testing.T, i int) {
		c := run[i]
		vfCurrent(i, c.ID, c)
		switch c.Scenario {
		case "hs":
			vfC08Handshake(res, c, vs[c.Variant])
		case "est", "authmal":
			vfC08Established(res, c, vs[c.Variant])
		case "plateau":
			vfC08Plateau(res, c, vs[c.Variant])
		}
		vfClearCurrent(i)
	})
	if len(only) == 0 {
		var tv []vfVariant
		for _, v := range vfC02Variants() {
			switch v.Name {
			case "12-ecdsa", "12-cid44", "13-direct", "13-hrr", "dualstack-both", "dualstack-both-nohv", "dualstack-client-12server", "13client-dualstack-server":
				tv = append(tv, v)
			}
		}
		vfBubbles(t, len(tv)*2, func(t *testing.T, i int) { vfC08Trickle(res, tv[i/2], []string{"c", "s"}[i%2]) })
	}
	if len(only) == 0 {
		var ov [][2]string
		for _, sv := range []string{"12", "13", "dual"} {
			for _, k := range []string{"legacy-version-dtls10", "unknown-supported-versions"} {
				ov = append(ov, [2]string{sv, k})
			}
		}
		vfBubbles(t, len(ov), func(t *testing.T, i int) { vfC08OddVersionHello(res, ov[i][0], ov[i][1]) })
		// an authenticated peer that is already done sends far more application records than are held for the first Read
		vfBubbles(t, 21, func(t *testing.T, i int) { vfEarlyDataRun(t, res, i, 150) })
		vfC08ListenerFlood(res, "12")
		vfC08ListenerFlood(res, "13")
		vfC08ListenerEmptyDatagram(res, "12")
		vfC08ListenerEmptyDatagram(res, "13")
		vfC08ListenerJunk(res, "12", "flood")
		vfC08ListenerJunk(res, "13", "flood")
	}
	res.Count("heap_delta_kb", int64(vfHeap()-heap0)/1024)
	if len(only) == 0 {
		res.Floor("injected/unparseable", 100)
		res.Floor("injected/failedauth", 100)
		res.Floor("injected/plaintext", 100)
		res.Floor("injected/authmalformed", 50)
		res.Floor("plateau_runs", 4)
		res.Floor("hs_completed", 100)
	} else {
		res.NonTrivial("only-1")
		res.NonTrivial("only-2")
	}
	res.Finish(t)
}

func vfHeap() uint64 {
	runtime.GC()
	var m runtime.MemStats
	runtime.ReadMemStats(&m)

	return m.HeapAlloc
}
