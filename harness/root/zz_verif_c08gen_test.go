//go:build verif

package dtls

// Hostile datagram generators and the keyed attacker toolkit (C05/C08/C20).

import (
	"bytes"
	"crypto/aes"
	"crypto/cipher"
	"encoding/binary"
	"fmt"
	"math/rand/v2"
	"sync/atomic"

	dtlsstate "github.com/pion/dtls/v3/internal/state"
	ref "github.com/pion/dtls/v3/internal/zzverifref"
	"github.com/pion/dtls/v3/pkg/protocol/recordlayer"
)

// vfHostile is one injected datagram with the class the oracle needs.
type vfHostile struct {
	Data  []byte
	Class string // unparseable | failedauth | plaintext | authmalformed | replay
	Note  string
}

// vfLibUnparseable applies the library's own unpack/header functions (pure, no connection state).
func vfLibUnparseable(b []byte, is13 bool, cidLen int) bool {
	if len(b) == 0 {
		return true
	}
	var recs [][]byte
	var err error
	if is13 || b[0]&0xe0 == 0x20 {
		recs, err = recordlayer.UnpackDatagram13(b, cidLen, false, true)
	} else {
		recs, err = recordlayer.ContentAwareUnpackDatagram(b, cidLen)
	}
	if err != nil {
		return true
	}
	for _, r := range recs {
		if len(r) > 0 && r[0]&0xe0 == 0x20 {
			c := recordlayer.CiphertextRecord13{}
			if cidLen > 0 {
				c.Header.ConnectionID = make([]byte, cidLen)
			}
			if c.Unmarshal(r) == nil {
				return false
			}

			continue
		}
		h := recordlayer.Header{}
		if cidLen > 0 {
			h.ConnectionID = make([]byte, cidLen)
		}
		if h.Unmarshal(r) == nil {
			return false
		}
	}

	return true
}

func vfLegacyRecord(ct uint8, ver uint16, epoch uint16, seq uint64, cid []byte, lenField int, body []byte) []byte {
	h := []byte{ct, byte(ver >> 8), byte(ver), byte(epoch >> 8), byte(epoch),
		byte(seq >> 40), byte(seq >> 32), byte(seq >> 24), byte(seq >> 16), byte(seq >> 8), byte(seq)}
	h = append(h, cid...)
	if lenField < 0 {
		lenField = len(body)
	}
	h = binary.BigEndian.AppendUint16(h, uint16(lenField))

	return append(h, body...)
}

func vfHSFragment(typ uint8, total uint32, msgSeq uint16, off, flen uint32, body []byte) []byte {
	h := []byte{typ, byte(total >> 16), byte(total >> 8), byte(total), byte(msgSeq >> 8), byte(msgSeq),
		byte(off >> 16), byte(off >> 8), byte(off), byte(flen >> 16), byte(flen >> 8), byte(flen)}

	return append(h, body...)
}

// vfGenRaw: arbitrary byte strings.
func vfGenRaw(r *rand.Rand, n int) []vfHostile {
	var out []vfHostile
	for len(out) < n {
		var b []byte
		switch r.IntN(6) {
		case 0:
			b = []byte{byte(r.IntN(256))}
		case 1:
			b = vfRandBytes(r, []int{0, 2, 3, 12, 13, 14, 20, 25, 100, 1200, 8192}[r.IntN(11)])
		case 2:
			b = bytes.Repeat([]byte{byte(r.IntN(256))}, 1+r.IntN(64))
		case 3:
			b = append([]byte{22, 0xfe, 0xfd}, vfRandBytes(r, r.IntN(12))...) // truncated header
		case 4:
			b = append([]byte{byte(0x20 | r.IntN(32))}, vfRandBytes(r, r.IntN(40))...) // unified-looking
		default:
			b = vfRandBytes(r, 1+r.IntN(60))
		}
		out = append(out, vfHostile{Data: b, Class: "?", Note: "raw"})
	}

	return out
}

// vfGenRecordGrammar: syntactically valid record headers with hostile fields / bodies.
// seqBase: record sequence numbers are taken from seqBase.. (chosen by the caller).
func vfGenRecordGrammar(r *rand.Rand, n int, cid []byte, seqBase uint64, thorough bool) []vfHostile {
	var out []vfHostile
	// always present: small plaintext-format records that claim a far-future epoch (cheap to send, must stay cheap to receive)
	for _, ep := range []uint16{0xffff, 0x8000, 300} {
		out = append(out, vfHostile{Data: vfLegacyRecord(uint8(20+r.IntN(4)), 0xfefd, ep, seqBase+uint64(ep), nil, -1, []byte{1}), Class: "?", Note: fmt.Sprintf("far-future-epoch-%d", ep)})
	}
	// always present: an unprotected alert whose body does not decode (an invalid record in every state)
	out = append(out,
		vfHostile{Data: vfLegacyRecord(21, 0xfefd, 0, seqBase+900, nil, -1, []byte{2, 40, 0}), Class: "?", Note: "epoch0-alert-3-byte-body"})
	cts := []uint8{0, 19, 20, 21, 22, 23, 24, 25, 26, 27, 28, 64, 99, 255}
	for len(out) < n {
		ct := cts[r.IntN(len(cts))]
		if thorough && r.IntN(2) == 0 {
			ct = uint8(r.IntN(256))
		}
		if ct&0xe0 == 0x20 {
			ct = 23
		}
		ver := []uint16{0xfefd, 0xfefd, 0xfeff, 0xfefc, 0x0303, 0}[r.IntN(6)]
		epoch := []uint16{0, 0, 1, 1, 2, 3, 0xffff}[r.IntN(7)]
		body := vfRandBytes(r, []int{0, 1, 2, 15, 16, 17, 32, 48, 64, 200}[r.IntN(10)])
		lf := -1
		switch r.IntN(6) {
		case 0:
			lf = len(body) + 1 + r.IntN(100)
		case 1:
			if len(body) > 0 {
				lf = r.IntN(len(body))
			}
		}
		var c []byte
		if ct == 25 {
			c = cid
		}
		seq := seqBase + uint64(len(out))
		out = append(out, vfHostile{Data: vfLegacyRecord(ct, ver, epoch, seq, c, lf, body), Class: "?",
			Note: fmt.Sprintf("rec ct=%d ver=%04x epoch=%d len=%d/%d", ct, ver, epoch, lf, len(body))})
	}

	return out
}

// vfGenHandshakeGrammar: epoch-0 handshake records with hostile fragment fields.
func vfGenHandshakeGrammar(r *rand.Rand, n int, seqBase uint64, sampleBodies [][]byte) []vfHostile {
	var out []vfHostile
	edge := func(l uint32) uint32 {
		return []uint32{0, 1, l - 1, l, l + 1, 1<<24 - 1, uint32(r.IntN(1 << 24))}[r.IntN(7)] & 0xffffff
	}
	for len(out) < n {
		typ := uint8([]int{0, 1, 2, 3, 4, 8, 11, 12, 13, 14, 15, 16, 20, 24, 25, 255}[r.IntN(16)])
		var body []byte
		if len(sampleBodies) > 0 && r.IntN(2) == 0 {
			s := sampleBodies[r.IntN(len(sampleBodies))]
			if len(s) > 0 {
				body = s[:r.IntN(len(s)+1)]
			}
		} else {
			body = vfRandBytes(r, []int{0, 0, 1, 2, 12, 40, 100}[r.IntN(7)])
		}
		bl := uint32(len(body))
		total, off, flen := bl, uint32(0), bl
		switch r.IntN(8) {
		case 0:
			total = edge(bl)
		case 1:
			off = edge(bl)
		case 2:
			flen = edge(bl)
		case 3:
			total, off, flen = 0, edge(5), 0 // zero-length fragment of an empty message at an offset
		case 4:
			total, off, flen = edge(bl), edge(bl), 0
		case 5:
			total, off = 1<<24-1, edge(1<<24-1)
		}
		ms := uint16([]int{0, 1, 2, 3, 4, 5, 6, 10, 65535}[r.IntN(9)])
		frag := vfHSFragment(typ, total, ms, off, flen, body)
		if r.IntN(5) == 0 { // two fragments in one record
			frag = append(frag, vfHSFragment(typ, total, ms+1, 0, 0, nil)...)
		}
		out = append(out, vfHostile{Data: vfLegacyRecord(22, 0xfefd, 0, seqBase+uint64(len(out)), nil, -1, frag), Class: "plaintext",
			Note: fmt.Sprintf("hs typ=%d total=%d ms=%d off=%d flen=%d body=%d", typ, total, ms, off, flen, bl)})
	}

	return out
}

// vfGenMutateGenuine: mutations of datagrams the genuine peer really sent.
func vfGenMutateGenuine(r *rand.Rand, n int, genuine [][]byte) []vfHostile {
	var out []vfHostile
	if len(genuine) == 0 {
		return out
	}
	for len(out) < n {
		g := genuine[r.IntN(len(genuine))]
		if len(g) == 0 {
			continue
		}
		m := bytes.Clone(g)
		note := ""
		switch r.IntN(7) {
		case 0:
			i := r.IntN(len(m))
			m[i] ^= 1 << uint(r.IntN(8))
			note = fmt.Sprintf("bitflip@%d", i)
		case 1:
			m = m[:r.IntN(len(m))]
			note = "truncate"
		case 2:
			m = append(m, vfRandBytes(r, 1+r.IntN(20))...)
			note = "extend"
		case 3:
			i := r.IntN(len(m))
			m[i] = byte(r.IntN(256))
			note = fmt.Sprintf("byteset@%d", i)
		case 4:
			if len(m) > 13 {
				i := 13 + r.IntN(len(m)-13)
				m[i]++
				note = fmt.Sprintf("body+1@%d", i)
			}
		case 5:
			g2 := genuine[r.IntN(len(genuine))]
			k := r.IntN(len(m))
			m = append(m[:k], g2[min(k, len(g2)):]...)
			note = "splice"
		default:
			note = "replay"
		}
		cls := "?"
		if note == "replay" {
			cls = "replay"
		}
		out = append(out, vfHostile{Data: m, Class: cls, Note: "mut:" + note})
	}

	return out
}

// vfGenFreshDuplicates: every plaintext handshake record seen so far once more under a fresh record sequence
// number — what a retransmission of the same fragments looks like. Harmless by construction (class "benign").
func vfGenFreshDuplicates(genuine [][]byte, cidLen int) []vfHostile {
	var out []vfHostile
	// The numbers sit a little above the sender's highest one: far-away numbers would push the (unauthenticated)
	// epoch-0 replay window past the genuine records that follow, which is a different, protocol-inherent attack.
	seq := uint64(0)
	for _, d := range genuine {
		if recs, ok := vfParseDatagram(d, cidLen); ok {
			for _, rc := range recs {
				if !rc.Unified && rc.Epoch == 0 && rc.Seq > seq {
					seq = rc.Seq
				}
			}
		}
	}
	seq += 24
	for _, d := range genuine {
		recs, ok := vfParseDatagram(d, cidLen)
		if !ok {
			continue
		}
		for _, rc := range recs {
			if rc.Unified || rc.Type != 22 || rc.Epoch != 0 || len(out) >= 16 {
				continue
			}
			seq++
			out = append(out, vfHostile{Data: vfLegacyRecord(22, rc.Version, 0, seq, nil, -1, rc.Body), Class: "benign", Note: "fresh-seq-duplicate"})
		}
	}
	// the newest genuine fragment again, more than a thousand times (many copies per record): exact duplicates
	// occupy one slot, however many arrive
	if len(genuine) > 0 {
		if recs, ok := vfParseDatagram(genuine[len(genuine)-1], cidLen); ok {
			for _, rc := range recs {
				if rc.Unified || rc.Type != 22 || rc.Epoch != 0 {
					continue
				}
				h, _, ok := vfParseHS(rc.Body)
				if !ok || h.FragLen == 0 {
					continue
				}
				one := rc.Body[:12+int(h.FragLen)]
				per := 7800 / len(one)
				if per < 1 {
					break
				}
				body := bytes.Repeat(one, per)
				// at most 16 datagrams: the record numbers must stay within the replay window of the genuine ones
				for copies, dg := 0, 0; copies < 1150 && dg < 16; copies, dg = copies+per, dg+1 {
					seq++
					out = append(out, vfHostile{Data: vfLegacyRecord(22, rc.Version, 0, seq, nil, -1, body), Class: "benign", Note: fmt.Sprintf("%d copies of one fragment", per)})
				}

				break
			}
		}
	}

	return out
}

// vfGenTruncatedMessages: for every whole plaintext handshake message of the datagram d, the same message cut
// at every length with consistent length fields (well framed, short body), under fresh record sequence numbers.
func vfGenTruncatedMessages(d []byte, cidLen int, step int) []vfHostile {
	var out []vfHostile
	recs, ok := vfParseDatagram(d, cidLen)
	if !ok {
		return nil
	}
	seq := uint64(0)
	for _, rc := range recs {
		if !rc.Unified && rc.Epoch == 0 && rc.Seq > seq {
			seq = rc.Seq
		}
	}
	seq += 20 // just above the genuine numbers (see vfGenFreshDuplicates); one truncation is used per case
	for _, rc := range recs {
		if rc.Unified || rc.Type != 22 || rc.Epoch != 0 {
			continue
		}
		body := rc.Body
		for len(body) > 0 {
			h, rest, ok := vfParseHS(body)
			if !ok {
				break
			}
			body = rest
			if h.FragOff != 0 || h.FragLen != h.Length {
				continue
			}
			st := 1
			if len(h.Body) > 200 {
				st = step
			}
			for k := 0; k < len(h.Body); k += st {
				frag := vfHSFragment(h.Type, uint32(k), h.MsgSeq, 0, uint32(k), h.Body[:k])
				out = append(out, vfHostile{Data: vfLegacyRecord(22, rc.Version, 0, seq, nil, -1, frag), Class: "plaintext", Note: fmt.Sprintf("truncated %s to %d of %d", vfHSName(h.Type), k, len(h.Body))})
			}
		}
	}

	return out
}

// vfClassify fills in "?" classes: unparseable per the library's own functions, protected-only
// datagrams (every record non-zero epoch / unified, none of type change_cipher_spec) as failedauth
// (the caller guarantees they are not authentic), everything else plaintext.
func vfAllEpoch0NonHandshake(recs []vfRec) bool {
	for _, rc := range recs {
		if rc.Unified || rc.Epoch != 0 || rc.Type == 22 || rc.Type == 20 {
			return false
		}
	}

	return true
}

func vfClassify(hs []vfHostile, is13 bool, cidLen int) {
	for i := range hs {
		if hs[i].Class != "?" {
			continue
		}
		if vfLibUnparseable(hs[i].Data, is13, cidLen) {
			hs[i].Class = "unparseable"

			continue
		}
		recs, ok := vfParseDatagram(hs[i].Data, cidLen)
		prot := ok && len(recs) > 0
		for _, rc := range recs {
			if rc.Unified {
				continue
			}
			if rc.Epoch == 0 || rc.Type == 20 {
				prot = false
			}
		}
		switch {
		case prot:
			hs[i].Class = "failedauth"
		case ok && len(recs) > 0 && vfAllEpoch0NonHandshake(recs):
			// unprotected alerts, application data, ACKs, unknown types: nothing authenticates them. If their content
			// does not even decode they are invalid records (class unparseable-content, discardable in every state);
			// well-formed ones are discardable once the association is protected (established connections), while
			// during the handshake a plaintext alert may legitimately end it.
			hs[i].Class = "plaintext-nonhandshake"
			for _, rc := range recs {
				if (&recordlayer.RecordLayer{}).Unmarshal(rc.Raw) != nil {
					hs[i].Class = "unparseable-content"
				}
			}
		default:
			hs[i].Class = "plaintext"
		}
	}
}

// ---------------------------------------------------------------------------------------------
// Keyed attacker: seals arbitrary content as if it came from `from` (reference crypto, real keys).

type vfToolkit struct {
	is13  bool
	s12   ref.Suite12
	k12   map[string]ref.Keys12 // by sender name
	s13   ref.Suite13
	sec13 map[string][]byte // current application traffic secret by sender
	ep13  map[string]uint16
	cid   map[string][]byte // CID to put on records sent by name
	conns map[string]*Conn
	// padLen: CBC padding length byte of sealed records (-1: minimal, as the library itself pads)
	padLen int
}

func vfNewToolkit(p *vfPair) (*vfToolkit, error) {
	t := &vfToolkit{padLen: -1, k12: map[string]ref.Keys12{}, sec13: map[string][]byte{}, ep13: map[string]uint16{}, cid: map[string][]byte{},
		conns: map[string]*Conn{"c": p.C.Conn, "s": p.S.Conn}}
	t.cid["c"] = vfCommon(p.S.Conn).LocalConnectionID()
	t.cid["s"] = vfCommon(p.C.Conn).LocalConnectionID()
	if vfIs13(p.C.Conn) {
		t.is13 = true
		st, err := dtlsstate.As13(p.C.Conn.state)
		if err != nil {
			return nil, err
		}
		t.s13 = ref.Suites13()[uint16(st.CipherSuite.ID())]
		for _, side := range []*vfSide{p.C, p.S} {
			s13, _ := dtlsstate.As13(side.Conn.state)
			g, ok := s13.TrafficKeys.Clone().CurrentWrite()
			if !ok {
				return nil, fmt.Errorf("no write generation")
			}
			t.sec13[side.Name] = g.Secret
			t.ep13[side.Name] = g.Epoch
		}

		return t, nil
	}
	st, err := dtlsstate.As12(p.C.Conn.state)
	if err != nil {
		return nil, err
	}
	var ok bool
	if t.s12, ok = ref.Suites12()[uint16(st.CipherSuite.ID())]; !ok {
		return nil, fmt.Errorf("no reference suite")
	}
	cr := st.LocalRandom.MarshalFixed()
	sr := st.RemoteRandom.MarshalFixed()
	kc, ks := ref.KeyBlock12(t.s12, st.MasterSecret, cr[:], sr[:])
	t.k12["c"], t.k12["s"] = kc, ks

	return t, nil
}

// reserve takes n fresh sequence numbers of the sender's current epoch so that forged records
// neither collide with nor overtake genuine ones.
func (t *vfToolkit) reserve(from string, n int) (epoch uint16, first uint64) {
	c := t.conns[from]
	cm := vfCommon(c)
	c.lock.Lock()
	defer c.lock.Unlock()
	epoch = cm.LocalEpoch()
	for len(cm.LocalSequenceNumber) <= int(epoch) {
		cm.LocalSequenceNumber = append(cm.LocalSequenceNumber, 0)
	}
	first = atomic.AddUint64(&cm.LocalSequenceNumber[epoch], uint64(n)) - uint64(n)

	return epoch, first
}

// Seal builds an authentic record from `from` carrying content of the given real type.
func (t *vfToolkit) Seal(from string, epoch uint16, seq uint64, ct uint8, content []byte, nonceSeed uint64) ([]byte, error) {
	if t.is13 {
		tk := ref.TrafficKeys13(t.s13, ref.DTLS13Prefix, t.sec13[from])
		cid := t.cid[from]
		hdr := []byte{0x20 | 0x08 | 0x04 | byte(epoch&3)}
		if len(cid) > 0 {
			hdr[0] |= 0x10
			hdr = append(hdr, cid...)
		}
		off := len(hdr)
		hdr = binary.BigEndian.AppendUint16(hdr, uint16(seq))
		hdr = binary.BigEndian.AppendUint16(hdr, uint16(len(content)+1+16))

		return ref.Seal13(t.s13, tk, hdr, off, 2, seq, content, ct, 0)
	}
	r := ref.Rec12{Type: ct, Version: [2]byte{0xfe, 0xfd}, Epoch: epoch, Seq: seq}
	plain := content
	if cid := t.cid[from]; len(cid) > 0 {
		r.Type, r.CID = 25, cid
		plain = append(append([]byte{}, content...), ct)
	}
	var explicit []byte
	switch t.s12.Kind {
	case "gcm", "ccm":
		explicit = binary.BigEndian.AppendUint64(nil, nonceSeed)
	case "cbc":
		explicit = append(binary.BigEndian.AppendUint64(nil, nonceSeed), binary.BigEndian.AppendUint64(nil, ^nonceSeed)...)
	}

	return ref.Seal12(t.s12, t.k12[from], r, plain, explicit, t.padLen)
}

// SealRawCBC encrypts a chosen plaintext (no MAC) under the sender's CBC key.
func (t *vfToolkit) SealRawCBC(from string, epoch uint16, seq uint64, ct uint8, plain []byte) ([]byte, error) {
	if t.is13 || t.s12.Kind != "cbc" || len(plain)%16 != 0 {
		return nil, fmt.Errorf("not cbc")
	}
	b, err := aes.NewCipher(t.k12[from].Key)
	if err != nil {
		return nil, err
	}
	iv := bytes.Repeat([]byte{0x42}, 16)
	enc := make([]byte, len(plain))
	cipher.NewCBCEncrypter(b, iv).CryptBlocks(enc, plain)
	body := append(iv, enc...)
	cid := t.cid[from]
	if len(cid) > 0 {
		ct = 25
	} else {
		cid = nil
	}

	return vfLegacyRecord(ct, 0xfefd, epoch, seq, cid, -1, body), nil
}

// vfGenAuthMalformed: correctly protected records with malformed content, from `from`.
// vfGenAuthNewMessages: complete handshake messages under the session's own keys, numbered from the receiver's next expected
// message number on, each in fragments of 1000 bytes, `total` bytes altogether.
func vfGenAuthNewMessages(r *rand.Rand, t *vfToolkit, from string, nextSeq uint16, total int, tickets bool) []vfHostile {
	var out []vfHostile
	const msgLen, fragLen = 8000, 1000
	nmsg := total / msgLen
	epoch, first := t.reserve(from, nmsg*(msgLen/fragLen)+8)
	seq := first
	for m := 0; m < nmsg; m++ {
		typ := uint8([]int{0, 4, 11, 20, 24}[r.IntN(5)])
		body := vfRandBytes(r, msgLen)
		if tickets {
			// lifetime, age_add, nonce<8>, ticket, no extensions
			typ = 4
			tl := msgLen - 4 - 4 - 1 - 8 - 2 - 2
			copy(body, []byte{0, 0, 0x0e, 0x10})
			body[8] = 8
			body[17], body[18] = byte(tl>>8), byte(tl)
			body[msgLen-2], body[msgLen-1] = 0, 0
		}
		for off := 0; off < msgLen; off += fragLen {
			b, err := t.Seal(from, epoch, seq, 22, vfHSFragment(typ, msgLen, nextSeq+uint16(m), uint32(off), fragLen, body[off:off+fragLen]), r.Uint64())
			seq++
			if err == nil {
				out = append(out, vfHostile{Data: b, Class: "authmalformed", Note: "complete handshake message after the handshake"})
			}
		}
	}

	return out
}

func vfGenAuthMalformed(r *rand.Rand, t *vfToolkit, from string, n int) []vfHostile {
	var out []vfHostile
	epoch, first := t.reserve(from, n+8)
	seq := first
	add := func(ct uint8, content []byte, note string) {
		b, err := t.Seal(from, epoch, seq, ct, content, r.Uint64())
		seq++
		if err == nil {
			out = append(out, vfHostile{Data: b, Class: "authmalformed", Note: note})
		}
	}
	for len(out) < n && seq < first+uint64(n) {
		switch r.IntN(16) {
		case 0:
			add(22, vfRandBytes(r, r.IntN(30)), "handshake garbage")
		case 1:
			add(22, vfHSFragment(uint8(r.IntN(26)), 1<<24-1, uint16(r.IntN(8)), uint32(r.IntN(1<<24)), 0, nil), "huge-length fragment")
		case 2:
			add(22, vfHSFragment(20, 0, uint16(r.IntN(12)), uint32(1+r.IntN(9)), 0, nil), "zero-length fragment of empty message at offset")
		case 3:
			add(21, vfRandBytes(r, []int{0, 1, 3}[r.IntN(3)]), "alert wrong size")
		case 4:
			add(21, []byte{byte(r.IntN(256)), byte(1 + r.IntN(120))}, "alert odd level") // never close_notify(0)
		case 5:
			add(uint8([]int{0, 19, 24, 28, 99, 255}[r.IntN(6)]), vfRandBytes(r, r.IntN(20)), "unknown content type")
		case 6:
			add(23, nil, "empty application data")
		case 7:
			add(20, vfRandBytes(r, r.IntN(4)), "ccs garbage")
		case 8:
			add(26, vfRandBytes(r, r.IntN(40)), "ack garbage")
		case 9:
			add(22, vfHSFragment(24, 1, uint16(r.IntN(6)), 0, 1, []byte{byte(2 + r.IntN(250))}), "keyupdate illegal value")
		case 10:
			add(27, vfRandBytes(r, r.IntN(20)), "rrc garbage")
		case 11:
			add(22, vfHSFragment(uint8([]int{0, 1, 2, 4, 10, 25}[r.IntN(6)]), 4, uint16(r.IntN(6)), 0, 4, vfRandBytes(r, 4)), "unexpected handshake message")
		case 12:
			add(22, vfHSFragment(16, 2, uint16(r.IntN(6)), 0, 2, []byte{0, 0}), "short ClientKeyExchange")
		case 13:
			add(23, vfRandBytes(r, 9000), "oversize application data")
		case 14:
			add(22, vfHSFragment(4, 300, uint16(r.IntN(6)), 0, 300, vfRandBytes(r, 300)), "ticket garbage")
		default:
			if !t.is13 && t.s12.Kind == "cbc" {
				p := []int{31, 47, 63, 255}[r.IntN(4)]
				b, err := t.SealRawCBC(from, epoch, seq, 23, bytes.Repeat([]byte{byte(p)}, p+1))
				seq++
				if err == nil {
					out = append(out, vfHostile{Data: b, Class: "authmalformed", Note: fmt.Sprintf("cbc record that is all padding (%d)", p)})
				}
			} else {
				add(23, vfRandBytes(r, 1+r.IntN(50)), "valid application data (control)")
			}
		}
	}

	return out
}
