//go:build verif

package dtls

// C11 Negotiation honours both endpoints' policy. Generated option-set pairs biased towards
// near-empty intersections; every negotiated value is read back from the captured messages
// (ClientHello, ServerHello, ServerKeyExchange / key_share, CertificateVerify, EncryptedExtensions)
// and judged by an independent policy model.

import (
	"crypto/ecdsa"
	"crypto/ed25519"
	"crypto/rsa"
	"crypto/tls"
	"crypto/x509"
	"encoding/binary"
	"fmt"
	"math/rand/v2"
	"slices"
	"strings"

	dtlsstate "github.com/pion/dtls/v3/internal/state"
	"testing"
	"testing/synctest"
	"time"

	"github.com/pion/dtls/v3/pkg/crypto/elliptic"
	"github.com/pion/dtls/v3/pkg/protocol"
)

type vfPolicySide struct {
	MinV, MaxV int // 12 or 13
	Suites     []CipherSuiteID
	Curves     []elliptic.Curve
	SigSchemes []tls.SignatureScheme // nil = default
	EMS        ExtendedMasterSecretType
	SRTP       []SRTPProtectionProfile
	ALPN       []string
	CID        int
}

type vfPolicyCase struct {
	C, S    vfPolicySide
	KeyKind string // ecdsa | rsa | ed25519 | psk
	Idx     int
}

func (p vfPolicyCase) ID() string {
	f := func(s vfPolicySide) string {
		return fmt.Sprintf("v%d-%d/su%x/cv%v/sg%x/ems%d/srtp%v/alpn%v/cid%d", s.MinV, s.MaxV, s.Suites, s.Curves, s.SigSchemes, s.EMS, s.SRTP, s.ALPN, s.CID)
	}

	prov := ""
	if p.KeyKind != "psk" && p.Idx%3 == 2 {
		prov = "(cert via callback)"
	}

	return p.KeyKind + prov + "|C:" + f(p.C) + "|S:" + f(p.S)
}

func vfSubset[T any](r *rand.Rand, all []T, minN int) []T {
	idx := r.Perm(len(all))
	n := minN + r.IntN(len(all)-minN+1)
	out := make([]T, 0, n)
	for _, i := range idx[:n] {
		out = append(out, all[i])
	}

	return out
}

// vfRelated draws two lists from all with the given relation.
func vfRelated[T comparable](r *rand.Rand, all []T) (a, b []T) {
	switch r.IntN(10) {
	case 0, 1: // disjoint
		idx := r.Perm(len(all))
		k := 1 + r.IntN(len(all)-1)
		for _, i := range idx[:k] {
			a = append(a, all[i])
		}
		for _, i := range idx[k:] {
			b = append(b, all[i])
		}
		if len(b) == 0 {
			b = a
		}
	case 2, 3, 4: // overlapping in exactly one element, different order
		idx := r.Perm(len(all))
		common := all[idx[0]]
		rest := idx[1:]
		k := r.IntN(len(rest) + 1)
		for _, i := range rest[:k] {
			a = append(a, all[i])
		}
		for _, i := range rest[k:] {
			b = append(b, all[i])
		}
		a = append(a, common)
		b = append([]T{common}, b...)
		r.Shuffle(len(a), func(i, j int) { a[i], a[j] = a[j], a[i] })
	default:
		a = vfSubset(r, all, 1)
		b = vfSubset(r, all, 1)
	}

	return a, b
}

var (
	vfECDSASuites = []CipherSuiteID{TLS_ECDHE_ECDSA_WITH_AES_128_CCM, TLS_ECDHE_ECDSA_WITH_AES_128_CCM_8, TLS_ECDHE_ECDSA_WITH_AES_128_GCM_SHA256,
		TLS_ECDHE_ECDSA_WITH_AES_256_GCM_SHA384, TLS_ECDHE_ECDSA_WITH_AES_256_CBC_SHA, TLS_ECDHE_ECDSA_WITH_CHACHA20_POLY1305_SHA256}
	vfRSASuites = []CipherSuiteID{TLS_ECDHE_RSA_WITH_AES_128_GCM_SHA256, TLS_ECDHE_RSA_WITH_AES_256_GCM_SHA384, TLS_ECDHE_RSA_WITH_AES_256_CBC_SHA,
		TLS_ECDHE_RSA_WITH_CHACHA20_POLY1305_SHA256}
	vfPSKSuites = []CipherSuiteID{TLS_PSK_WITH_AES_128_CCM, TLS_PSK_WITH_AES_128_CCM_8, TLS_PSK_WITH_AES_256_CCM_8, TLS_PSK_WITH_AES_128_GCM_SHA256,
		TLS_PSK_WITH_AES_128_CBC_SHA256, TLS_PSK_WITH_CHACHA20_POLY1305_SHA256, TLS_ECDHE_PSK_WITH_AES_128_CBC_SHA256}
	vf13Suites = []CipherSuiteID{TLS_AES_128_GCM_SHA256, TLS_AES_256_GCM_SHA384, TLS_CHACHA20_POLY1305_SHA256}
)

func vfSuiteKind(id CipherSuiteID) string {
	switch {
	case slices.Contains(vfECDSASuites, id):
		return "ecdsa"
	case slices.Contains(vfRSASuites, id):
		return "rsa"
	case slices.Contains(vfPSKSuites, id):
		return "psk"
	case slices.Contains(vf13Suites, id):
		return "tls13"
	}

	return "?"
}

func vfGenPolicyCase(r *rand.Rand, idx int) vfPolicyCase {
	pc := vfPolicyCase{KeyKind: []string{"ecdsa", "ecdsa", "rsa", "ed25519", "psk"}[idx%5], Idx: idx}
	ranges := [][2]int{{12, 12}, {13, 13}, {12, 13}}
	cr, sr := ranges[r.IntN(3)], ranges[r.IntN(3)]
	if pc.KeyKind == "psk" {
		cr, sr = ranges[0], ranges[0]
	}
	if pc.KeyKind == "rsa" && cr[1] == 13 && sr[1] == 13 {
		// RSA certificates are unusable with this tree's DTLS 1.3 (no RSA-PSS): keep the common maximum at 1.2
		sr = ranges[0]
	}
	pc.C.MinV, pc.C.MaxV, pc.S.MinV, pc.S.MaxV = cr[0], cr[1], sr[0], sr[1]
	var pool12 []CipherSuiteID
	if pc.KeyKind == "psk" {
		pool12 = vfPSKSuites
	} else {
		pool12 = append(append([]CipherSuiteID{}, vfECDSASuites...), vfRSASuites...)
	}
	c12, s12 := vfRelated(r, pool12)
	c13, s13 := vfRelated(r, vf13Suites)
	mk := func(minV, maxV int, l12, l13 []CipherSuiteID) []CipherSuiteID {
		var out []CipherSuiteID
		if maxV == 13 {
			out = append(out, l13...)
		}
		if minV == 12 {
			out = append(out, l12...)
		}

		return out
	}
	pc.C.Suites, pc.S.Suites = mk(cr[0], cr[1], c12, c13), mk(sr[0], sr[1], s12, s13)
	pc.C.Curves, pc.S.Curves = vfRelated(r, []elliptic.Curve{elliptic.X25519, elliptic.P256, elliptic.P384})
	if r.IntN(3) == 0 {
		pc.C.Curves, pc.S.Curves = nil, nil
	}
	switch r.IntN(6) {
	case 0:
		pc.C.SigSchemes = []tls.SignatureScheme{tls.ECDSAWithP256AndSHA256}
	case 1:
		pc.C.SigSchemes = []tls.SignatureScheme{tls.ECDSAWithP384AndSHA384, tls.PKCS1WithSHA384}
	case 2:
		pc.C.SigSchemes = []tls.SignatureScheme{tls.Ed25519, tls.PKCS1WithSHA256}
	}
	switch r.IntN(8) {
	case 0:
		pc.S.SigSchemes = []tls.SignatureScheme{tls.ECDSAWithP256AndSHA256, tls.PKCS1WithSHA256, tls.Ed25519}
	case 1:
		pc.S.SigSchemes = []tls.SignatureScheme{tls.ECDSAWithP384AndSHA384}
	}
	ems := []ExtendedMasterSecretType{RequestExtendedMasterSecret, RequireExtendedMasterSecret, DisableExtendedMasterSecret}
	pc.C.EMS, pc.S.EMS = ems[r.IntN(3)], ems[r.IntN(3)]
	profiles := []SRTPProtectionProfile{SRTP_AES128_CM_HMAC_SHA1_80, SRTP_AES128_CM_HMAC_SHA1_32, SRTP_AEAD_AES_128_GCM, SRTP_AEAD_AES_256_GCM}
	if r.IntN(2) == 0 {
		pc.C.SRTP, pc.S.SRTP = vfRelated(r, profiles)
		if r.IntN(5) == 0 {
			pc.S.SRTP = nil
		}
		if r.IntN(7) == 0 {
			pc.C.SRTP = nil
		}
	}
	if r.IntN(2) == 0 {
		pc.C.ALPN, pc.S.ALPN = vfRelated(r, []string{"h3", "webrtc", "coap", "x"})
		if r.IntN(5) == 0 {
			pc.S.ALPN = nil
		}
	}
	pc.C.CID, pc.S.CID = []int{-1, -1, 0, 4}[r.IntN(4)], []int{-1, -1, 0, 8}[r.IntN(4)]

	return pc
}

func vfPolicyOptions(pc vfPolicyCase) ([]ClientOption, []ServerOption) {
	pki := vfGetPKI()
	side := func(s vfPolicySide) []Option {
		var o []Option
		ver := func(v int) protocol.Version {
			if v == 13 {
				return protocol.Version1_3
			}

			return protocol.Version1_2
		}
		o = append(o, WithMinVersion(ver(s.MinV)), WithMaxVersion(ver(s.MaxV)), WithCipherSuites(s.Suites...), WithExtendedMasterSecret(s.EMS))
		if s.Curves != nil {
			o = append(o, WithEllipticCurves(s.Curves...))
		}
		if s.SigSchemes != nil {
			o = append(o, WithSignatureSchemes(s.SigSchemes...))
		}
		if s.SRTP != nil {
			o = append(o, WithSRTPProtectionProfiles(s.SRTP...))
		}
		if s.ALPN != nil {
			o = append(o, WithSupportedProtocols(s.ALPN...))
		}
		if s.CID >= 0 {
			o = append(o, WithConnectionIDGenerator(vfCIDGen(s.CID)))
		}

		return o
	}
	cO, sO := side(pc.C), side(pc.S)
	if pc.KeyKind == "psk" {
		psk := func([]byte) ([]byte, error) { return vfPSKKey, nil }
		cO = append(cO, WithPSK(psk), WithPSKIdentityHint([]byte("id")))
		sO = append(sO, WithPSK(psk), WithPSKIdentityHint([]byte("hint")))
	} else {
		cO = append(cO, WithRootCAs(pki.Pool), WithServerName(vfServerName))
	}
	so := vfSO(sO...)
	if pc.KeyKind != "psk" {
		// the credential comes from a static list or, for every third case, only from the per-hello callback:
		// the key type must constrain the suite choice either way
		leaf := pki.Leaf(pc.KeyKind, "server")
		if pc.Idx%3 == 2 {
			so = append(so, WithGetCertificate(func(*ClientHelloInfo) (*tls.Certificate, error) { return &leaf, nil }))
		} else {
			so = append(so, WithCertificates(leaf))
		}
	}
	so = append(so, WithInsecureSkipVerifyHello(true))

	return vfCO(cO...), so
}

type vfPolicyVerdict struct {
	Compatible bool
	Why        string // first mandatory dimension with an empty intersection
	Version    int
	Suites     []CipherSuiteID
}

func vfSchemeFitsKey(s tls.SignatureScheme, kind string) bool {
	switch kind {
	case "ecdsa":
		return s == tls.ECDSAWithP256AndSHA256 || s == tls.ECDSAWithP384AndSHA384 || s == tls.ECDSAWithP521AndSHA512
	case "rsa":
		return s == tls.PKCS1WithSHA256 || s == tls.PKCS1WithSHA384 || s == tls.PKCS1WithSHA512 || s == tls.PSSWithSHA256 || s == tls.PSSWithSHA384 || s == tls.PSSWithSHA512
	case "ed25519":
		return s == tls.Ed25519
	}

	return true
}

// vfPolicyModel: the independent model of what may be negotiated.
func vfPolicyModel(pc vfPolicyCase) vfPolicyVerdict {
	v := vfPolicyVerdict{Compatible: true}
	lo, hi := max(pc.C.MinV, pc.S.MinV), min(pc.C.MaxV, pc.S.MaxV)
	if lo > hi {
		return vfPolicyVerdict{Why: "version"}
	}
	v.Version = hi
	for _, s := range pc.C.Suites {
		if !slices.Contains(pc.S.Suites, s) {
			continue
		}
		k := vfSuiteKind(s)
		switch {
		case v.Version == 13 && k == "tls13":
			v.Suites = append(v.Suites, s)
		case v.Version == 12 && k == "psk" && pc.KeyKind == "psk":
			v.Suites = append(v.Suites, s)
		case v.Version == 12 && k == "ecdsa" && (pc.KeyKind == "ecdsa" || pc.KeyKind == "ed25519"):
			v.Suites = append(v.Suites, s)
		case v.Version == 12 && k == "rsa" && pc.KeyKind == "rsa":
			v.Suites = append(v.Suites, s)
		}
	}
	if len(v.Suites) == 0 {
		return vfPolicyVerdict{Why: "cipher suite", Version: v.Version}
	}
	needsGroup := v.Version == 13
	for _, s := range v.Suites {
		if s != TLS_PSK_WITH_AES_128_CCM && s != TLS_PSK_WITH_AES_128_CCM_8 && s != TLS_PSK_WITH_AES_256_CCM_8 &&
			s != TLS_PSK_WITH_AES_128_GCM_SHA256 && s != TLS_PSK_WITH_AES_128_CBC_SHA256 && s != TLS_PSK_WITH_CHACHA20_POLY1305_SHA256 {
			needsGroup = true
		}
	}
	if needsGroup && pc.C.Curves != nil && pc.S.Curves != nil {
		common := false
		for _, c := range pc.C.Curves {
			if slices.Contains(pc.S.Curves, c) {
				common = true
			}
		}
		if !common {
			// only plain-PSK suites could still work
			onlyPSK := v.Version == 12
			for _, s := range v.Suites {
				if vfSuiteKind(s) != "psk" || s == TLS_ECDHE_PSK_WITH_AES_128_CBC_SHA256 {
					onlyPSK = false
				}
			}
			if !onlyPSK {
				hasPlainPSK := false
				for _, s := range v.Suites {
					if vfSuiteKind(s) == "psk" && s != TLS_ECDHE_PSK_WITH_AES_128_CBC_SHA256 {
						hasPlainPSK = true
					}
				}
				if !hasPlainPSK {
					return vfPolicyVerdict{Why: "group", Version: v.Version}
				}
			}
		}
	}
	if pc.KeyKind != "psk" {
		// the server signs with a scheme that fits its key and that every side which restricts schemes allows
		fits := func(s tls.SignatureScheme) bool {
			return vfSchemeFitsKey(s, pc.KeyKind) &&
				(pc.C.SigSchemes == nil || slices.Contains(pc.C.SigSchemes, s)) &&
				(pc.S.SigSchemes == nil || slices.Contains(pc.S.SigSchemes, s))
		}
		any := false
		for _, s := range []tls.SignatureScheme{tls.ECDSAWithP256AndSHA256, tls.ECDSAWithP384AndSHA384, tls.ECDSAWithP521AndSHA512, tls.Ed25519,
			tls.PKCS1WithSHA256, tls.PKCS1WithSHA384, tls.PKCS1WithSHA512, tls.PSSWithSHA256, tls.PSSWithSHA384, tls.PSSWithSHA512} {
			if fits(s) {
				any = true
			}
		}
		if !any {
			return vfPolicyVerdict{Why: "signature scheme", Version: v.Version}
		}
		// the harness CA signs every leaf with ECDSA P-256/SHA-256: a client that restricts schemes must allow it for the chain
		if pc.C.SigSchemes != nil && !slices.Contains(pc.C.SigSchemes, tls.ECDSAWithP256AndSHA256) {
			return vfPolicyVerdict{Why: "signature scheme", Version: v.Version}
		}
	}
	if v.Version == 12 {
		if (pc.C.EMS == RequireExtendedMasterSecret && pc.S.EMS == DisableExtendedMasterSecret) ||
			(pc.S.EMS == RequireExtendedMasterSecret && pc.C.EMS == DisableExtendedMasterSecret) {
			return vfPolicyVerdict{Why: "extended master secret", Version: 12}
		}
	}

	return v
}

type vfNegObserved struct {
	Version             int
	Suite               CipherSuiteID
	Group               uint16
	SigScheme           uint16
	HasSig              bool
	EMS                 bool
	SRTP                uint16
	ALPN                string
	CHExts              map[uint16]bool
	SHExts              []uint16
	EEExts              []uint16
	CHSuites            []uint16
	AlertsSeen          int
	AlertsLegacyEpochN  int
	ProtectedAlertSized int
}

func vfObserveNegotiation(p *vfPair) (o vfNegObserved, ok bool) {
	o.CHExts = map[uint16]bool{}
	for _, w := range p.Net.Emissions("") {
		recs, _ := vfParseDatagram(w.Data, 0)
		for _, rc := range recs {
			switch {
			case !rc.Unified && rc.Type == 21 && rc.Epoch == 0:
				o.AlertsSeen++
			case !rc.Unified && rc.Type == 21:
				// DTLS 1.2: an alert after ChangeCipherSpec is encrypted under a legacy header (valid).
				// DTLS 1.3 has no legacy-header records above epoch 0; vfValidAlerts discounts these there.
				o.AlertsLegacyEpochN++
			case rc.Unified && len(rc.Body) == 19:
				// level+description+inner type+16-byte tag: the size of a protected alert (or an empty ACK)
				o.ProtectedAlertSized++
			}
		}
	}
	var ch, sh []byte
	for _, it := range p.S.Conn.handshakeCache.VFItems() {
		if it.IsClient && it.Typ == 1 && len(it.Data) > 12 {
			ch = it.Data[12:] // last one wins
		}
	}
	for _, it := range p.C.Conn.handshakeCache.VFItems() {
		if it.IsClient || len(it.Data) <= 12 {
			continue
		}
		body := it.Data[12:]
		switch it.Typ {
		case 2:
			if len(body) >= 34 && vfHex(body[2:34]) != "cf21ad74e59a6111be1d8c021e65b891c2a211167abb8c5e079e09e2c8a8339c" {
				sh = body
			}
		case 12: // ServerKeyExchange
			b := body
			if len(b) >= 2 && (vfSuiteKindOfConn(p) == "psk") {
				hl := int(binary.BigEndian.Uint16(b))
				if 2+hl <= len(b) {
					b = b[2+hl:]
				}
			}
			if len(b) >= 4 && b[0] == 3 {
				o.Group = binary.BigEndian.Uint16(b[1:])
				kl := int(b[3])
				if 4+kl+2 <= len(b) {
					o.SigScheme = binary.BigEndian.Uint16(b[4+kl:])
					o.HasSig = true
				}
			}
		case 15:
			if len(body) >= 2 {
				o.SigScheme = binary.BigEndian.Uint16(body)
				o.HasSig = true
			}
		case 8:
			if h, okh := vfParseHello(append(make([]byte, 0), body...), false); okh {
				_ = h
			}
			// EncryptedExtensions: uint16 length + extensions
			if len(body) >= 2 {
				q := body[2:]
				for len(q) >= 4 {
					t := binary.BigEndian.Uint16(q)
					l := int(binary.BigEndian.Uint16(q[2:]))
					if 4+l > len(q) {
						break
					}
					o.EEExts = append(o.EEExts, t)
					if t == 14 && l >= 4 {
						o.SRTP = binary.BigEndian.Uint16(q[4+2:])
					}
					if t == 16 && l >= 3 {
						o.ALPN = string(q[4+3 : 4+l])
					}
					q = q[4+l:]
				}
			}
		}
	}
	if ch == nil || sh == nil {
		return o, false
	}
	chh, ok1 := vfParseHello(ch, true)
	shh, ok2 := vfParseHello(sh, false)
	if !ok1 || !ok2 {
		return o, false
	}
	for i := 0; i+1 < len(chh.Suites); i += 2 {
		o.CHSuites = append(o.CHSuites, binary.BigEndian.Uint16(chh.Suites[i:]))
	}
	for _, e := range chh.Exts {
		o.CHExts[e.Type] = true
	}
	o.Suite = CipherSuiteID(binary.BigEndian.Uint16(shh.Suites))
	o.Version = 12
	for _, e := range shh.Exts {
		o.SHExts = append(o.SHExts, e.Type)
		switch e.Type {
		case 43:
			if len(e.Data) == 2 && e.Data[1] == 0xfc {
				o.Version = 13
			}
		case 23:
			o.EMS = true
		case 14:
			if len(e.Data) >= 4 {
				o.SRTP = binary.BigEndian.Uint16(e.Data[2:])
			}
		case 16:
			if len(e.Data) >= 3 {
				o.ALPN = string(e.Data[3:])
			}
		case 51:
			if len(e.Data) >= 2 {
				o.Group = binary.BigEndian.Uint16(e.Data)
			}
		}
	}

	return o, true
}

// vfValidAlerts counts the wire records that can be an alert in a form the negotiated version allows.
func vfValidAlerts(o vfNegObserved, version int) int {
	if version == 13 {
		return o.AlertsSeen + o.ProtectedAlertSized
	}

	return o.AlertsSeen + o.AlertsLegacyEpochN
}

func vfSuiteKindOfConn(p *vfPair) string {
	if cs := vfCommon(p.C.Conn).CipherSuite; cs != nil {
		return vfSuiteKind(cs.ID())
	}

	return "?"
}

// vfServerUsable: the server's own list contains a suite that fits its own key and version range
// (otherwise its HandshakeContext fails locally before any message and nothing is negotiated).
func vfServerUsable(pc vfPolicyCase) bool {
	for _, s := range pc.S.Suites {
		k := vfSuiteKind(s)
		switch {
		case k == "tls13" && pc.S.MaxV == 13 && pc.KeyKind != "psk":
			return true
		case pc.S.MinV == 12 && k == "psk" && pc.KeyKind == "psk":
			return true
		case pc.S.MinV == 12 && k == "ecdsa" && (pc.KeyKind == "ecdsa" || pc.KeyKind == "ed25519"):
			return true
		case pc.S.MinV == 12 && k == "rsa" && pc.KeyKind == "rsa":
			return true
		}
	}

	return false
}

func vfC11Run(t *testing.T, res *vfResult, idx int) {
	r := vfRand("C11", idx)
	pc := vfGenPolicyCase(r, idx)
	if !vfServerUsable(pc) {
		res.Eval(1)
		res.Count("server_config_unusable_skipped", 1)

		return
	}
	model := vfPolicyModel(pc)
	co, so := vfPolicyOptions(pc)
	n := vfNewNet()
	p, err := vfNewPair(n, co, so)
	res.Eval(1)
	if err != nil {
		res.Count("config_rejected", 1)
		res.Seen("config_rejections", vfErrClass(err))

		return
	}
	cerr, serr := p.Handshake(40 * time.Second)
	completed := cerr == nil && serr == nil
	one := (cerr == nil) != (serr == nil)
	obs, okObs := vfObserveNegotiation(p)
	replay := map[string]any{"case": idx, "policy": pc.ID()}
	res.NonTrivial(pc.ID())
	dim := "compatible"
	if !model.Compatible {
		dim = "no-common-" + strings.ReplaceAll(model.Why, " ", "-")
	}
	res.Count("cases/"+dim, 1)
	switch {
	case completed && !model.Compatible:
		res.Violate("C11:completed-without-common-value:"+strings.ReplaceAll(model.Why, " ", "-"),
			fmt.Sprintf("both sides completed although the two policies have no common %s: %s", model.Why, pc.ID()), replay)
	case completed:
		res.Count("completed_compatible", 1)
		if !okObs {
			res.Count("negotiation_not_observable", 1)

			break
		}
		if obs.Version != model.Version {
			res.Violate(fmt.Sprintf("C11:version-not-highest-common:got%d-want%d", obs.Version, model.Version),
				fmt.Sprintf("negotiated DTLS 1.%d, highest version both allow is 1.%d: %s", obs.Version-10, model.Version-10, pc.ID()), replay)
		}
		if !slices.Contains(model.Suites, obs.Suite) {
			res.Violate("C11:suite-out-of-policy", fmt.Sprintf("negotiated suite %#04x is not in {client offer} ∩ {server list} ∩ {fits key %s, version}: allowed %x; %s",
				uint16(obs.Suite), pc.KeyKind, model.Suites, pc.ID()), replay)
		}
		if !slices.Contains(obs.CHSuites, uint16(obs.Suite)) {
			res.Violate("C11:suite-not-offered", fmt.Sprintf("server selected %#04x which the captured ClientHello does not offer: %s", uint16(obs.Suite), pc.ID()), replay)
		}
		if obs.Group != 0 {
			for sideName, list := range map[string][]elliptic.Curve{"client": pc.C.Curves, "server": pc.S.Curves} {
				if list != nil && !slices.Contains(list, elliptic.Curve(obs.Group)) {
					res.Violate("C11:group-out-of-policy:"+sideName, fmt.Sprintf("key exchange used group %d which the %s does not allow (%v): %s", obs.Group, sideName, list, pc.ID()), replay)
				}
			}
		}
		if obs.HasSig {
			for sideName, list := range map[string][]tls.SignatureScheme{"client": pc.C.SigSchemes, "server": pc.S.SigSchemes} {
				if list != nil && !slices.Contains(list, tls.SignatureScheme(obs.SigScheme)) {
					res.Violate("C11:signature-scheme-out-of-policy:"+sideName, fmt.Sprintf("server signed with scheme %#04x which the %s does not allow (%x): %s", obs.SigScheme, sideName, list, pc.ID()), replay)
				}
			}
		}
		if obs.Version == 12 && !obs.EMS && (pc.C.EMS == RequireExtendedMasterSecret || pc.S.EMS == RequireExtendedMasterSecret) {
			res.Violate("C11:completed-without-required-ems", "a side requires extended master secret and the handshake completed without it: "+pc.ID(), replay)
		}
		if obs.SRTP != 0 && (!slices.Contains(pc.C.SRTP, SRTPProtectionProfile(obs.SRTP)) || !slices.Contains(pc.S.SRTP, SRTPProtectionProfile(obs.SRTP))) {
			res.Violate("C11:srtp-out-of-policy", fmt.Sprintf("SRTP profile %d is not in both lists: %s", obs.SRTP, pc.ID()), replay)
		}
		if obs.ALPN != "" && (!slices.Contains(pc.C.ALPN, obs.ALPN) || !slices.Contains(pc.S.ALPN, obs.ALPN)) {
			res.Violate("C11:alpn-out-of-policy", fmt.Sprintf("ALPN %q is not in both lists: %s", obs.ALPN, pc.ID()), replay)
		}
		if cs, ok := p.C.Conn.SelectedSRTPProtectionProfile(); ok && uint16(cs) != obs.SRTP {
			res.Violate("C11:srtp-api-differs-from-wire", fmt.Sprintf("client API reports SRTP %d, wire says %d: %s", cs, obs.SRTP, pc.ID()), replay)
		}
		for _, e := range append(append([]uint16{}, obs.SHExts...), obs.EEExts...) {
			if !obs.CHExts[e] && !(e == 65281 && slices.Contains(obs.CHSuites, 0x00ff)) {
				res.Violate(fmt.Sprintf("C11:unsolicited-extension:%d", e), fmt.Sprintf("server answered with extension %d which the ClientHello did not offer: %s", e, pc.ID()), replay)
			}
		}
		res.Count("negotiations_checked", 1)
		res.Seen("negotiated_tuples", fmt.Sprintf("v%d/%04x/g%d/s%04x/ems%v/srtp%d/alpn%s", obs.Version, uint16(obs.Suite), obs.Group, obs.SigScheme, obs.EMS, obs.SRTP, obs.ALPN))
	case !model.Compatible:
		res.Count("refused_incompatible", 1)
		if one {
			res.Violate("C11:one-sided-completion:"+strings.ReplaceAll(model.Why, " ", "-"),
				fmt.Sprintf("no common %s, yet one side completed: client=%v server=%v; %s", model.Why, cerr, serr, pc.ID()), replay)
		} else if (vfErrNorm(cerr) == "deadline" || vfErrNorm(serr) == "deadline") && vfValidAlerts(obs, model.Version) > 0 {
			// an alert in a form valid for the version was emitted, yet a side waited out its deadline:
			// the alert was lost to the receiver's record checks (e.g. sent before the sender committed
			// the negotiated connection ID). Recorded, not judged: the statement asks for the alert.
			res.Count("refused_alert_sent_but_peer_waited", 1)
			res.Seen("alert_sent_but_peer_waited", fmt.Sprintf("%s:v%d:c=%s:s=%s", model.Why, model.Version, vfErrNorm(cerr), vfErrNorm(serr)))
		} else if vfErrNorm(cerr) == "deadline" || vfErrNorm(serr) == "deadline" {
			// one side detected the mismatch (or nobody did) and the other was left waiting until its deadline
			who := "client"
			if vfErrNorm(serr) == "deadline" {
				who = "server"
			}
			if vfErrNorm(cerr) == "deadline" && vfErrNorm(serr) == "deadline" {
				who = "both"
			}
			res.Violate(fmt.Sprintf("C11:failure-without-alert:%s:v%d:left-waiting=%s", strings.ReplaceAll(model.Why, " ", "-"), model.Version, who),
				fmt.Sprintf("no common %s: the handshake did not fail with an alert on both sides (client=%v, server=%v; alerts on the wire: epoch-0 plaintext %d, legacy-header epoch>0 %d, protected-alert-sized %d); %s",
					model.Why, vfErrClass(cerr), vfErrClass(serr), obs.AlertsSeen, obs.AlertsLegacyEpochN, obs.ProtectedAlertSized, pc.ID()), replay)
		} else {
			res.Count("refused_with_alert", 1)
		}
	default:
		res.Count("compatible_but_failed", 1)
		res.Seen("compatible_failures", fmt.Sprintf("%s: c=%s s=%s", pc.KeyKind, vfErrNorm(cerr), vfErrNorm(serr)))
		if res.Get("compatible_failure_samples") < 12 {
			res.Count("compatible_failure_samples", 1)
			res.Note(fmt.Sprintf("model says compatible but handshake failed (c=%s s=%s): %s", vfErrNorm(cerr), vfErrNorm(serr), pc.ID()))
		}
	}
	if res.Get("samples_taken") < 6 && completed {
		res.Count("samples_taken", 1)
		res.Sample(map[string]any{"policy": pc.ID(), "model": fmt.Sprintf("%+v", model), "observed": fmt.Sprintf("%+v", obs)})
	}
	p.Close()
	synctest.Wait()
}

// vfC11ResumedPolicy: the policy of the connection being made governs a resumed handshake too. A session is
// established under permissive settings; the next connection (same stores) tightens or drops extended master
// secret on one side, or narrows the suite list.
func vfC11ResumedPolicy(t *testing.T, res *vfResult, idx int) {
	type pol struct{ c, s ExtendedMasterSecretType }
	pols := []pol{
		{RequireExtendedMasterSecret, DisableExtendedMasterSecret}, {DisableExtendedMasterSecret, RequireExtendedMasterSecret},
		{RequireExtendedMasterSecret, RequestExtendedMasterSecret}, {RequestExtendedMasterSecret, RequireExtendedMasterSecret},
		{DisableExtendedMasterSecret, RequestExtendedMasterSecret}, {RequireExtendedMasterSecret, RequireExtendedMasterSecret},
	}
	firsts := []pol{{RequestExtendedMasterSecret, RequestExtendedMasterSecret}, {DisableExtendedMasterSecret, DisableExtendedMasterSecret}}
	bases := []vfCfg{vfBaseCfg(vfSuiteByName("PSK-GCM"), ""), vfBaseCfg(vfSuiteByName("ECDSA-GCM128"), "ecdsa")}
	second := pols[idx%len(pols)]
	first := firsts[(idx/len(pols))%len(firsts)]
	cfg := bases[(idx/(len(pols)*len(firsts)))%len(bases)]
	cfg.Store = true
	cS, sS := vfNewMemStore("c"), vfNewMemStore("s")
	res.Eval(1)
	c1 := cfg
	c1.EMSc, c1.EMSs = first.c, first.s
	co, so := c1.Options(cS, sS)
	p, err := vfNewPair(vfNewNet(), co, so)
	if err != nil {
		return
	}
	ce, se := p.Handshake(time.Minute)
	p.Close()
	synctest.Wait()
	if ce != nil || se != nil {
		res.Count("resumed_policy_first_failed", 1)

		return
	}
	c2 := cfg
	c2.EMSc, c2.EMSs = second.c, second.s
	co, so = c2.Options(cS, sS)
	n := vfNewNet()
	p, err = vfNewPair(n, co, so)
	if err != nil {
		return
	}
	ce, se = p.Handshake(time.Minute)
	id := fmt.Sprintf("resumed-policy|%s|first=ems%d%d|second=ems%d%d", cfg.Suite.Name, first.c, first.s, second.c, second.s)
	res.NonTrivial(id)
	res.Count("resumed_policy_cases", 1)
	abbreviated := true
	for _, w := range n.Emissions("s") {
		if strings.Contains(vfKind(w.Data), "ServerHelloDone") {
			abbreviated = false
		}
	}
	if ce == nil && se == nil {
		ems := func(c *Conn) bool {
			st, err := dtlsstate.As12(c.state)

			return err == nil && st.ExtendedMasterSecret
		}
		res.Seen("resumed_policy_outcomes", fmt.Sprintf("%s -> completed abbreviated=%v ems=%v/%v", id, abbreviated, ems(p.C.Conn), ems(p.S.Conn)))
		if (second.c == RequireExtendedMasterSecret && !ems(p.C.Conn)) || (second.s == RequireExtendedMasterSecret && !ems(p.S.Conn)) {
			res.Violate("C11:completed-without-required-ems:resumed", fmt.Sprintf("a side requires extended master secret and the (abbreviated=%v) handshake completed without it: %s", abbreviated, id),
				map[string]any{"resumed_policy": idx})
		}
		if ems(p.C.Conn) != ems(p.S.Conn) {
			res.Violate("C11:ems-disagreement:resumed", "the two sides disagree on extended master secret after a resumed handshake: "+id, map[string]any{"resumed_policy": idx})
		}
	} else {
		res.Seen("resumed_policy_outcomes", fmt.Sprintf("%s -> refused (%s / %s)", id, vfErrNorm(ce), vfErrNorm(se)))
	}
	p.Close()
	synctest.Wait()
}

// vfC11SNICertificate: the server holds certificates of two key types and picks one by the client's server name.
// Whichever it serves, the negotiated suite has to fit THAT key ("fits the server's key type"), or the handshake
// fails with an alert.
func vfC11SNICertificate(t *testing.T, res *vfResult, defaultKind string, suites []CipherSuiteID, tag string) {
	pki := vfGetPKI()
	res.Eval(1)
	otherKind := map[string]string{"ecdsa": "rsa", "rsa": "ecdsa"}[defaultKind]
	if strings.HasPrefix(tag, "ed25519-served") {
		otherKind = "ed25519" // an Ed25519 key fits the ECDSA suites only
	}
	other := pki.Leaf(otherKind, map[string]string{"rsa": "server-other", "ecdsa": "server-wrongname", "ed25519": "server-other"}[otherKind])
	cO := append(vfV12(), WithRootCAs(pki.Pool), WithServerName("other.example"))
	sO := append(vfV12(), WithCertificates(pki.Leaf(defaultKind, "server"), other))
	if suites != nil {
		cO, sO = append(cO, WithCipherSuites(suites...)), append(sO, WithCipherSuites(suites...))
	}
	n := vfNewNet()
	p, err := vfNewPair(n, vfCO(cO...), append(vfSO(sO...), WithInsecureSkipVerifyHello(true)))
	id := fmt.Sprintf("sni-certificate/default=%s/served=%s/%s", defaultKind, otherKind, tag)
	if err != nil {
		res.Count("config_rejected", 1)
		res.Seen("config_rejected_cases", id+": "+err.Error())

		return
	}
	cerr, serr := p.Handshake(30 * time.Second)
	res.NonTrivial(id)
	res.Count("sni_certificate_cases", 1)
	if cerr == nil && serr == nil {
		st, _ := p.C.Conn.ConnectionState()
		keyKind := "?"
		if len(st.PeerCertificates) > 0 {
			if c, err := x509.ParseCertificate(st.PeerCertificates[0]); err == nil {
				switch c.PublicKey.(type) {
				case *rsa.PublicKey:
					keyKind = "rsa"
				case *ecdsa.PublicKey, ed25519.PublicKey:
					keyKind = "ecdsa"
				}
			}
		}
		if sk := vfSuiteKind(st.CipherSuiteID); sk != keyKind {
			res.Violate("C11:suite-does-not-fit-served-certificate",
				fmt.Sprintf("%s: completed with suite %#04x (%s authentication) while the server authenticated with the %s certificate it selected for the client's server name",
					id, uint16(st.CipherSuiteID), sk, keyKind), map[string]any{"sni": id})
		} else {
			res.Count("sni_certificate_consistent", 1)
		}
	} else {
		res.Count("sni_certificate_refused", 1)
		o, _ := vfObserveNegotiation(p)
		if vfValidAlerts(o, 12) == 0 {
			res.Violate("C11:failure-without-alert:sni-certificate", fmt.Sprintf("%s: refused (client=%v server=%v) without any alert on the wire", id, cerr, serr), map[string]any{"sni": id})
		}
	}
	p.Close()
	synctest.Wait()
}

// vfC11ClientCertVerifyScheme: client authentication. The client's CertificateVerify must use a signature scheme of
// the client's own WithSignatureSchemes list (and of the server's CertificateRequest), or the handshake fails with
// an alert; it must not complete with a scheme the client's policy excludes.
func vfC11ClientCertVerifyScheme(t *testing.T, res *vfResult, ver string, clientSchemes []tls.SignatureScheme, tag string) {
	pki := vfGetPKI()
	res.Eval(1)
	var cO, sO []Option
	if ver == "13" {
		cO, sO = vfV13(), vfV13()
	} else {
		cO, sO = vfV12(), vfV12()
	}
	cO = append(cO, WithCertificates(pki.Leaf("ecdsa", "client")), WithInsecureSkipVerify(true), WithSignatureSchemes(clientSchemes...))
	// (DTLS 1.2: an RSA-keyed server, so that its own ServerKeyExchange signature, PKCS#1 SHA-256, is acceptable to the
	// client and the handshake reaches the client's CertificateVerify)
	serverKind := "ecdsa"
	if ver == "12" {
		serverKind = "rsa"
	}
	sO = append(sO, WithCertificates(pki.Leaf(serverKind, "server")))
	so := append(vfSO(sO...), WithClientAuth(RequireAnyClientCert), WithInsecureSkipVerifyHello(true))
	p, err := vfNewPair(vfNewNet(), vfCO(cO...), so)
	id := fmt.Sprintf("client-certificate-verify/v%s/%s", ver, tag)
	if err != nil {
		res.Count("config_rejected", 1)
		res.Seen("config_rejected_cases", id+": "+err.Error())

		return
	}
	cerr, serr := p.Handshake(30 * time.Second)
	res.NonTrivial(id)
	res.Count("client_certificate_verify_cases", 1)
	var used []uint16
	for _, it := range p.C.Conn.handshakeCache.VFItems() {
		if it.IsClient && it.Typ == 15 && len(it.Data) >= 14 {
			used = append(used, binary.BigEndian.Uint16(it.Data[12:14]))
		}
	}
	for _, u := range used {
		if !slices.Contains(clientSchemes, tls.SignatureScheme(u)) {
			res.Violate("C11:signature-scheme-out-of-policy:client-certificate-verify:v"+ver,
				fmt.Sprintf("%s: the client signed CertificateVerify with scheme %#04x, which its own signature-scheme list %x does not contain (client=%v server=%v)", id, u, clientSchemes, cerr, serr),
				map[string]any{"client_cv": id})
		} else {
			res.Count("client_certificate_verify_in_policy", 1)
		}
	}
	if len(used) == 0 {
		res.Count("client_certificate_verify_not_sent", 1)
		if cerr == nil && serr == nil {
			res.Violate("C11:completed-without-client-certificate-verify:v"+ver, id+": both sides completed although no CertificateVerify was sent", map[string]any{"client_cv": id})
		}
	}
	p.Close()
	synctest.Wait()
}

// vfC11RSAKeyUnder13: DTLS 1.3 on both sides and an RSA key on the side that has to sign. This tree cannot send an
// RSA-PSS CertificateVerify, so no usable signature scheme exists: the handshake has to fail on both sides with an
// alert, not on one side silently while the other runs into its timeout.
func vfC11RSAKeyUnder13(t *testing.T, res *vfResult, signer string) {
	pki := vfGetPKI()
	res.Eval(1)
	cO, sO := vfV13(), vfV13()
	so := vfSO(sO...)
	if signer == "server" {
		cO = append(cO, WithInsecureSkipVerify(true))
		so = append(so, vfSO(WithCertificates(pki.Leaf("rsa", "server")))...)
	} else {
		cO = append(cO, WithInsecureSkipVerify(true), WithCertificates(pki.Leaf("rsa", "client")))
		so = append(so, vfSO(WithCertificates(pki.Leaf("ecdsa", "server")))...)
		so = append(so, WithClientAuth(RequireAnyClientCert))
	}
	n := vfNewNet()
	p, err := vfNewPair(n, vfCO(cO...), so)
	id := "rsa-key-under-dtls13/" + signer
	if err != nil {
		res.Count("config_rejected", 1)
		res.Seen("config_rejected_cases", id+": "+err.Error())

		return
	}
	cerr, serr := p.Handshake(30 * time.Second)
	res.NonTrivial(id)
	res.Count("rsa_under_13_cases", 1)
	alerts := 0
	for _, w := range n.Emissions("") {
		if strings.Contains(vfDescribe(w.Data, 0), "Alert") || strings.Contains(vfDescribe(w.Data, 0), "T21") {
			alerts++
		}
	}
	res.Seen("rsa_under_13_outcomes", fmt.Sprintf("%s: client=%s server=%s", id, vfErrNorm(cerr), vfErrNorm(serr)))
	switch {
	case cerr == nil && serr == nil:
		res.Count("rsa_under_13_completed", 1) // a tree that can sign RSA-PSS
	case cerr == nil || serr == nil:
		res.Violate("C11:one-sided-completion:rsa-key-under-dtls13:"+signer, fmt.Sprintf("%s: client=%v server=%v", id, cerr, serr), map[string]any{"rsa13": signer})
	case vfErrNorm(cerr) == "deadline" || vfErrNorm(serr) == "deadline":
		res.Violate("C11:failure-without-alert:rsa-key-under-dtls13:"+signer,
			fmt.Sprintf("%s: no signature scheme is usable, one side gave up without telling the other, which waited for its timeout: client=%v server=%v (alert records seen on the wire: %d)", id, cerr, serr, alerts),
			map[string]any{"rsa13": signer})
	default:
		res.Count("rsa_under_13_failed_on_both_sides_with_alert", 1)
	}
	p.Close()
	synctest.Wait()
}

// vfC11RequireEMSOnResumption: a session made without extended master secret (both sides had it disabled) sits in both
// stores; then one side's policy becomes Require. "A side that requires extended master secret never completes without
// it": the abbreviated handshake would run on the old master secret, which was derived without it (RFC 7627 Section 5.3
// prescribes a full handshake or an abort).
func vfC11RequireEMSOnResumption(t *testing.T, res *vfResult, tightened string) {
	res.Eval(1)
	cS, sS := vfNewMemStore("c"), vfNewMemStore("s")
	first := vfC14Cfg("ecdsa", "same")
	first.EMSc, first.EMSs = DisableExtendedMasterSecret, DisableExtendedMasterSecret
	c1 := vfC14Connect(first, cS, sS, nil, false)
	id := "require-ems-on-resumption/" + tightened
	if !c1.CompletedBoth || len(vfC14ClientEntry(cS).ID) == 0 {
		res.Count("require_ems_resumption_setup_failed", 1)

		return
	}
	second := first
	second.EMSc, second.EMSs = RequestExtendedMasterSecret, RequestExtendedMasterSecret
	if tightened == "client" {
		second.EMSc = RequireExtendedMasterSecret
	} else {
		second.EMSs = RequireExtendedMasterSecret
	}
	c2 := vfC14Connect(second, cS, sS, nil, false)
	res.NonTrivial(id)
	res.Count("require_ems_resumption_cases", 1)
	abbreviated := c2.HasSH && !c2.HasSHD && !c2.HasCert
	res.Seen("require_ems_resumption_outcomes", fmt.Sprintf("%s: completed=%v abbreviated=%v", id, c2.CompletedBoth, abbreviated))
	if c2.CompletedBoth && abbreviated {
		res.Violate("C11:require-ems-completed-on-non-ems-session:"+tightened,
			fmt.Sprintf("%s: the %s requires extended master secret, yet both sides completed an abbreviated handshake on session %x, whose master secret was derived without it", id, tightened, c2.AnsweredSID),
			map[string]any{"require_ems": tightened})
	}
}

// vfC11DisjointALPNOnResumption: "the ... ALPN protocol come[s] from both lists. When no common value exists the handshake
// fails on both sides with an alert": also when the handshake is an abbreviated one. The stored session was made without
// ALPN; the second connection's lists have nothing in common (control: a full handshake with those lists).
func vfC11DisjointALPNOnResumption(t *testing.T, res *vfResult, resumed bool) {
	res.Eval(1)
	cS, sS := vfNewMemStore("c"), vfNewMemStore("s")
	first := vfC14Cfg("ecdsa", "same")
	id := fmt.Sprintf("disjoint-alpn/resumed=%v", resumed)
	if resumed {
		if c1 := vfC14Connect(first, cS, sS, nil, false); !c1.CompletedBoth || len(vfC14ClientEntry(cS).ID) == 0 {
			res.Count("disjoint_alpn_setup_failed", 1)

			return
		}
	}
	second := first
	second.ALPN = 4
	c2 := vfC14Connect(second, cS, sS, nil, false)
	res.NonTrivial(id)
	res.Count("disjoint_alpn_cases", 1)
	abbreviated := c2.HasSH && !c2.HasSHD && !c2.HasCert
	res.Seen("disjoint_alpn_outcomes", fmt.Sprintf("%s: completed=%v abbreviated=%v client=%s server=%s", id, c2.CompletedBoth, abbreviated, vfErrNorm(c2.CErr), vfErrNorm(c2.SErr)))
	switch {
	case c2.CErr == nil || c2.SErr == nil:
		res.Violate(fmt.Sprintf("C11:completed-without-common-alpn:resumed=%v", resumed),
			fmt.Sprintf("%s: the two ALPN lists have no protocol in common, yet the handshake (abbreviated: %v) completed: client=%v server=%v", id, abbreviated, c2.CErr, c2.SErr),
			map[string]any{"disjoint_alpn": resumed})
	case c2.AlertsC+c2.AlertsS == 0:
		res.Violate(fmt.Sprintf("C11:failure-without-alert:disjoint-alpn:resumed=%v", resumed), id+": refused without any alert on the wire", map[string]any{"disjoint_alpn": resumed})
	default:
		res.Count("disjoint_alpn_refused_with_alert", 1)
	}
}

// vfC11StrippedSupportedVersions: both endpoints allow DTLS 1.2 and 1.3 and the server verifies hellos. Somebody on the
// path removes supported_versions from the first, cookie-less ClientHello only. "The protocol version ... is the highest
// both allow": the handshake must not complete at DTLS 1.2.
func vfC11StrippedSupportedVersions(t *testing.T, res *vfResult, full bool) {
	res.Eval(1)
	cfg := vfBaseCfg(vfSuiteInfo{Name: "default", Auth: "ecdsa"}, "ecdsa")
	cfg.CVer, cfg.SVer, cfg.HelloVerify, cfg.Curves = "dual", "dual", true, 1
	if full {
		cfg.Verify, cfg.SRTP, cfg.CIDc, cfg.CIDs = true, 2, 4, 4
	}
	id := fmt.Sprintf("stripped-supported-versions/full-hello=%v", full)
	n := vfNewNet()
	co, so := cfg.Options(nil, nil)
	p, err := vfNewPair(n, co, so)
	if err != nil {
		res.Count("config_rejected", 1)

		return
	}
	stripped := 0
	n.SetOnSend(func(n *vfNet, w *vfWire) {
		if w.From != "c" || stripped > 0 {
			n.Deliver(w.Dst, w.Data, vfAddrOf(w.From))

			return
		}
		recs, ok := vfParseDatagram(w.Data, 0)
		var dg []byte
		for _, rc := range recs {
			h, rest, okh := vfParseHS(rc.Body)
			if !ok || rc.Unified || rc.Type != 22 || rc.Epoch != 0 || !okh || len(rest) != 0 || h.Type != 1 || h.FragOff != 0 || h.FragLen != h.Length {
				dg = append(dg, rc.Raw...)

				continue
			}
			hello, okp := vfParseHello(h.Body, true)
			if !okp {
				dg = append(dg, rc.Raw...)

				continue
			}
			var exts []vfExt
			for _, e := range hello.Exts {
				if e.Type != 43 {
					exts = append(exts, e)
				}
			}
			hello.Exts = exts
			body := hello.Marshal()
			dg = append(dg, vfLegacyRecord(22, rc.Version, 0, rc.Seq, nil, -1, vfHSFragment(1, uint32(len(body)), h.MsgSeq, 0, uint32(len(body)), body))...)
			stripped++
		}
		if !ok {
			dg = w.Data
		}
		n.Deliver(w.Dst, dg, vfAddrOf(w.From))
	})
	cerr, serr := p.Handshake(40 * time.Second)
	res.NonTrivial(id)
	res.Count("stripped_supported_versions_cases", 1)
	if stripped > 0 && cerr == nil && serr == nil && !vfIs13(p.C.Conn) {
		res.Violate("C11:version-below-highest-common:supported-versions-stripped-from-first-hello",
			id+": both endpoints allow DTLS 1.3, supported_versions was removed from the cookie-less ClientHello only, and both sides completed at DTLS 1.2", map[string]any{"stripped_sv": full})
	} else {
		res.Seen("stripped_supported_versions_outcomes", fmt.Sprintf("%s: stripped=%d client=%s server=%s", id, stripped, vfErrNorm(cerr), vfErrNorm(serr)))
	}
	n.SetOnSend(nil)
	p.Close()
	synctest.Wait()
}

func TestVF_C11(t *testing.T) {
	vfGetPKI()
	res := vfNewResult("C11", "generated pairs of option sets (version range x suite lists x curves x signature schemes x key type/PSK x EMS policy x "+
		"SRTP x ALPN x CID), each dimension drawn identical / overlapping in one value with different order / disjoint; negotiated values are read "+
		"from the captured ClientHello, ServerHello, ServerKeyExchange/key_share, CertificateVerify and EncryptedExtensions and judged by an "+
		"independent intersection model. Distinct = distinct option-set pairs")
	res.Assume("optional dimensions (SRTP, ALPN) with an empty intersection may fail or complete without a value (RFC 5764/7301 latitude)",
		"hello verification is off so that one ClientHello defines the offer; RSA keys are kept out of DTLS 1.3 (no RSA-PSS in this tree)")
	if vfEnv().Replay != "" {
		var rf struct {
			Replay struct {
				Case    int  `json:"case"`
				Resumed *int `json:"resumed_policy"`
			} `json:"replay"`
		}
		vfLoadReplay(t, &rf)
		vfDumpWire = true
		if rf.Replay.Resumed != nil {
			synctest.Test(t, func(t *testing.T) { vfC11ResumedPolicy(t, res, *rf.Replay.Resumed) })
		} else {
			synctest.Test(t, func(t *testing.T) { vfC11Run(t, res, rf.Replay.Case) })
		}
		res.NonTrivial("replay-extra")
		res.Sample("replay")
		res.Finish(t)

		return
	}
	nc := vfPick(3000, 150000)
	vfBubbles(t, nc, func(t *testing.T, i int) { vfC11Run(t, res, i) })
	vfBubbles(t, 24, func(t *testing.T, i int) { vfC11ResumedPolicy(t, res, i) })
	type sni struct {
		def    string
		suites []CipherSuiteID
		tag    string
	}
	snis := []sni{
		{"ecdsa", nil, "default-suites"}, {"rsa", nil, "default-suites"},
		{"ecdsa", []CipherSuiteID{TLS_ECDHE_ECDSA_WITH_AES_128_GCM_SHA256, TLS_ECDHE_RSA_WITH_AES_128_GCM_SHA256}, "ecdsa-suite-first"},
		{"rsa", []CipherSuiteID{TLS_ECDHE_RSA_WITH_AES_256_GCM_SHA384, TLS_ECDHE_ECDSA_WITH_AES_256_GCM_SHA384}, "rsa-suite-first"},
		{"ecdsa", []CipherSuiteID{TLS_ECDHE_ECDSA_WITH_AES_128_GCM_SHA256}, "only-default-kind-suites"},
		{"rsa", nil, "ed25519-served/default-suites"},
		{"rsa", []CipherSuiteID{TLS_ECDHE_RSA_WITH_AES_128_GCM_SHA256, TLS_ECDHE_ECDSA_WITH_AES_128_GCM_SHA256}, "ed25519-served/rsa-suite-first"},
		{"ecdsa", nil, "ed25519-served/control-default-ecdsa"},
	}
	vfBubbles(t, len(snis), func(t *testing.T, i int) { vfC11SNICertificate(t, res, snis[i].def, snis[i].suites, snis[i].tag) })
	type ccv struct {
		ver     string
		schemes []tls.SignatureScheme
		tag     string
	}
	ccvs := []ccv{
		{"12", []tls.SignatureScheme{tls.PKCS1WithSHA256, tls.ECDSAWithP384AndSHA384}, "sha384-only-for-ecdsa"},
		{"12", []tls.SignatureScheme{tls.ECDSAWithP521AndSHA512, tls.PKCS1WithSHA256}, "sha512-only-for-ecdsa"},
		{"12", []tls.SignatureScheme{tls.ECDSAWithP256AndSHA256, tls.PKCS1WithSHA256}, "control-default-hash"},
		{"13", []tls.SignatureScheme{tls.ECDSAWithP384AndSHA384, tls.Ed25519}, "no-scheme-for-a-p256-key"},
		{"13", []tls.SignatureScheme{tls.ECDSAWithP256AndSHA256}, "control"},
	}
	vfBubbles(t, len(ccvs), func(t *testing.T, i int) {
		vfC11ClientCertVerifyScheme(t, res, ccvs[i].ver, ccvs[i].schemes, ccvs[i].tag)
	})
	vfBubbles(t, 2, func(t *testing.T, i int) { vfC11RSAKeyUnder13(t, res, []string{"server", "client"}[i]) })
	vfBubbles(t, 2, func(t *testing.T, i int) { vfC11RequireEMSOnResumption(t, res, []string{"client", "server"}[i]) })
	vfBubbles(t, 2, func(t *testing.T, i int) { vfC11DisjointALPNOnResumption(t, res, i == 1) })
	vfBubbles(t, 2, func(t *testing.T, i int) { vfC11StrippedSupportedVersions(t, res, i == 1) })
	res.Floor("negotiations_checked", int64(nc/10))
	res.Floor("refused_incompatible", int64(nc/20))
	res.Finish(t)
}
