//go:build verif

package dtls

import (
	"bytes"
	"context"
	"fmt"
	"net"
	"net/netip"
	"strings"
	"sync"
	"testing"
	"testing/synctest"
	"time"

	dtlsflight "github.com/pion/dtls/v3/internal/flight"
	"github.com/pion/dtls/v3/pkg/protocol/extension"
	"github.com/pion/dtls/v3/pkg/protocol/handshake"
)

// C15 — connection IDs and peer address migration.
//
// Part A (virtual-time network): after a handshake with connection IDs one endpoint (the "mover")
// is put behind changing source addresses; the harness holds every datagram and decides from which
// address and when it is delivered to the observed endpoint O. Generic oracle, checked after every step:
//   G1  bytes O emitted towards an address it has not switched to <= 3 x bytes delivered to O from it;
//   G2  O.RemoteAddr() changes to X only if return-routability checking was negotiated, a fresh
//       genuine record had been delivered from X, and a datagram the mover produced after it had
//       received O's datagram for X was delivered to O from X within one second of that datagram;
//   G3  O emits only towards its current RemoteAddr() or towards addresses from which a fresh genuine
//       record was delivered (never towards the source of replayed, stale or unauthentic records);
//   G4  every protected record carries the receiver's connection ID (wire scan), and a genuine
//       record whose connection ID was altered, or that was stripped of it, is not delivered.
// Part B (real UDP sockets, real listener): clients re-send from fresh sockets; the payload must
// surface on the connection that owns the connection ID and nowhere else.

const (
	vfAddrB = "10.0.9.9:999"
	vfAddrC = "10.0.7.7:777"
)

type vfC15Case struct {
	Ver      string // 12 | 13
	CIDc     int
	CIDs     int
	RRC      bool   // false: the extension is removed from the client's hellos (peer without RFC 9853)
	Observed string // s | c
	Scenario string
	Idx      int
}

func (c vfC15Case) ID() string {
	return fmt.Sprintf("v%s|cid%d,%d|rrc=%v|observe=%s|%s", c.Ver, c.CIDc, c.CIDs, c.RRC, c.Observed, c.Scenario)
}

var vfC15Scenarios = []string{
	"genuine", "challenge-dropped", "response-late", "response-from-third-address", "response-from-sibling-port", "forged-response-wrong-cookie",
	"forged-response-guess-before-challenge", "replayed-record-from-new-address", "stale-record-from-new-address",
	"garbage-from-new-address", "two-candidates-one-answers", "genuine-then-back", "observed-writes-during-validation",
	"altered-cid", "many-small-records-from-new-address", "response-late-with-keepalives", "stale-epoch-record-from-new-address", "first-record-of-epoch-late-from-new-address",
}

// vfInstallRRCStrip removes the return_routability_check extension from the ClientHellos generated for key.
func vfInstallRRCStrip(key any) {
	vfInstallFilter()
	vfEdits.Store(key, true)
}

var vfEdits sync.Map // handshake config -> strip RRC

func init() {
	vfExtraFilter = func(key any, isClient bool, pkts []*dtlsflight.Packet) {
		if _, ok := vfEdits.Load(key); !ok || !isClient {
			return
		}
		for _, p := range pkts {
			h, ok := p.Record.Content.(*handshake.Handshake)
			if !ok {
				continue
			}
			ch, ok := h.Message.(*handshake.MessageClientHello)
			if !ok {
				continue
			}
			var kept []extension.Value
			for _, e := range ch.Extensions {
				if e.ExtensionType() != extension.TypeReturnRoutabilityCheck {
					kept = append(kept, e)
				}
			}
			ch.Extensions = kept
		}
	}
}

type vfC15World struct {
	res     *vfResult
	c       vfC15Case
	replay  map[string]any
	p       *vfPair
	n       *vfNet
	obs     *vfSide // observed endpoint
	mov     *vfSide // mover
	obsAddr string
	home    string // mover's original address

	mu           sync.Mutex
	moverOut     []*vfC15Dgram            // held datagrams of the mover, in emission order
	recv         map[string]int           // bytes delivered to O per source address
	sent         map[string]int           // bytes O emitted per destination while that destination was not its RemoteAddr
	fresh        map[string]bool          // a fresh genuine record was delivered from this address
	eligible     map[string]bool          // a post-challenge mover datagram was delivered from this address in time
	chalAt       map[string]time.Duration // when O's oldest undelivered/unanswered datagram towards the address was emitted
	chalSeen     map[string]time.Duration // emission time of the datagram for address X that the mover has received
	toMover      []*vfWire                // O's emissions (for the scenario to forward or drop)
	forwardTo    bool                     // forward O's datagrams to the mover
	switched     []string
	lastAddr     string
	cidLenObs    int
	cidLenMov    int
	moverWriting bool // the harness is inside a Write on the mover
}

type vfC15Dgram struct {
	Data          []byte
	Reaction      bool                     // emitted by the mover on its own (while the harness was not writing on it): an answer to something
	PostChallenge map[string]time.Duration // X -> emission time of the O->X datagram the mover had received before producing this
	Delivered     int
}

func (w *vfC15World) violate(sig, what string) {
	w.res.Violate("C15:"+sig, what+"; "+w.c.ID(), w.replay)
}

// deliver hands one datagram to O from src and applies the oracle.
func (w *vfC15World) deliver(d *vfC15Dgram, src string, genuineFresh bool) {
	w.mu.Lock()
	w.recv[src] += len(d.Data)
	if genuineFresh && d.Delivered == 0 {
		w.fresh[src] = true
	}
	for x, at := range d.PostChallenge {
		if d.Reaction && x == src && w.n.Now()-at < time.Second {
			w.eligible[src] = true
		}
	}
	d.Delivered++
	w.mu.Unlock()
	w.n.Deliver(w.obsAddr, d.Data, vfAddr(src))
	synctest.Wait()
	w.check("after delivery from " + src)
}

func (w *vfC15World) deliverRaw(data []byte, src string) {
	w.mu.Lock()
	w.recv[src] += len(data)
	w.mu.Unlock()
	w.n.Deliver(w.obsAddr, data, vfAddr(src))
	synctest.Wait()
	w.check("after injected datagram from " + src)
}

// check applies G2 (address changes) at a quiescent point.
func (w *vfC15World) check(when string) {
	cur := w.obs.Conn.RemoteAddr().String()
	w.mu.Lock()
	defer w.mu.Unlock()
	if cur == w.lastAddr {
		return
	}
	w.switched = append(w.switched, cur)
	w.res.Count("address_switches_observed", 1)
	rrc := vfCommon(w.obs.Conn).RRCNegotiated
	switch {
	case !rrc:
		w.violate("address-changed-without-rrc:"+w.c.Scenario, fmt.Sprintf("RemoteAddr() changed %s -> %s %s although return routability checking was not negotiated", w.lastAddr, cur, when))
	case !w.fresh[cur]:
		w.violate("address-changed-without-fresh-authentic-record:"+w.c.Scenario, fmt.Sprintf("RemoteAddr() changed %s -> %s %s although no fresh genuine record had been delivered from that address", w.lastAddr, cur, when))
	case !w.eligible[cur]:
		w.violate("address-changed-without-timely-response:"+w.c.Scenario, fmt.Sprintf("RemoteAddr() changed %s -> %s %s although no datagram the peer produced after receiving a challenge for that address was delivered from it within 1 s", w.lastAddr, cur, when))
	}
	w.lastAddr = cur
	// a validated address starts a new accounting period
	delete(w.sent, cur)
}

// onSend observes every emission of both endpoints (G1, G3, G4).
func (w *vfC15World) onSend(n *vfNet, e *vfWire) {
	w.mu.Lock()
	defer w.mu.Unlock()
	if e.From == w.mov.Name {
		d := &vfC15Dgram{Data: e.Data, PostChallenge: map[string]time.Duration{}, Reaction: !w.moverWriting}
		for x, at := range w.chalSeen {
			d.PostChallenge[x] = at
		}
		w.moverOut = append(w.moverOut, d)
		w.scanCID(e, w.cidLenObs, w.obs)

		return
	}
	// emission of the observed endpoint
	w.scanCID(e, w.cidLenMov, w.mov)
	cur := w.lastAddr
	if e.Dst != cur {
		if _, ever := w.recv[e.Dst]; !ever {
			w.violate("emission-to-address-never-heard-from", fmt.Sprintf("O emitted %d bytes to %s, from which nothing was ever delivered (RemoteAddr %s)", len(e.Data), e.Dst, cur))
		}
		if !w.fresh[e.Dst] {
			// replayed, stale, unauthentic or no records at all came from there: nothing may be sent to it
			w.violate("emission-to-address-without-fresh-authentic-record:"+w.c.Scenario, fmt.Sprintf("O emitted %d bytes to %s although no fresh genuine record had been delivered from it (RemoteAddr %s)", len(e.Data), e.Dst, cur))
		}
		w.sent[e.Dst] += len(e.Data)
		w.res.Count("bytes_to_unvalidated_addresses", int64(len(e.Data)))
		w.res.Max("max_percent_of_budget_used", int64(100*w.sent[e.Dst]/(3*w.recv[e.Dst]+1)))
		if w.sent[e.Dst] > 3*w.recv[e.Dst] {
			w.violate("amplification-budget-exceeded:"+w.c.Scenario, fmt.Sprintf("O has emitted %d bytes to unvalidated %s after receiving %d bytes from it (limit %d)", w.sent[e.Dst], e.Dst, w.recv[e.Dst], 3*w.recv[e.Dst]))
		}
		if _, ok := w.chalAt[e.Dst]; !ok {
			w.chalAt[e.Dst] = e.VTime
		}
	}
	w.toMover = append(w.toMover, e)
	if w.forwardTo {
		w.forwardLocked(e)
	}
}

// forwardLocked delivers one of O's datagrams to the mover (all addresses of the mover reach it).
func (w *vfC15World) forwardLocked(e *vfWire) {
	if e.Dst != w.lastAddr {
		// (the latest one counts: a response answers the challenge the peer saw last)
		w.chalSeen[e.Dst] = e.VTime
	}
	w.n.Deliver(e.Dst, e.Data, vfAddr(w.obsAddr))
}

// scanCID: every protected record carries the receiver's connection ID.
func (w *vfC15World) scanCID(e *vfWire, cidLen int, receiver *vfSide) {
	want := vfCommon(receiver.Conn).LocalConnectionID()
	recs, ok := vfParseDatagram(e.Data, len(want))
	if !ok {
		w.res.Count("unparsed_emissions", 1)

		return
	}
	for _, rc := range recs {
		protected := rc.Unified || (rc.Epoch > 0 && rc.Type != 20)
		if !protected {
			continue
		}
		w.res.Count("protected_records_scanned", 1)
		if len(want) == 0 {
			if len(rc.CID) != 0 || (!rc.Unified && rc.Type == 25) {
				w.violate("cid-on-record-although-peer-asked-for-none", fmt.Sprintf("%s emitted %s carrying a connection ID although the receiver's ID is empty", e.From, vfDescribe(e.Data, 0)))
			}

			continue
		}
		if !bytes.Equal(rc.CID, want) {
			w.violate("protected-record-without-peer-cid", fmt.Sprintf("%s emitted a protected record (%s) without the receiver's connection ID %x", e.From, vfDescribe(e.Data, len(want)), want))
		}
	}
}

func vfC15Run(t *testing.T, res *vfResult, c vfC15Case) {
	res.Eval(1)
	replay := map[string]any{"case": c}
	suite := vfSuiteByName("ECDSA-GCM128")
	if c.Ver == "13" {
		suite = vfSuiteByName("13-GCM128")
	}
	cfg := vfBaseCfg(suite, "ecdsa")
	cfg.CVer, cfg.SVer, cfg.CIDc, cfg.CIDs, cfg.HelloVerify = c.Ver, c.Ver, c.CIDc, c.CIDs, false
	co, so := cfg.Options(nil, nil)
	n := vfNewNet()
	p, err := vfNewPair(n, co, so)
	if err != nil {
		res.Count("config_rejected", 1)

		return
	}
	if !c.RRC {
		vfInstallRRCStrip(p.C.Conn.handshakeConfig)
		defer vfEdits.Delete(p.C.Conn.handshakeConfig)
	}
	// first-record-of-epoch-late (DTLS 1.2): the mover's first transmission of its Finished, record 0 of epoch 1, is held
	// back by the network; the handshake completes with the retransmission (record 1)
	var heldFirst []byte
	if c.Scenario == "first-record-of-epoch-late-from-new-address" && c.Ver == "12" {
		moverName := map[string]string{"s": "c", "c": "s"}[c.Observed]
		var hmu sync.Mutex
		n.SetOnSend(func(n *vfNet, w *vfWire) {
			hmu.Lock()
			hold := false
			if w.From == moverName && heldFirst == nil {
				if recs, ok := vfParseDatagram(w.Data, len(vfCommon(map[string]*vfSide{"c": p.S, "s": p.C}[moverName].Conn).LocalConnectionID())); ok {
					for _, rc := range recs {
						if !rc.Unified && rc.Epoch == 1 && rc.Seq == 0 {
							heldFirst = append([]byte(nil), w.Data[rc.Off:]...)
							hold = true
						}
					}
				}
			}
			hmu.Unlock()
			if !hold {
				n.Deliver(w.Dst, w.Data, vfAddrOf(w.From))
			}
		})
	}
	if ce, se := p.Handshake(time.Minute); ce != nil || se != nil {
		res.Count("handshake_failed", 1)
		res.Seen("handshake_failures", c.ID()+": "+vfErrNorm(ce)+" / "+vfErrNorm(se))
		p.Close()
		synctest.Wait()

		return
	}
	defer func() { n.SetOnSend(nil); p.Close(); synctest.Wait() }()
	p.C.StartPump()
	p.S.StartPump()
	w := &vfC15World{res: res, c: c, replay: replay, p: p, n: n, recv: map[string]int{}, sent: map[string]int{}, fresh: map[string]bool{},
		eligible: map[string]bool{}, chalAt: map[string]time.Duration{}, chalSeen: map[string]time.Duration{}, forwardTo: true}
	if c.Observed == "s" {
		w.obs, w.mov, w.obsAddr, w.home = p.S, p.C, vfServerAddr, vfClientAddr
	} else {
		w.obs, w.mov, w.obsAddr, w.home = p.C, p.S, vfClientAddr, vfServerAddr
	}
	w.lastAddr = w.obs.Conn.RemoteAddr().String()
	w.recv[w.home] = 1 << 30
	w.cidLenObs, w.cidLenMov = len(vfCommon(w.obs.Conn).LocalConnectionID()), len(vfCommon(w.mov.Conn).LocalConnectionID())
	rrc := vfCommon(w.obs.Conn).RRCNegotiated
	if rrc != vfCommon(w.mov.Conn).RRCNegotiated {
		w.violate("rrc-negotiation-disagrees", "the two endpoints disagree on whether return routability checking was negotiated")
	}
	if c.RRC != rrc && (c.CIDc >= 0 && c.CIDs >= 0) {
		res.Count("rrc_state_unexpected", 1)
	}
	res.Count(fmt.Sprintf("rrc_negotiated_%v", rrc), 1)
	hasCID := w.cidLenObs > 0 // O can be reached by ID: records for it carry its connection ID
	n.Alias(vfAddrB, w.mov.EP)
	n.Alias(vfAddrC, w.mov.EP)
	n.SetOnSend(w.onSend)
	res.NonTrivial(c.ID())
	seq := 0
	write := func(side *vfSide, tag string) []byte {
		seq++
		pl := []byte(fmt.Sprintf("c15-%s-%d-%s-%d", side.Name, c.Idx, tag, seq))
		if side == w.mov {
			w.mu.Lock()
			w.moverWriting = true
			w.mu.Unlock()
		}
		if _, err := side.Conn.Write(pl); err != nil {
			res.Count("write_errors", 1)
		}
		synctest.Wait()
		w.mu.Lock()
		w.moverWriting = false
		w.mu.Unlock()

		return pl
	}
	take := func() *vfC15Dgram { // oldest undelivered datagram of the mover
		w.mu.Lock()
		defer w.mu.Unlock()
		for _, d := range w.moverOut {
			if d.Delivered == 0 {
				return d
			}
		}

		return nil
	}
	pending := func() []*vfC15Dgram {
		w.mu.Lock()
		defer w.mu.Unlock()
		var out []*vfC15Dgram
		for _, d := range w.moverOut {
			if d.Delivered == 0 {
				out = append(out, d)
			}
		}

		return out
	}
	drain := func(src string) { // deliver everything the mover has produced, in order, from src
		for i := 0; i < 64; i++ {
			d := take()
			if d == nil {
				return
			}
			w.deliver(d, src, true)
		}
	}
	got := func(pl []byte) bool {
		for _, r := range w.obs.ReadsSnapshot() {
			if bytes.Equal(r, pl) {
				return true
			}
		}

		return false
	}
	// warm-up: one payload each way over the original path
	pl0 := write(w.mov, "home")
	drain(w.home)
	if !got(pl0) {
		res.Count("warmup_not_delivered", 1)
	}
	write(w.obs, "home")
	synctest.Wait()

	expectDelivered := func(pl []byte, what string) {
		if hasCID && !got(pl) {
			res.Count("genuine_record_from_new_address_not_delivered/"+c.Scenario, 1)
		} else if got(pl) {
			res.Count("genuine_records_from_new_address_delivered", 1)
		}
		_ = what
	}
	switch c.Scenario {
	case "genuine":
		pl := write(w.mov, "fromB")
		drain(vfAddrB) // the record, then (after forwarding) the answer to the challenge
		drain(vfAddrB)
		expectDelivered(pl, "genuine")
		time.Sleep(2 * time.Second)
		synctest.Wait()
		w.check("after settle")
		if rrc && hasCID {
			if w.lastAddr == vfAddrB {
				res.Count("genuine_migrations_completed", 1)
			} else {
				res.Count("genuine_migrations_not_completed", 1)
			}
		}
		// data after the migration flows over the new path
		write(w.obs, "afterB")
	case "genuine-then-back":
		write(w.mov, "fromB")
		drain(vfAddrB)
		drain(vfAddrB)
		write(w.mov, "fromHomeAgain")
		drain(w.home)
		drain(w.home)
		time.Sleep(2 * time.Second)
		synctest.Wait()
		w.check("after settle")
	case "challenge-dropped":
		w.mu.Lock()
		w.forwardTo = false
		w.mu.Unlock()
		for i := 0; i < 4; i++ {
			write(w.mov, "fromB")
			drain(vfAddrB)
			time.Sleep(400 * time.Millisecond)
		}
		time.Sleep(3 * time.Second)
		synctest.Wait()
		w.check("after settle")
	case "response-late":
		write(w.mov, "fromB")
		d := take()
		if d != nil {
			w.deliver(d, vfAddrB, true) // O challenges B, the mover answers (held)
		}
		time.Sleep(1500 * time.Millisecond)
		drain(vfAddrB) // the answer arrives after the validation window
		time.Sleep(2 * time.Second)
		synctest.Wait()
		w.check("after settle")
	case "response-late-with-keepalives":
		// the candidate address keeps sending authentic records while its answer to the challenge is late:
		// the traffic must not extend the validation window of the outstanding challenge
		write(w.mov, "fromB")
		if d := take(); d != nil {
			w.deliver(d, vfAddrB, true) // O challenges B; the mover's answer is withheld
		}
		w.mu.Lock()
		w.forwardTo = false // later challenges never reach the mover: the withheld answer stays the only one
		w.mu.Unlock()
		stale := pending()
		for _, d := range stale {
			d.Delivered++
		}
		for i := 0; i < 5; i++ {
			time.Sleep(300 * time.Millisecond)
			write(w.mov, "keepalive")
			drain(vfAddrB)
		}
		for _, d := range stale { // 1.5 s after the challenge it answers
			d.Delivered = 0
			w.deliver(d, vfAddrB, true)
		}
		time.Sleep(2 * time.Second)
		synctest.Wait()
		w.check("after settle")
	case "response-from-third-address":
		write(w.mov, "fromB")
		if d := take(); d != nil {
			w.deliver(d, vfAddrB, true)
		}
		// the mover's answer is delivered from C instead of B
		for _, d := range pending() {
			w.mu.Lock()
			w.recv[vfAddrC] += len(d.Data)
			d.Delivered++
			w.mu.Unlock()
			n.Deliver(w.obsAddr, d.Data, vfAddr(vfAddrC))
			synctest.Wait()
			w.check("after response delivered from a third address")
		}
		time.Sleep(2 * time.Second)
		synctest.Wait()
		w.check("after settle")
	case "response-from-sibling-port":
		// as above, but the third address shares its IP with the challenged one (another port of the same host, a NAT
		// rebinding): addresses are real UDP addresses here, as a socket reports them
		udp := func(a string) net.Addr {
			ap, err := netip.ParseAddrPort(a)
			if err != nil {
				return vfAddr(a)
			}

			return net.UDPAddrFromAddrPort(ap)
		}
		const sibling = "10.0.9.9:1001"
		n.Alias(sibling, w.mov.EP)
		write(w.mov, "fromB")
		if d := take(); d != nil {
			w.mu.Lock()
			w.recv[vfAddrB] += len(d.Data)
			w.fresh[vfAddrB] = true
			d.Delivered++
			w.mu.Unlock()
			n.Deliver(w.obsAddr, d.Data, udp(vfAddrB))
			synctest.Wait()
			w.check("after delivery from B")
		}
		for _, d := range pending() {
			w.mu.Lock()
			w.recv[sibling] += len(d.Data)
			d.Delivered++
			w.mu.Unlock()
			n.Deliver(w.obsAddr, d.Data, udp(sibling))
			synctest.Wait()
			w.check("after the response was delivered from another port of the challenged host")
		}
		time.Sleep(2 * time.Second)
		synctest.Wait()
		w.check("after settle")
	case "forged-response-wrong-cookie", "forged-response-guess-before-challenge":
		tk, err := vfNewToolkit(p)
		if err != nil {
			res.Count("toolkit_unavailable", 1)

			return
		}
		w.mu.Lock()
		w.forwardTo = false // the genuine peer never sees the challenge
		w.mu.Unlock()
		forge := func(cookie byte) {
			ep, first := tk.reserve(w.mov.Name, 1)
			body := append([]byte{1}, bytes.Repeat([]byte{cookie}, 8)...) // path_response
			if rec, err := tk.Seal(w.mov.Name, ep, first, 27, body, uint64(first)+77); err == nil {
				w.deliverRaw(rec, vfAddrB)
				res.Count("forged_responses_injected", 1)
			}
		}
		if c.Scenario == "forged-response-guess-before-challenge" {
			forge(0)
		}
		write(w.mov, "fromB")
		if d := take(); d != nil {
			w.deliver(d, vfAddrB, true)
		}
		for k := 0; k < 6; k++ {
			forge(byte(k * 41))
		}
		time.Sleep(2 * time.Second)
		synctest.Wait()
		w.check("after settle")
	case "replayed-record-from-new-address":
		write(w.mov, "home2")
		d := take()
		if d != nil {
			w.deliver(d, w.home, true)
			before := w.sent[vfAddrB]
			for i := 0; i < 3; i++ {
				w.mu.Lock()
				w.recv[vfAddrB] += len(d.Data)
				w.mu.Unlock()
				n.Deliver(w.obsAddr, d.Data, vfAddr(vfAddrB))
				synctest.Wait()
				w.check("after replay from new address")
			}
			if w.sent[vfAddrB] != before {
				res.Count("replay_from_new_address_answered", 1)
			}
		}
		drain(w.home)
		time.Sleep(2 * time.Second)
		synctest.Wait()
		w.check("after settle")
	case "stale-record-from-new-address":
		write(w.mov, "older")
		older := take()
		if older != nil {
			older.Delivered++ // held back
		}
		write(w.mov, "newer")
		drain(w.home)
		if older != nil {
			older.Delivered = 0
			w.mu.Lock()
			w.recv[vfAddrB] += len(older.Data)
			older.Delivered++
			w.mu.Unlock()
			n.Deliver(w.obsAddr, older.Data, vfAddr(vfAddrB)) // authentic, inside the window, not the newest
			synctest.Wait()
			w.check("after stale record from new address")
		}
		drain(vfAddrB) // whatever the mover answered to a challenge that should not exist
		time.Sleep(2 * time.Second)
		synctest.Wait()
		w.check("after settle")
	case "stale-epoch-record-from-new-address":
		// DTLS 1.3: the withheld record belongs to the epoch before the mover's key update; when it arrives from the
		// new address the observed endpoint has already read records of the next epoch. It is authentic and the
		// highest of ITS epoch, but not the newest record: no challenge, nothing sent to that address.
		if c.Ver != "13" {
			res.Count("scenario_not_applicable", 1)

			break
		}
		// the mover's KeyUpdate reaches the observed endpoint, its ACK is withheld for a moment; what the mover writes
		// meanwhile still goes out under the old epoch, numbered above the KeyUpdate record: the highest of that epoch
		w.mu.Lock()
		w.forwardTo = false
		mark := len(w.toMover)
		w.mu.Unlock()
		uctx, ucancel := context.WithTimeout(context.Background(), 20*time.Second)
		done := make(chan error, 1)
		go func() { done <- w.mov.Conn.UpdateKeys(uctx, KeyUpdateOptions{}) }()
		synctest.Wait()
		drain(w.home)
		wrote := make(chan struct{})
		go func() {
			defer close(wrote)
			_ = w.mov.Conn.SetWriteDeadline(time.Now().Add(5 * time.Second))
			_, _ = w.mov.Conn.Write([]byte(fmt.Sprintf("c15-%s-%d-older-epoch", w.mov.Name, c.Idx)))
		}()
		synctest.Wait()
		older := take()
		if older != nil {
			older.Delivered++ // held back
		}
		w.mu.Lock()
		w.forwardTo = true
		for _, e := range w.toMover[mark:] {
			w.forwardLocked(e)
		}
		w.mu.Unlock()
		synctest.Wait()
		uerr := <-done
		ucancel()
		<-wrote
		if uerr != nil {
			res.Count("stale_epoch_update_failed", 1)

			break
		}
		if older == nil {
			res.Count("stale_epoch_no_record_under_old_epoch", 1)
		}
		write(w.mov, "newer-epoch")
		drain(w.home)
		if older != nil {
			w.mu.Lock()
			older.Delivered = 1
			w.recv[vfAddrB] += len(older.Data)
			w.mu.Unlock()
			n.Deliver(w.obsAddr, older.Data, vfAddr(vfAddrB))
			synctest.Wait()
			w.check("after a record of the previous epoch from a new address")
			res.Count("stale_epoch_records_from_new_address", 1)
		}
		drain(vfAddrB)
		time.Sleep(2 * time.Second)
		synctest.Wait()
		w.check("after settle")
	case "first-record-of-epoch-late-from-new-address":
		// record number 0 of the current epoch arrives late, from a new address, after higher numbers of that epoch were
		// accepted from the active one: authentic, inside the window, not the newest. No challenge, nothing sent there.
		var older []byte
		if c.Ver == "12" {
			older = heldFirst
		} else {
			uctx, ucancel := context.WithTimeout(context.Background(), 20*time.Second)
			done := make(chan error, 1)
			go func() { done <- w.mov.Conn.UpdateKeys(uctx, KeyUpdateOptions{}) }()
			for i := 0; i < 8; i++ {
				synctest.Wait()
				drain(w.home)
			}
			uerr := <-done
			ucancel()
			if uerr != nil {
				res.Count("first_record_update_failed", 1)

				break
			}
			write(w.mov, "first-of-epoch")
			if d := take(); d != nil {
				d.Delivered++ // held back
				older = d.Data
			}
		}
		if older == nil {
			res.Count("first_record_not_captured", 1)

			break
		}
		write(w.mov, "newer-1")
		write(w.mov, "newer-2")
		drain(w.home)
		w.mu.Lock()
		w.recv[vfAddrB] += len(older)
		w.mu.Unlock()
		n.Deliver(w.obsAddr, older, vfAddr(vfAddrB))
		synctest.Wait()
		w.check("after record 0 of the epoch arrived late from a new address")
		res.Count("first_records_of_epoch_late_from_new_address", 1)
		drain(vfAddrB)
		time.Sleep(2 * time.Second)
		synctest.Wait()
		w.check("after settle")
	case "garbage-from-new-address":
		r := vfRand("C15/garbage", c.Idx)
		for i := 0; i < 8; i++ {
			w.deliverRaw(vfRandBytes(r, 20+r.IntN(200)), vfAddrB)
		}
		// a record with a valid header and the right connection ID but random ciphertext
		if d := func() *vfC15Dgram { write(w.mov, "tmpl"); return take() }(); d != nil {
			g := append([]byte(nil), d.Data...)
			for i := len(g) - 12; i < len(g); i++ {
				g[i] ^= 0x5a
			}
			w.deliverRaw(g, vfAddrB)
			w.deliver(d, w.home, true)
		}
		time.Sleep(2 * time.Second)
		synctest.Wait()
		w.check("after settle")
	case "two-candidates-one-answers":
		write(w.mov, "fromB")
		if d := take(); d != nil {
			w.deliver(d, vfAddrB, true)
		}
		held := pending() // the answer for B: withheld
		for _, d := range held {
			d.Delivered++
		}
		write(w.mov, "fromC")
		drain(vfAddrC)
		drain(vfAddrC)
		time.Sleep(2 * time.Second)
		synctest.Wait()
		w.check("after settle")
	case "observed-writes-during-validation":
		w.mu.Lock()
		w.forwardTo = false
		w.mu.Unlock()
		write(w.mov, "fromB")
		if d := take(); d != nil {
			w.deliver(d, vfAddrB, true)
		}
		for i := 0; i < 12; i++ {
			write(w.obs, "duringValidation") // application data keeps going to the validated address
		}
		time.Sleep(2 * time.Second)
		synctest.Wait()
		w.check("after settle")
	case "altered-cid":
		pl := write(w.mov, "cidAltered")
		d := take()
		if d != nil && w.cidLenObs > 0 {
			g := append([]byte(nil), d.Data...)
			// the connection ID follows the first header byte (unified) or the 11-byte legacy prefix
			off := 11
			if g[0]&0xe0 == 0x20 {
				off = 1
			}
			g[off] ^= 0x01
			w.deliverRaw(g, w.home)
			w.deliverRaw(g, vfAddrB)
			if got(pl) {
				w.violate("record-with-foreign-cid-accepted", "a genuine record whose connection ID had one bit flipped was delivered to Read")
			}
			res.Count("altered_cid_records_injected", 2)
			w.deliver(d, w.home, true)
			if !got(pl) {
				res.Count("genuine_after_altered_not_delivered", 1)
			}
		}
	case "many-small-records-from-new-address":
		w.mu.Lock()
		w.forwardTo = false
		w.mu.Unlock()
		for i := 0; i < 30; i++ {
			write(w.mov, "s")
			drain(vfAddrB)
			if i%7 == 0 {
				time.Sleep(300 * time.Millisecond)
			}
		}
		time.Sleep(2 * time.Second)
		synctest.Wait()
		w.check("after settle")
	}
	if !rrc {
		// without the negotiation the address never changes: O keeps writing to the original address
		write(w.obs, "noRRC")
		if w.obs.Conn.RemoteAddr().String() != w.home {
			w.violate("address-changed-without-rrc:"+c.Scenario, "RemoteAddr() is no longer the original address although return routability checking was not negotiated")
		}
	}
	res.Seen("scenario_outcomes", fmt.Sprintf("%s rrc=%v cidObs=%d -> %s", c.Scenario, rrc, w.cidLenObs, strings.Join(append([]string{"home"}, w.switched...), ">")))
	if res.Get("samples_taken") < 8 {
		res.Count("samples_taken", 1)
		res.Sample(map[string]any{"case": c.ID(), "switches": w.switched, "recv_bytes": w.recv[vfAddrB], "sent_bytes_unvalidated": w.sent[vfAddrB]})
	}
}

func vfC15Cases() []vfC15Case {
	var out []vfC15Case
	idx := 0
	for _, ver := range []string{"12", "13"} {
		// (the last two: very unequal lengths — a challenge carries the peer's ID, so its size and the size of
		// what was received differ most there)
		layouts := [][2]int{{4, 4}, {8, 4}, {0, 8}, {8, 0}, {4, -1}, {200, 1}, {1, 200}}
		if vfThorough() {
			layouts = append(layouts, [2]int{1, 1}, [2]int{16, 2}, [2]int{2, 20}, [2]int{32, 32}, [2]int{-1, 4})
		}
		for _, cids := range layouts {
			for _, rrc := range []bool{true, false} {
				for _, obs := range []string{"s", "c"} {
					for _, sc := range vfC15Scenarios {
						out = append(out, vfC15Case{Ver: ver, CIDc: cids[0], CIDs: cids[1], RRC: rrc, Observed: obs, Scenario: sc, Idx: idx})
						idx++
					}
				}
			}
		}
	}

	return out
}

func TestVF_C15(t *testing.T) {
	vfGetPKI()
	res := vfNewResult("C15", "address-migration scenarios on the virtual-time network (genuine rebinding, dropped challenge, late / third-address / forged "+
		"responses, replayed, stale and garbage records from a new address, two candidates, altered connection IDs) for both versions, five CID layouts, "+
		"with and without return-routability negotiation, observing either endpoint; byte budget, RemoteAddr() and destination of every emission "+
		"checked after every step; plus a real listener on loopback UDP whose clients re-send from fresh sockets. Distinct = scenario instances")
	res.Assume("bytes received from an address = all datagram bytes the harness delivered from it (the library counts authenticated bytes only, which is less)",
		"a datagram the peer emitted on its own (not while the harness was writing on it) after receiving a challenge counts as the response (the response itself is encrypted)")
	if vfEnv().Replay != "" {
		var rf struct {
			Replay struct {
				Case vfC15Case `json:"case"`
			} `json:"replay"`
		}
		vfLoadReplay(t, &rf)
		vfDumpWire = true
		synctest.Test(t, func(t *testing.T) { vfC15Run(t, res, rf.Replay.Case) })
		res.NonTrivial("replay-extra")
		res.Sample("replay")
		res.Finish(t)

		return
	}
	cases := vfC15Cases()
	vfBubbles(t, len(cases), func(t *testing.T, i int) { vfC15Run(t, res, cases[i]) })
	vfC15Listener(t, res, vfPick(6, 60))
	res.Floor("genuine_migrations_completed", 4)
	res.Floor("protected_records_scanned", 1000)
	res.Floor("listener_migrations_checked", 10)
	res.Finish(t)
}

// ---------------------------------------------------------------------------------------------
// Part B: real listener, real sockets.

// vfSwapConn is a PacketConn whose socket can be replaced (a client behind a rebinding NAT).
type vfSwapConn struct {
	mu   sync.Mutex
	cur  net.PacketConn
	old  []net.PacketConn
	rdCh chan vfSwapRead
	done chan struct{}
	once sync.Once
}

type vfSwapRead struct {
	b    []byte
	addr net.Addr
}

func vfNewSwapConn() (*vfSwapConn, error) {
	pc, err := net.ListenUDP("udp", &net.UDPAddr{IP: net.IPv4(127, 0, 0, 1)})
	if err != nil {
		return nil, err
	}
	s := &vfSwapConn{cur: pc, rdCh: make(chan vfSwapRead, 256), done: make(chan struct{})}
	go s.pump(pc)

	return s, nil
}

func (s *vfSwapConn) pump(pc net.PacketConn) {
	buf := make([]byte, 8192)
	for {
		n, addr, err := pc.ReadFrom(buf)
		if err != nil {
			return
		}
		select {
		case s.rdCh <- vfSwapRead{append([]byte(nil), buf[:n]...), addr}:
		case <-s.done:
			return
		}
	}
}

// Rebind moves the client to a fresh local port.
func (s *vfSwapConn) Rebind() error {
	pc, err := net.ListenUDP("udp", &net.UDPAddr{IP: net.IPv4(127, 0, 0, 1)})
	if err != nil {
		return err
	}
	s.mu.Lock()
	s.old = append(s.old, s.cur)
	s.cur = pc
	s.mu.Unlock()
	go s.pump(pc)

	return nil
}

// SendVia lets f send through another client's current socket (a rebinding that lands on an address
// the listener already knows as somebody else's).
func (s *vfSwapConn) SendVia(other *vfSwapConn, f func()) {
	other.mu.Lock()
	borrowed := other.cur
	other.mu.Unlock()
	s.mu.Lock()
	own := s.cur
	s.cur = borrowed
	s.mu.Unlock()
	f()
	s.mu.Lock()
	s.cur = own
	s.mu.Unlock()
}

func (s *vfSwapConn) ReadFrom(b []byte) (int, net.Addr, error) {
	select {
	case r := <-s.rdCh:
		return copy(b, r.b), r.addr, nil
	case <-s.done:
		return 0, nil, net.ErrClosed
	}
}

func (s *vfSwapConn) WriteTo(b []byte, addr net.Addr) (int, error) {
	s.mu.Lock()
	pc := s.cur
	s.mu.Unlock()

	return pc.WriteTo(b, addr)
}

func (s *vfSwapConn) Close() error {
	s.once.Do(func() {
		close(s.done)
		s.mu.Lock()
		_ = s.cur.Close()
		for _, o := range s.old {
			_ = o.Close()
		}
		s.mu.Unlock()
	})

	return nil
}

func (s *vfSwapConn) LocalAddr() net.Addr {
	s.mu.Lock()
	defer s.mu.Unlock()

	return s.cur.LocalAddr()
}
func (s *vfSwapConn) SetDeadline(time.Time) error      { return nil }
func (s *vfSwapConn) SetReadDeadline(time.Time) error  { return nil }
func (s *vfSwapConn) SetWriteDeadline(time.Time) error { return nil }

func vfC15Listener(t *testing.T, res *vfResult, rounds int) {
	pki := vfGetPKI()
	for round := 0; round < rounds+2; round++ {
		ver := []string{"12", "13"}[round%2]
		cidLen, shape := 8, ""
		if round >= rounds {
			// two extra rounds with a 20-byte connection ID: with the default (hybrid) key share the DTLS 1.3
			// ServerHello then exceeds the MTU and leaves in fragments
			cidLen = 20
			if ver == "13" {
				shape = ":serverhello-fragmented"
			}
		}
		so := vfSO(append(vfVerOpts(ver), WithCertificates(pki.Leaf("ecdsa", "server")), WithConnectionIDGenerator(RandomCIDGenerator(cidLen)))...)
		so = append(so, WithInsecureSkipVerifyHello(round%4 < 2))
		ln, err := ListenWithOptions("udp", &net.UDPAddr{IP: net.IPv4(127, 0, 0, 1)}, so...)
		if err != nil {
			res.Inconc("listener: " + err.Error())

			return
		}
		const clients = 4
		type accepted struct {
			conn  *Conn
			reads chan []byte
		}
		var amu sync.Mutex
		var acc []*accepted
		go func() {
			for {
				nc, err := ln.Accept()
				if err != nil {
					return
				}
				c, _ := nc.(*Conn)
				a := &accepted{conn: c, reads: make(chan []byte, 256)}
				amu.Lock()
				acc = append(acc, a)
				amu.Unlock()
				go func() {
					buf := make([]byte, 4096)
					for {
						_ = c.SetReadDeadline(time.Now().Add(20 * time.Second))
						n, err := c.Read(buf)
						if err != nil {
							return
						}
						a.reads <- append([]byte(nil), buf[:n]...)
					}
				}()
			}
		}()
		raddr, _ := ln.Addr().(*net.UDPAddr)
		var conns []*Conn
		var socks []*vfSwapConn
		okAll := true
		for i := 0; i < clients; i++ {
			sc, err := vfNewSwapConn()
			if err != nil {
				okAll = false

				break
			}
			co := vfCO(append(vfVerOpts(ver), WithInsecureSkipVerify(true), WithConnectionIDGenerator(OnlySendCIDGenerator()))...)
			cc, err := ClientWithOptions(sc, raddr, co...)
			if err != nil {
				okAll = false

				break
			}
			_ = cc.SetDeadline(time.Now().Add(20 * time.Second))
			if err := cc.Handshake(); err != nil {
				res.Count("listener_client_handshake_failed", 1)
				res.Seen("listener_handshake_failures", ver+": "+vfErrNorm(err))
				okAll = false
				_ = cc.Close()

				break
			}
			conns = append(conns, cc)
			socks = append(socks, sc)
			if _, err := cc.Write([]byte(fmt.Sprintf("hello-%d-%d", round, i))); err != nil {
				okAll = false
			}
		}
		// map each client to its accepted connection through the first payload
		owner := map[int]*accepted{}
		if okAll {
			deadline := time.Now().Add(10 * time.Second)
			for len(owner) < clients && time.Now().Before(deadline) {
				amu.Lock()
				snap := append([]*accepted(nil), acc...)
				amu.Unlock()
				for _, a := range snap {
					select {
					case b := <-a.reads:
						var r, i int
						if _, err := fmt.Sscanf(string(b), "hello-%d-%d", &r, &i); err == nil && r == round {
							owner[i] = a
						}
					default:
					}
				}
				time.Sleep(5 * time.Millisecond)
			}
		}
		if !okAll || len(owner) < clients {
			res.Count("listener_rounds_incomplete", 1)
		} else {
			for hop := 0; hop < 4; hop++ {
				for i, cc := range conns {
					pl := []byte(fmt.Sprintf("moved-%d-%d-%d", round, i, hop))
					var werr error
					if hop == 0 {
						// first hop, before anybody migrated: the datagram leaves from the socket the next client
						// handshook from, an address the listener still has in its table as that client's
						socks[i].SendVia(socks[(i+1)%len(socks)], func() { _, werr = cc.Write(pl) })
					} else {
						if err := socks[i].Rebind(); err != nil {
							continue
						}
						_, werr = cc.Write(pl)
					}
					if werr != nil {
						res.Count("listener_write_errors", 1)

						continue
					}
					// the payload must surface on the owner and on nobody else
					gotOwner := false
					timeout := time.After(5 * time.Second)
				wait:
					for {
						select {
						case b := <-owner[i].reads:
							if bytes.Equal(b, pl) {
								gotOwner = true

								break wait
							}
						case <-timeout:
							break wait
						}
					}
					for j, a := range owner {
						if j == i {
							continue
						}
						select {
						case b := <-a.reads:
							if bytes.Equal(b, pl) {
								res.Violate("C15:listener-routed-to-other-connection:v"+ver, fmt.Sprintf("payload %q of client %d surfaced on the connection of client %d", pl, i, j), map[string]any{"round": round})
							}
						default:
						}
					}
					res.Count("listener_migrations_checked", 1)
					if gotOwner {
						res.Count("listener_migrations_delivered", 1)
					} else {
						res.Violate("C15:listener-did-not-route-by-cid:v"+ver+shape, fmt.Sprintf("payload %q sent from a fresh socket carrying the connection's %d-byte ID never surfaced on the owning connection", pl, cidLen), map[string]any{"round": round, "client": i, "hop": hop})
					}
				}
			}
		}
		for _, cc := range conns {
			_ = cc.Close()
		}
		_ = ln.Close()
		amu.Lock()
		for _, a := range acc {
			_ = a.conn.Close()
		}
		amu.Unlock()
	}
}
