//go:build verif

package dtls

// C07 Confidentiality. Passive wire-log monitor over generated sessions and over Write/handshake/
// retransmission/Close interleavings: (a) no emitted datagram contains, in clear, an application
// payload marker, a Finished verify_data or (DTLS 1.3) any handshake / post-handshake message after
// ServerHello; (b) plaintext-format records are only of the types the protocol sends in clear and
// application records never carry epoch 0; (c) injected epoch-0 application data is never delivered;
// (d) exporter output is not a member of the family of derivations computable from public values.

import (
	"bytes"
	"context"
	"crypto/sha256"
	"crypto/sha512"
	"fmt"
	"hash"
	"os"
	"sync"
	"sync/atomic"
	"testing"
	"testing/synctest"
	"time"

	dtlsstate "github.com/pion/dtls/v3/internal/state"
	ref "github.com/pion/dtls/v3/internal/zzverifref"
)

// vfSecretNeedles collects byte strings that must never appear in clear on the wire of this session.
func vfSecretNeedles(p *vfPair, payloads [][]byte) map[string][]byte {
	needles := map[string][]byte{}
	for i, pl := range payloads {
		if len(pl) >= 16 {
			needles[fmt.Sprintf("application payload %d", i)] = pl
		}
	}
	is13 := vfIs13(p.C.Conn)
	for _, side := range []*vfSide{p.C, p.S} {
		if st, err := dtlsstate.As12(side.Conn.state); err == nil && len(st.LocalVerifyData) >= 12 {
			needles["Finished.verify_data of "+side.Name] = st.LocalVerifyData
		}
		for _, it := range side.Conn.handshakeCache.VFItems() {
			if len(it.Data) < 12+12 {
				continue
			}
			body := it.Data[12:]
			if it.Typ == 20 {
				needles[fmt.Sprintf("Finished body (sender client=%v)", it.IsClient)] = body
			}
			if is13 && it.Epoch >= 2 {
				n := body
				if len(n) > 48 {
					n = n[:48]
				}
				// A short protected message can consist of nothing but an echo of what the hellos already said in
				// clear (EncryptedExtensions answering one offered extension is byte-for-byte a slice of the
				// ClientHello): those bytes on the wire prove nothing, the record-format rules below still apply.
				if vfInPublicHello(p, n) {
					continue
				}
				needles[fmt.Sprintf("DTLS 1.3 %s body (epoch %d)", vfHSName(uint8(it.Typ)), it.Epoch)] = n
			}
		}
	}

	return needles
}

// vfInPublicHello: the bytes occur in a handshake message either side legitimately sent at epoch 0.
func vfInPublicHello(p *vfPair, n []byte) bool {
	for _, side := range []*vfSide{p.C, p.S} {
		for _, it := range side.Conn.handshakeCache.VFItems() {
			if it.Epoch == 0 && bytes.Contains(it.Data, n) {
				return true
			}
		}
	}

	return false
}

// vfWireConfidentiality scans every emission of the session.
func vfWireConfidentiality(res *vfResult, p *vfPair, cfg vfCfg, payloads [][]byte, scenario string, replay any) {
	needles := vfSecretNeedles(p, payloads)
	is13 := vfIs13(p.C.Conn)
	ver := "dtls12"
	if is13 {
		ver = "dtls13"
	}
	// CID lengths from the configuration: a failed handshake resets the connection's CID state
	cidOf := map[string]int{"c": max(cfg.CIDs, 0), "s": max(cfg.CIDc, 0)}
	for _, w := range p.Net.Emissions("") {
		res.Count("datagrams_scanned", 1)
		// Needles taken from DTLS 1.3 protected handshake messages are not searched inside the records that are
		// legitimately in clear (epoch-0 ClientHello / ServerHello / HelloRetryRequest fragments): an
		// EncryptedExtensions body is an echo of public values and, together with a fragment header, can coincide
		// with bytes of a hello (seen: fragment_length 0x000d followed by the client's use_srtp offer). A protected
		// message that really leaves in clear is a record of its own and is caught here or by the record-format rules.
		residue := w.Data
		if is13 {
			if recs, ok := vfParseDatagram(w.Data, cidOf[w.From]); ok {
				residue = nil
				for _, rc := range recs {
					if !rc.Unified && rc.Type == 22 && rc.Epoch == 0 {
						if h, _, okh := vfParseHS(rc.Body); okh && (h.Type == 1 || h.Type == 2) {
							residue = append(residue, 0xff) // separator: matches do not span a removed record
							continue
						}
					}
					residue = append(residue, rc.Raw...)
				}
			}
		}
		for name, nd := range needles {
			hay := w.Data
			if vfNeedleClass(name) == "dtls13-protected-handshake" {
				hay = residue
			}
			if bytes.Contains(hay, nd) {
				res.Violate(fmt.Sprintf("C07:secret-in-clear:%s:%s", ver, vfNeedleClass(name)),
					fmt.Sprintf("%s: datagram #%d emitted by %s contains %s in clear (%s) [needle %s]", scenario, w.Idx, w.From, name, vfDescribe(w.Data, cidOf[w.From]), vfHex(nd[:min(len(nd), 24)])), replay)
			}
		}
		recs, ok := vfParseDatagram(w.Data, cidOf[w.From])
		if !ok {
			res.Count("unparsed_emissions", 1)
			res.Seen("unparsed_emission_kinds", fmt.Sprintf("%s cid=%d len=%d head=%s desc=%s", ver, cidOf[w.From], len(w.Data), vfHex(w.Data[:min(len(w.Data), 24)]), vfDescribe(w.Data, cidOf[w.From])))

			continue
		}
		for _, rc := range recs {
			res.Count("records_scanned", 1)
			if rc.Unified {
				continue
			}
			switch {
			case rc.Type == 25 && rc.Epoch == 0 && vfInnerType(rc.Body) == 21:
				// An alert sent before any keys exist, framed as tls12_cid because the connection ID was already
				// negotiated: the inner plaintext is an alert, nothing confidential. Counted (format oddity).
				res.Count("cid_framed_plaintext_alert_epoch0", 1)
			case (rc.Type == 23 || rc.Type == 25) && rc.Epoch == 0:
				res.Violate(fmt.Sprintf("C07:application-record-epoch0:%s", ver),
					fmt.Sprintf("%s: %s emitted a record of type %d with epoch 0", scenario, w.From, rc.Type), replay)
			case rc.Epoch == 0 && rc.Type == 22:
				h, _, okh := vfParseHS(rc.Body)
				if !okh {
					continue
				}
				allowed := map[uint8]bool{1: true, 2: true, 3: true, 11: true, 12: true, 13: true, 14: true, 15: true, 16: true}
				if is13 {
					allowed = map[uint8]bool{1: true, 2: true}
				}
				if !allowed[h.Type] {
					res.Violate(fmt.Sprintf("C07:handshake-message-in-clear:%s:%s", ver, vfHSName(h.Type)),
						fmt.Sprintf("%s: %s emitted %s as an unprotected epoch-0 record", scenario, w.From, vfHSName(h.Type)), replay)
				}
			case rc.Epoch != 0 && rc.Type != 20 && is13:
				// plaintext-format record with a non-zero epoch on a DTLS 1.3 connection: only alerts are tolerated
				if rc.Type != 21 {
					res.Violate(fmt.Sprintf("C07:plaintext-format-record:%s:type%d", ver, rc.Type),
						fmt.Sprintf("%s: %s emitted a legacy-format record of type %d epoch %d on a DTLS 1.3 connection", scenario, w.From, rc.Type, rc.Epoch), replay)
				} else {
					res.Count("dtls13_plaintext_alerts_nonzero_epoch", 1)
				}
			}
		}
	}
}

func vfNeedleClass(name string) string {
	switch {
	case len(name) >= 19 && name[:19] == "application payload":
		return "application-data"
	case len(name) >= 8 && name[:8] == "Finished":
		return "finished"
	default:
		return "dtls13-protected-handshake"
	}
}

// vfPublicDerivations: the family F of values computable from the cleartext hellos.
func vfPublicDerivations(label string, cr, sr []byte, n int) map[string][]byte {
	out := map[string][]byte{}
	keys := map[string][]byte{
		"empty": {}, "zeros32": make([]byte, 32), "zeros48": make([]byte, 48), "client_random": cr, "server_random": sr,
		"cr|sr": append(append([]byte{}, cr...), sr...), "sr|cr": append(append([]byte{}, sr...), cr...),
	}
	seeds := map[string][]byte{
		"label|cr|sr": append(append([]byte(label), cr...), sr...),
		"label|sr|cr": append(append([]byte(label), sr...), cr...),
	}
	for hn, hf := range map[string]func() hash.Hash{"sha256": sha256.New, "sha384": sha512.New384} {
		for kn, k := range keys {
			for sn, s := range seeds {
				out[fmt.Sprintf("P_%s(key=%s, %s)", hn, kn, sn)] = ref.PHash(hf, k, s, n)
			}
			for _, prefix := range []string{"dtls13", "tls13 "} {
				if len(k) == 0 {
					k = make([]byte, hf().Size())
				}
				d := ref.Exporter13(hf, prefix, k, label, nil, n)
				out[fmt.Sprintf("Exporter13_%s(%q, key=%s)", hn, prefix, kn)] = d
			}
		}
	}

	return out
}

func vfC07Exporter(res *vfResult, p *vfPair, scenario string) {
	cm := vfCommon(p.C.Conn)
	cr := cm.LocalRandom.MarshalFixed()
	sr := cm.RemoteRandom.MarshalFixed()
	ver := "dtls12"
	if vfIs13(p.C.Conn) {
		ver = "dtls13"
	}
	for _, side := range []*vfSide{p.C, p.S} {
		st, ok := side.Conn.ConnectionState()
		if !ok {
			continue
		}
		for _, label := range []string{"EXTRACTOR-dtls_srtp", "EXPORTER-verif-a"} {
			out, err := st.ExportKeyingMaterial(label, nil, 40)
			if err != nil {
				res.Count("exporter_errors", 1)

				continue
			}
			res.Count("exporter_outputs_checked", 1)
			for name, d := range vfPublicDerivations(label, cr[:], sr[:], 40) {
				if bytes.Equal(d, out) {
					res.Violate("C07:exporter-computable-from-cleartext:"+ver,
						fmt.Sprintf("%s: ExportKeyingMaterial(%q) on %s equals %s, which needs no secret", scenario, label, side.Name, name), nil)
				}
			}
		}
		// the same question for a connection restored from the serialised state of this one (DTLS 1.2 only: the
		// restored Conn hands the application exporter output too)
		if ver != "dtls12" {
			continue
		}
		raw, err := st.MarshalBinary()
		if err != nil {
			res.Count("exporter_restore_failed", 1)
			res.Seen("exporter_restore_failures", "MarshalBinary: "+vfErrNorm(err))

			continue
		}
		var st2 State
		if err := st2.UnmarshalBinary(raw); err != nil {
			res.Count("exporter_restore_failed", 1)
			res.Seen("exporter_restore_failures", "UnmarshalBinary: "+vfErrNorm(err))

			continue
		}
		n2 := vfNewNet()
		nc, err := ResumeWithOptions(&st2, n2.Endpoint("restored", vfClientAddr), vfAddr(vfServerAddr))
		if err != nil {
			res.Count("exporter_restore_failed", 1)
			res.Seen("exporter_restore_failures", "ResumeWithOptions: "+vfErrNorm(err))

			continue
		}
		if err := nc.Handshake(); err != nil { // no I/O for a restored connection
			res.Count("exporter_restore_failed", 1)
			res.Seen("exporter_restore_failures", "Handshake of the restored connection: "+vfErrNorm(err))
			_ = nc.Close()

			continue
		}
		rst, ok := nc.ConnectionState()
		if !ok {
			res.Count("exporter_restore_failed", 1)
			res.Seen("exporter_restore_failures", "ConnectionState of the restored connection unavailable")
		} else {
			for _, label := range []string{"EXTRACTOR-dtls_srtp", "EXPORTER-verif-a"} {
				out, err := rst.ExportKeyingMaterial(label, nil, 40)
				if err != nil {
					res.Count("exporter_errors", 1)

					continue
				}
				res.Count("exporter_outputs_checked_on_restored_connection", 1)
				for name, d := range vfPublicDerivations(label, cr[:], sr[:], 40) {
					if bytes.Equal(d, out) {
						res.Violate("C07:exporter-computable-from-cleartext:restored:"+ver,
							fmt.Sprintf("%s: ExportKeyingMaterial(%q) on the connection restored from %s's exported state equals %s, which needs no secret",
								scenario, label, side.Name, name), nil)
					}
				}
			}
		}
		_ = nc.Close()
	}
}

// vfInnerType: the real content type of an unencrypted DTLSInnerPlaintext (last non-zero byte).
func vfInnerType(b []byte) uint8 {
	for i := len(b) - 1; i >= 0; i-- {
		if b[i] != 0 {
			return b[i]
		}
	}

	return 0
}

// vfC07Session: one generated session scanned passively, plus epoch-0 application data injection.
func vfC07Session(t *testing.T, res *vfResult, idx int, suite vfSuiteInfo) {
	r := vfRand("C07", idx)
	cfg := vfGenCompatCfg(r, suite)
	cfg.Store = false
	mask := vfMask{}
	if idx%2 == 1 {
		mask = vfRandMask(r, 8, 0.25, "x2sh")
	}
	n := vfNewNet()
	mask.Install(n)
	co, so := cfg.Options(nil, nil)
	p, err := vfNewPair(n, co, so)
	res.Eval(1)
	if err != nil {
		return
	}
	// writers are started BEFORE the handshake: Write must not emit anything in clear while it is in progress
	var payloads [][]byte
	var mu sync.Mutex
	var wg sync.WaitGroup
	writers := 1 + idx%4
	// A goroutine parked on the connection's handshake mutex is not "durably blocked" for synctest and
	// would freeze virtual time, so early writers are only used when no retransmission timer is needed.
	startWriters := func() {
		for _, side := range []*vfSide{p.C, p.S} {
			for g := 0; g < writers; g++ {
				pl := append([]byte(fmt.Sprintf("c07-%d-%s-%d-", idx, side.Name, g)), vfRandBytes(r, 24)...)
				mu.Lock()
				payloads = append(payloads, pl)
				mu.Unlock()
				wg.Add(1)
				go func(s *vfSide, pl []byte) {
					defer wg.Done()
					_ = s.Conn.SetWriteDeadline(time.Now().Add(4 * time.Minute))
					_, _ = s.Conn.Write(pl)
				}(side, pl)
			}
		}
	}
	early := mask.Faults() == 0
	// (sessions that get a record injected mid-handshake start their writers afterwards: the handshake may fail,
	// and writers parked on the handshake mutex would then freeze the bubble's clock)
	mid := early && idx%3 == 0
	if mid {
		early = false
	}
	if early {
		startWriters()
		res.Count("sessions_with_writers_before_handshake", 1)
	}
	// epoch-0 application data injected during the handshake and after it
	marker := append([]byte("epoch0-appdata-"), vfRandBytes(r, 16)...)
	inj := vfLegacyRecord(23, 0xfefd, 0, uint64(40+r.IntN(10)), nil, -1, marker)
	// every third perfect-network session: the same kind of record, with its own marker, arrives in the middle of
	// the handshake (after the k-th datagram for the victim)
	var midMarker []byte
	midVictim := p.C
	if mid {
		midMarker = append([]byte("epoch0-midhandshake-"), vfRandBytes(r, 16)...)
		midRec := vfLegacyRecord(23, 0xfefd, 0, uint64(60+r.IntN(10)), nil, -1, midMarker)
		if idx%2 == 0 {
			midVictim = p.S
		}
		k := 1 + (idx/6)%5
		var cnt atomic.Int64
		n.SetOnSend(func(n *vfNet, w *vfWire) {
			n.Deliver(w.Dst, w.Data, vfAddrOf(w.From))
			if w.Dst == string(midVictim.EP.addr) && cnt.Add(1) == int64(k) {
				n.Deliver(w.Dst, midRec, vfAddrOf(w.From))
			}
		})
		res.Count("epoch0_appdata_injected_mid_handshake", 1)
	}
	midCheck := func() {
		if midMarker == nil {
			return
		}
		buf := make([]byte, 4096)
		_ = midVictim.Conn.SetReadDeadline(time.Now().Add(200 * time.Millisecond))
		for i := 0; i < 4; i++ {
			nr, err := midVictim.Conn.Read(buf)
			if err != nil {
				break
			}
			if bytes.Contains(buf[:nr], midMarker[:24]) {
				res.Violate("C07:epoch0-application-data-delivered:mid-handshake:"+map[bool]string{true: "dtls13", false: "dtls12"}[vfIs13(p.C.Conn)],
					fmt.Sprintf("session/%s: application data that arrived in an unprotected epoch-0 record during the handshake was returned by Read on %s", cfg.FP(), midVictim.Name), nil)
			}
		}
		_ = midVictim.Conn.SetReadDeadline(time.Time{})
	}
	cerr, serr := p.Handshake(5 * time.Minute)
	if cerr != nil || serr != nil {
		res.Count("handshake_failed", 1)
		if midMarker != nil {
			res.Count("mid_handshake_injection_ended_handshake", 1)
		}
		wg.Wait()
		vfWireConfidentiality(res, p, cfg, payloads, "failed-handshake/"+cfg.FP(), map[string]any{"cfg": cfg, "mask": mask, "case": idx})
		p.Close()
		synctest.Wait()

		return
	}
	n.SetOnSend(nil)
	midCheck()
	p.C.StartPump()
	p.S.StartPump()
	if !early {
		startWriters()
	}
	wg.Wait()
	time.Sleep(100 * time.Millisecond)
	synctest.Wait()
	// (c) inject on a copy of the situation: after everything else was observed, since it may close the connection
	vfWireConfidentiality(res, p, cfg, payloads, "session/"+cfg.FP(), map[string]any{"cfg": cfg, "mask": mask, "case": idx})
	vfC07Exporter(res, p, "session/"+cfg.FP())
	recheckExporter := vfC07ExporterSnapshots(p)
	target := p.S
	if idx%2 == 0 {
		target = p.C
	}
	// first: unprotected application data in records that merely claim a protected epoch (1 .. read epoch + 1)
	{
		from := vfAddrOf(map[bool]string{true: "c", false: "s"}[target == p.S])
		cur := int(vfCommon(target.Conn).RemoteEpoch())
		claimed := map[int][]byte{}
		for e := 1; e <= cur+1 && e <= 8; e++ {
			m := append([]byte(fmt.Sprintf("unprotected-claiming-epoch-%d-", e)), vfRandBytes(r, 12)...)
			claimed[e] = m
			n.Deliver(string(target.EP.addr), vfLegacyRecord(23, 0xfefd, uint16(e), uint64(7000+e), nil, -1, m), from)
			res.Count("unprotected_appdata_claiming_epoch_injected", 1)
		}
		time.Sleep(50 * time.Millisecond)
		synctest.Wait()
		for _, rd := range target.ReadsSnapshot() {
			for e, m := range claimed {
				if bytes.Contains(rd, m[:30]) {
					res.Violate(fmt.Sprintf("C07:unprotected-application-data-delivered:claimed-epoch-%s:%s", map[bool]string{true: "current-or-later", false: "earlier"}[e >= cur],
						map[bool]string{true: "dtls13", false: "dtls12"}[vfIs13(p.C.Conn)]),
						fmt.Sprintf("session/%s: application data that arrived in an unprotected record claiming epoch %d (read epoch %d) was returned by Read on %s", cfg.FP(), e, cur, target.Name), nil)
				}
			}
		}
	}
	n.Deliver(string(target.EP.addr), inj, vfAddrOf(map[bool]string{true: "c", false: "s"}[target == p.S]))
	time.Sleep(50 * time.Millisecond)
	synctest.Wait()
	res.Count("epoch0_appdata_injected", 1)
	for _, rd := range target.ReadsSnapshot() {
		if bytes.Contains(rd, marker[:20]) {
			res.Violate("C07:epoch0-application-data-delivered:"+map[bool]string{true: "dtls13", false: "dtls12"}[vfIs13(p.C.Conn)],
				fmt.Sprintf("session/%s: application data that arrived in an unprotected epoch-0 record was returned by Read on %s", cfg.FP(), target.Name), nil)
		}
	}
	res.Count("sessions_scanned", 1)
	res.Count("sessions/"+suite.Name, 1)
	res.NonTrivial(fmt.Sprintf("%s/%d", cfg.FP(), idx%2))
	if res.Get("samples_taken") < 6 {
		res.Count("samples_taken", 1)
		res.Sample(map[string]any{"cfg": cfg.FP(), "mask": mask.String(), "datagrams": len(n.Emissions("")), "payloads": len(payloads), "writers_per_side": writers})
	}
	p.Close()
	synctest.Wait()
	recheckExporter(res, "session/"+cfg.FP())
}

// vfC07ExporterSnapshots takes each side's ConnectionState and its exporter output while the session is up and returns
// a function to call after the connections were closed: a snapshot the application still holds is a value of its own,
// and what it exports then must still need the secret - not the output of a key that Close has wiped, which anyone
// could compute from the hello randoms.
func vfC07ExporterSnapshots(p *vfPair) func(*vfResult, string) {
	type snap struct {
		side string
		st   State
		out  map[string][]byte
	}
	labels := []string{"EXTRACTOR-dtls_srtp", "EXPORTER-verif-a"}
	snaps := []*snap{}
	for _, side := range []*vfSide{p.C, p.S} {
		st, ok := side.Conn.ConnectionState()
		if !ok {
			continue
		}
		sn := &snap{side: side.Name, st: st, out: map[string][]byte{}}
		for _, l := range labels {
			if o, err := sn.st.ExportKeyingMaterial(l, nil, 40); err == nil {
				sn.out[l] = o
			}
		}
		snaps = append(snaps, sn)
	}
	ver := "dtls12"
	if vfIs13(p.C.Conn) {
		ver = "dtls13"
	}
	cm := vfCommon(p.C.Conn)
	cr := cm.LocalRandom.MarshalFixed()
	sr := cm.RemoteRandom.MarshalFixed()

	return func(res *vfResult, scenario string) {
		for _, sn := range snaps {
			for _, l := range labels {
				want, had := sn.out[l]
				if !had {
					continue
				}
				got, err := sn.st.ExportKeyingMaterial(l, nil, 40)
				res.Count("exporter_snapshots_rechecked_after_close", 1)
				if err != nil {
					res.Count("exporter_snapshot_errors_after_close", 1)

					continue
				}
				if !bytes.Equal(got, want) {
					res.Count("exporter_snapshot_output_changed_after_close", 1)
				}
				for name, d := range vfPublicDerivations(l, cr[:], sr[:], 40) {
					if bytes.Equal(d, got) {
						res.Violate("C07:exporter-of-held-snapshot-computable-from-cleartext-after-close:"+ver,
							fmt.Sprintf("%s: ExportKeyingMaterial(%q) on a ConnectionState taken from %s before Close equals %s once the connection is closed, which needs no secret",
								scenario, l, sn.side, name), nil)
					}
				}
			}
		}
	}
}

// vfC07Schedule: Write racing handshake completion, retransmission, Close and alerts.
// Runs on the real scheduler (a writer parked on the handshake mutex would freeze a bubble's clock).
func vfC07Schedule(res *vfResult, idx int) {
	r := vfRand("C07/sched", idx)
	vs := vfC02Variants()
	v := vs[idx%len(vs)]
	if v.Resumed {
		v = vs[0]
	}
	n := vfNewNet()
	mask := vfRandMask(r, 10, 0.35, "x2")
	mask.Install(n)
	co, so := v.Cfg.Options(nil, nil)
	co = append(co, WithFlightInterval(25*time.Millisecond))
	so = append(so, WithFlightInterval(25*time.Millisecond))
	p, err := vfNewPair(n, co, so)
	res.Eval(1)
	if err != nil {
		return
	}
	var payloads [][]byte
	var wg sync.WaitGroup
	ctx, cancel := context.WithTimeout(context.Background(), 20*time.Second)
	defer cancel()
	var hs sync.WaitGroup
	hs.Add(2)
	go func() { defer hs.Done(); p.C.Err = p.C.Conn.HandshakeContext(ctx) }()
	go func() { defer hs.Done(); p.S.Err = p.S.Conn.HandshakeContext(ctx) }()
	wg.Add(1)
	go func() {
		// an application closes a connection whose handshake failed. Without this a Write that was
		// issued before the handshake re-runs it under context.Background() once the failed attempt
		// releases the handshake mutex and never returns (write deadlines do not bound the implicit
		// handshake; see DESIGN.md, C16 observations).
		defer wg.Done()
		hs.Wait()
		if p.C.Err != nil {
			_ = p.C.Conn.Close()
		}
		if p.S.Err != nil {
			_ = p.S.Conn.Close()
		}
	}()
	for _, side := range []*vfSide{p.C, p.S} {
		for g := 0; g < 3; g++ {
			pl := append([]byte(fmt.Sprintf("c07s-%d-%s-%d-", idx, side.Name, g)), vfRandBytes(r, 24)...)
			payloads = append(payloads, pl)
			delay := time.Duration(r.IntN(250)) * time.Millisecond
			wg.Add(1)
			go func(s *vfSide, pl []byte, d time.Duration) {
				defer wg.Done()
				time.Sleep(d)
				_ = s.Conn.SetWriteDeadline(time.Now().Add(10 * time.Second))
				_, _ = s.Conn.Write(pl)
			}(side, pl, delay)
		}
	}
	// a racing Close on one side at a PRNG instant, and a forged plaintext alert towards the other
	closer := p.C
	other := p.S
	if idx%2 == 0 {
		closer, other = p.S, p.C
	}
	closeAt := time.Duration(r.IntN(400)) * time.Millisecond
	wg.Add(1)
	go func() {
		defer wg.Done()
		time.Sleep(closeAt)
		if idx%3 == 0 {
			n.Deliver(string(other.EP.addr), vfLegacyRecord(21, 0xfefd, 0, 60, nil, -1, []byte{2, 40}), vfAddrOf(closer.Name))
		}
		_ = closer.Conn.Close()
	}()
	wg.Wait()
	time.Sleep(30 * time.Millisecond)
	vfWireConfidentiality(res, p, v.Cfg, payloads, fmt.Sprintf("schedule/%s/%s/closeAt=%v", v.Name, mask.String(), closeAt),
		map[string]any{"variant": v.Name, "mask": mask, "case": idx})
	res.Count("schedules_scanned", 1)
	res.NonTrivial(fmt.Sprintf("sched/%s/%s/%v", v.Name, mask.String(), closeAt))
	p.Close()
}

// vfC07ResumeUnfinished: the State a VerifyConnection callback is handed (or ConnectionState() polled during the
// handshake) describes a connection that has no protected epoch yet. If it can be serialised and resumed, a Write on
// the result must not put the payload on the wire in an unprotected (epoch 0) application record.
func vfC07ResumeUnfinished(t *testing.T, res *vfResult, side string, sn string) {
	res.Eval(1)
	cfg := vfBaseCfg(vfSuiteByName(sn), "ecdsa")
	co, so := cfg.Options(nil, nil)
	var mu sync.Mutex
	var snaps [][]byte
	grab := WithVerifyConnection(func(st *State) error {
		if raw, err := st.MarshalBinary(); err == nil {
			mu.Lock()
			snaps = append(snaps, raw)
			mu.Unlock()
		}

		return nil
	})
	if side == "c" {
		co = append(co, grab)
	} else {
		so = append(so, grab)
	}
	n := vfNewNet()
	p, err := vfNewPair(n, co, so)
	if err != nil {
		res.Count("config_rejected", 1)

		return
	}
	ce, se := p.Handshake(time.Minute)
	p.Close()
	synctest.Wait()
	mu.Lock()
	raws := snaps
	mu.Unlock()
	id := fmt.Sprintf("resume-unfinished/%s/%s", sn, side)
	res.NonTrivial(id)
	if ce != nil || se != nil || len(raws) == 0 {
		res.Count("resume_unfinished_no_snapshot", 1)

		return
	}
	for _, raw := range raws {
		var st State
		if st.UnmarshalBinary(raw) != nil {
			res.Count("resume_unfinished_refused", 1)

			continue
		}
		n2 := vfNewNet()
		ep := n2.Endpoint("x", vfClientAddr)
		n2.Endpoint("y", vfServerAddr)
		rc, err := ResumeWithOptions(&st, ep, vfAddr(vfServerAddr))
		if err != nil {
			res.Count("resume_unfinished_refused", 1)

			continue
		}
		res.Count("resume_unfinished_accepted", 1)
		marker := []byte("written-on-a-connection-resumed-from-an-unfinished-handshake")
		_ = rc.SetWriteDeadline(time.Now().Add(5 * time.Second))
		_, werr := rc.Write(marker)
		synctest.Wait()
		for _, w := range n2.Emissions("x") {
			recs, _ := vfParseDatagram(w.Data, 0)
			for _, rcd := range recs {
				if !rcd.Unified && (rcd.Type == 23 || rcd.Type == 25) && rcd.Epoch == 0 {
					res.Violate("C07:application-record-epoch0:resumed-from-unfinished-handshake",
						fmt.Sprintf("%s: a State taken during the handshake (VerifyConnection callback) was serialised and resumed; Write (err=%v) emitted an application record with epoch 0", id, werr), nil)
				}
			}
			if bytes.Contains(w.Data, marker) {
				res.Violate("C07:secret-in-clear:resumed-from-unfinished-handshake:application-data",
					fmt.Sprintf("%s: the payload written on the connection resumed from an unfinished handshake left in clear", id), nil)
			}
		}
		_ = rc.Close()
		synctest.Wait()
	}
}

func TestVF_C07(t *testing.T) {
	vfGetPKI()
	res := vfNewResult("C07", "passive wire scan of generated sessions (configuration generator per suite, perfect and faulted delivery, 1-4 writer "+
		"goroutines per side started before the handshake) and of schedule runs (Writes at PRNG instants during a faulted handshake, racing Close and "+
		"forged alerts): every emitted datagram is searched for payload markers, verify_data and DTLS 1.3 protected handshake bodies, every record "+
		"header is classified; epoch-0 application data is injected; exporter outputs are compared with the public-derivation family. "+
		"Distinct = distinct (configuration, schedule)")
	res.Assume("secrecy itself is not observable: (d) refutes membership in an explicit finite family of derivations that need no secret",
		"markers are >= 16 random bytes, so a match inside ciphertext has negligible probability")
	suites := vfAllSuites()
	if vfEnv().Replay != "" {
		var rf struct {
			Replay struct {
				Case *int `json:"case"`
			} `json:"replay"`
		}
		vfLoadReplay(t, &rf)
		if rf.Replay.Case != nil {
			// (key pairs and record-number masks are fresh on every run: the configuration and fault mask are replayed)
			vfDumpWire = os.Getenv("VERIF_DUMP") != ""
			i := *rf.Replay.Case
			for k := 0; k < 20 && len(res.Violations) == 0; k++ {
				synctest.Test(t, func(t *testing.T) { vfC07Session(t, res, i, suites[i%len(suites)]) })
			}
			res.NonTrivial("replay-extra")
			res.Sample("replay")
			res.Finish(t)

			return
		}
	}
	per := vfPick(40, 1500)
	vfBubbles(t, per*len(suites), func(t *testing.T, i int) { vfC07Session(t, res, i, suites[i%len(suites)]) })
	ru := []string{"ECDSA-GCM128", "ECDSA-CBC", "ECDSA-CHACHA"}
	vfBubbles(t, 2*len(ru), func(t *testing.T, i int) { vfC07ResumeUnfinished(t, res, []string{"c", "s"}[i%2], ru[i/2]) })
	ns := vfPick(300, 8000)
	vfParallel(ns, func(_, i int) { vfC07Schedule(res, i) })
	for _, s := range suites {
		if res.Get("sessions/"+s.Name) == 0 {
			res.Inconc("no session scanned for suite " + s.Name)
		}
	}
	res.Floor("records_scanned", 5000)
	res.Floor("exporter_outputs_checked", 100)
	res.Floor("epoch0_appdata_injected", 100)
	res.Finish(t)
}
