//go:build verif

package dtls

// C12 Fragmentation and reassembly. Differential monitor: the library's FragmentBuffer (driven the
// way conn.go drives it: Push a record, then Pop until empty) against an independent byte-coverage
// reassembler, over enumerated messages x partitions (with zero-length and duplicated fragments) x
// arrival permutations x interleavings of consecutive message sequences; plus the sender's
// fragmentHandshake over every (length, MTU); plus end-to-end handshakes with tiny MTUs and
// reordered fragments.

import (
	"bytes"
	"encoding/binary"
	"fmt"
	"math/rand/v2"
	"sort"
	"strings"
	"sync"
	"testing"
	"testing/synctest"
	"time"

	dtlsfragmentbuffer "github.com/pion/dtls/v3/internal/fragmentbuffer"
	"github.com/pion/dtls/v3/pkg/protocol/handshake"
)

type vfFrag struct {
	MsgSeq uint16
	Total  int
	Off    int
	Len    int
}

func (f vfFrag) String() string { return fmt.Sprintf("m%d[%d+%d/%d]", f.MsgSeq, f.Off, f.Len, f.Total) }

func vfMsgBody(seq uint16, n int) []byte {
	b := make([]byte, n)
	for i := range b {
		b[i] = byte(int(seq)*37 + i*11 + 1)
	}

	return b
}

func vfEncodeFrag(f vfFrag) []byte {
	h := make([]byte, 12+f.Len)
	h[0] = 20 // Finished: body is opaque
	h[1], h[2], h[3] = byte(f.Total>>16), byte(f.Total>>8), byte(f.Total)
	binary.BigEndian.PutUint16(h[4:], f.MsgSeq)
	h[6], h[7], h[8] = byte(f.Off>>16), byte(f.Off>>8), byte(f.Off)
	h[9], h[10], h[11] = byte(f.Len>>16), byte(f.Len>>8), byte(f.Len)
	copy(h[12:], vfMsgBody(f.MsgSeq, f.Total)[f.Off:f.Off+f.Len])

	return h
}

func vfEncodeRecord(recSeq uint64, frags []vfFrag) []byte {
	var body []byte
	for _, f := range frags {
		body = append(body, vfEncodeFrag(f)...)
	}
	h := make([]byte, 13)
	h[0] = 22
	h[1], h[2] = 0xfe, 0xfd
	h[5], h[6], h[7], h[8], h[9], h[10] = byte(recSeq>>40), byte(recSeq>>32), byte(recSeq>>24), byte(recSeq>>16), byte(recSeq>>8), byte(recSeq)
	binary.BigEndian.PutUint16(h[11:], uint16(len(body)))

	return append(h, body...)
}

// vfReasmModel: independent reference (byte-coverage bitmap per message sequence).
type vfReasmModel struct {
	next    uint16
	cover   map[uint16][]bool
	seenAny map[uint16]bool
	total   map[uint16]int
}

func vfNewReasmModel() *vfReasmModel {
	return &vfReasmModel{cover: map[uint16][]bool{}, seenAny: map[uint16]bool{}, total: map[uint16]int{}}
}

// push returns whether the fragment belongs to an already delivered message.
func (m *vfReasmModel) push(f vfFrag) (retransmit bool) {
	r, _ := m.pushNew(f)

	return r
}

// pushNew also reports whether the fragment brought something not seen before (a byte, or the first sight of an empty message).
func (m *vfReasmModel) pushNew(f vfFrag) (retransmit, brought bool) {
	if f.MsgSeq < m.next {
		return true, false
	}
	if _, ok := m.cover[f.MsgSeq]; !ok {
		m.cover[f.MsgSeq] = make([]bool, f.Total)
		m.total[f.MsgSeq] = f.Total
	}
	if !m.seenAny[f.MsgSeq] && f.Total == 0 {
		brought = true
	}
	m.seenAny[f.MsgSeq] = true
	c := m.cover[f.MsgSeq]
	for i := f.Off; i < f.Off+f.Len && i < len(c); i++ {
		if !c[i] {
			brought = true
		}
		c[i] = true
	}

	return false, brought
}

// pop returns the message sequences that become deliverable now, in order.
func (m *vfReasmModel) pop() []uint16 {
	var out []uint16
	for {
		if !m.seenAny[m.next] {
			return out
		}
		for _, b := range m.cover[m.next] {
			if !b {
				return out
			}
		}
		out = append(out, m.next)
		m.next++
	}
}

// vfReasmRun drives the library with the arrival sequence (records = groups of fragments) and
// compares with the model after every record. Returns "" or a description of the first deviation.
func vfReasmRun(records [][]vfFrag, totals map[uint16]int) (dev string, class string) {
	fb := dtlsfragmentbuffer.New()
	m := vfNewReasmModel()
	delivered := 0
	for ri, rec := range records {
		buf := vfEncodeRecord(uint64(ri), rec)
		wantRetransmit, broughtNew := false, false
		for _, f := range rec {
			r, nw := m.pushNew(f)
			if r {
				wantRetransmit = true
			}
			if nw {
				broughtNew = true
			}
		}
		isHS, isRetransmit, err := fb.Push(buf)
		if err != nil {
			return fmt.Sprintf("Push(record %d) error: %v", ri, err), "push-error"
		}
		if !isHS {
			return fmt.Sprintf("Push(record %d) did not recognise a handshake record", ri), "not-handshake"
		}
		// fragments of an already delivered message make the record a retransmission; a record that brings new bytes
		// of a pending message (and nothing of a delivered one) is new data; a record that only repeats bytes already
		// held for a pending message may be classified either way (the statement is silent on it)
		if wantRetransmit && !isRetransmit {
			return fmt.Sprintf("record %d carries a fragment of an already delivered message but was not flagged as a retransmission", ri), "retransmit-flag"
		}
		if !wantRetransmit && broughtNew && isRetransmit {
			return fmt.Sprintf("record %d brings new bytes of a pending message but was flagged as a retransmission", ri), "retransmit-flag"
		}
		want := m.pop()
		var got [][]byte
		for out, _ := fb.Pop(); out != nil; out, _ = fb.Pop() {
			got = append(got, out)
			if len(got) > 10 {
				return "Pop does not terminate", "pop-loop"
			}
		}
		if len(got) > len(want) {
			return fmt.Sprintf("after record %d the library surfaced %d message(s), reference %d (a message surfaced early or twice)", ri, len(got), len(want)), "early-or-duplicate"
		}
		for i, g := range got {
			seq := want[i]
			if len(g) < 12 {
				return "surfaced message shorter than a header", "short"
			}
			if binary.BigEndian.Uint16(g[4:]) != seq {
				return fmt.Sprintf("surfaced message_seq %d, expected %d", binary.BigEndian.Uint16(g[4:]), seq), "order"
			}
			if !bytes.Equal(g[12:], vfMsgBody(seq, totals[seq])) {
				return fmt.Sprintf("message %d reassembled to different bytes", seq), "content"
			}
			if g[6] != 0 || g[7] != 0 || g[8] != 0 || int(g[9])<<16|int(g[10])<<8|int(g[11]) != totals[seq] {
				return fmt.Sprintf("message %d surfaced with a fragment header (off/len not 0/total)", seq), "header"
			}
		}
		if len(got) < len(want) {
			// the library may lag only if later input could still complete it: not the case, all bytes are in
			return fmt.Sprintf("after record %d message %d is complete (all bytes received) but was not surfaced", ri, want[len(got)]), "not-surfaced"
		}
		delivered += len(got)
	}
	_ = delivered

	return "", ""
}

// vfPartitions enumerates the compositions of n into at most k parts (n=0 -> one empty part).
func vfPartitions(n, k int) [][]int {
	if n == 0 {
		return [][]int{{0}}
	}
	var out [][]int
	var rec func(rem, parts int, cur []int)
	rec = func(rem, parts int, cur []int) {
		if rem == 0 {
			out = append(out, append([]int(nil), cur...))

			return
		}
		if parts == 0 {
			return
		}
		for l := 1; l <= rem; l++ {
			rec(rem-l, parts-1, append(cur, l))
		}
	}
	rec(n, k, nil)

	return out
}

func vfPermutations(n int) [][]int {
	var out [][]int
	p := make([]int, n)
	for i := range p {
		p[i] = i
	}
	var rec func(k int)
	rec = func(k int) {
		if k == n {
			out = append(out, append([]int(nil), p...))

			return
		}
		for i := k; i < n; i++ {
			p[k], p[i] = p[i], p[k]
			rec(k + 1)
			p[k], p[i] = p[i], p[k]
		}
	}
	rec(0)

	return out
}

func vfFragsOf(seq uint16, parts []int) []vfFrag {
	total := 0
	for _, l := range parts {
		total += l
	}
	var fr []vfFrag
	off := 0
	for _, l := range parts {
		fr = append(fr, vfFrag{MsgSeq: seq, Total: total, Off: off, Len: l})
		off += l
	}

	return fr
}

func vfArrivalString(records [][]vfFrag) string {
	var s []string
	for _, r := range records {
		var t []string
		for _, f := range r {
			t = append(t, f.String())
		}
		s = append(s, strings.Join(t, "+"))
	}

	return strings.Join(s, " ")
}

// classification of an arrival for the finding signature: which special ingredients it contains
func vfArrivalClass(records [][]vfFrag) string {
	zero, dup, zeroMsg, multi := false, false, false, false
	seen := map[string]bool{}
	for _, r := range records {
		if len(r) > 1 {
			multi = true
		}
		for _, f := range r {
			if f.Len == 0 && f.Total > 0 {
				zero = true
			}
			if f.Total == 0 {
				zeroMsg = true
			}
			if seen[f.String()] {
				dup = true
			}
			seen[f.String()] = true
		}
	}
	var c []string
	if zero {
		c = append(c, "zero-length-fragment")
	}
	if zeroMsg {
		c = append(c, "empty-message")
	}
	if dup {
		c = append(c, "duplicate")
	}
	if multi {
		c = append(c, "multi-fragment-record")
	}
	if len(c) == 0 {
		return "plain"
	}

	return strings.Join(c, "+")
}

func vfC12Reassembly(t *testing.T, res *vfResult) {
	maxLen := vfPick(7, 10)
	maxParts := vfPick(4, 5)
	type job struct {
		records [][]vfFrag
		totals  map[uint16]int
	}
	report := func(j job, dev, class string) {
		ac := vfArrivalClass(j.records)
		res.Violate("C12:reassembly:"+class+":"+ac,
			fmt.Sprintf("%s; arrival: %s", dev, vfArrivalString(j.records)),
			map[string]any{"arrival": vfArrivalString(j.records)})
	}
	run := func(j job) {
		dev, class := vfReasmRun(j.records, j.totals)
		res.Eval(1)
		if res.Evaluations%4001 == 7 {
			res.Sample(map[string]any{"arrival": vfArrivalString(j.records), "class": vfArrivalClass(j.records), "deviation": dev})
		}
		res.NonTrivial(vfArrivalString(j.records))
		if dev != "" {
			res.Count("reassembly_deviations", 1)
			report(j, dev, class)
		}
	}
	// (A) single message: every length x partition x permutation, each fragment its own record
	for n := 0; n <= maxLen; n++ {
		for _, parts := range vfPartitions(n, maxParts) {
			frs := vfFragsOf(0, parts)
			for _, perm := range vfPermutations(len(frs)) {
				var recs [][]vfFrag
				for _, i := range perm {
					recs = append(recs, []vfFrag{frs[i]})
				}
				vfCurrent(0, "reasm", vfArrivalString(recs))
				run(job{recs, map[uint16]int{0: n}})
			}
		}
	}
	res.Count("single_message_cases", res.Evaluations)
	// (B) zero-length fragments at every cut offset (incl. 0 and n) and duplicates, every position in the arrival order
	for n := 0; n <= vfPick(5, 7); n++ {
		for _, parts := range vfPartitions(n, 3) {
			frs := vfFragsOf(0, parts)
			offs := []int{0}
			o := 0
			for _, l := range parts {
				o += l
				offs = append(offs, o)
			}
			extras := []vfFrag{}
			for _, off := range offs {
				extras = append(extras, vfFrag{MsgSeq: 0, Total: n, Off: off, Len: 0})
			}
			extras = append(extras, frs...) // exact duplicates
			for _, ex := range extras {
				all := append(append([]vfFrag{}, frs...), ex)
				for _, perm := range vfPermutations(len(all)) {
					var recs [][]vfFrag
					for _, i := range perm {
						recs = append(recs, []vfFrag{all[i]})
					}
					vfCurrent(0, "reasm", vfArrivalString(recs))
					run(job{recs, map[uint16]int{0: n}})
				}
			}
		}
	}
	// (C) interleavings over three consecutive message sequences, grouped into records: PRNG
	nC := vfPick(20000, 400000)
	for k := 0; k < nC; k++ {
		r := vfRand("C12/interleave", k)
		totals := map[uint16]int{}
		var all []vfFrag
		for seq := uint16(0); seq < 3; seq++ {
			n := r.IntN(9)
			if r.IntN(10) == 0 {
				n = 200 + r.IntN(3000)
			}
			parts := vfRandComposition(r, n, 1+r.IntN(4))
			totals[seq] = n
			frs := vfFragsOf(seq, parts)
			all = append(all, frs...)
			if r.IntN(3) == 0 { // duplicate one
				all = append(all, frs[r.IntN(len(frs))])
			}
			if r.IntN(4) == 0 { // a zero-length fragment somewhere
				all = append(all, vfFrag{MsgSeq: seq, Total: n, Off: r.IntN(n + 1), Len: 0})
			}
		}
		r.Shuffle(len(all), func(i, j int) { all[i], all[j] = all[j], all[i] })
		var recs [][]vfFrag
		for i := 0; i < len(all); {
			g := 1
			if r.IntN(3) == 0 {
				g = 1 + r.IntN(3)
			}
			if i+g > len(all) {
				g = len(all) - i
			}
			recs = append(recs, all[i:i+g])
			i += g
		}
		vfCurrent(0, "reasm", vfArrivalString(recs))
		run(job{recs, totals})
	}
	// endurance: one buffer lives as long as its connection; thousands of fragments pass through it
	for _, shape := range [][2]int{{80, 40}, {30, 120}, {400, 3}} {
		r := vfRand("C12/endurance", shape[0])
		totals := map[uint16]int{}
		var recs [][]vfFrag
		for m := 0; m < shape[0]; m++ {
			seq := uint16(m)
			parts := make([]int, shape[1])
			for i := range parts {
				parts[i] = 1 + (m+i)%7
			}
			n := 0
			for _, x := range parts {
				n += x
			}
			totals[seq] = n
			frs := vfFragsOf(seq, parts)
			r.Shuffle(len(frs), func(i, j int) { frs[i], frs[j] = frs[j], frs[i] })
			for _, f := range frs {
				recs = append(recs, []vfFrag{f})
			}
		}
		vfCurrent(0, "reasm-endurance", fmt.Sprintf("%d messages x %d fragments", shape[0], shape[1]))
		res.Count("endurance_fragments", int64(len(recs)))
		run(job{recs, totals})
	}
	// duplication endurance: fragments of a still incomplete message (and of a buffered future one) repeated more often
	// than the buffer's fragment limit, as a peer retransmitting a flight with one persistently lost fragment does;
	// duplicates occupy nothing, so the missing fragment must still be taken and the messages surface
	_, maxCount := dtlsfragmentbuffer.VFLimits()
	for _, future := range []bool{false, true} {
		totals := map[uint16]int{0: 9, 1: 6}
		m0 := vfFragsOf(0, []int{3, 3, 3})
		m1 := vfFragsOf(1, []int{2, 4})
		var recs [][]vfFrag
		recs = append(recs, []vfFrag{m0[0]}, []vfFrag{m0[2]})
		if future {
			recs = append(recs, []vfFrag{m1[1]})
		}
		for k := 0; k < maxCount+300; k++ {
			switch {
			case future && k%3 == 2:
				recs = append(recs, []vfFrag{m1[1]})
			case k%2 == 0:
				recs = append(recs, []vfFrag{m0[0]})
			default:
				recs = append(recs, []vfFrag{m0[2]})
			}
		}
		recs = append(recs, []vfFrag{m0[1]}, []vfFrag{m1[0]})
		if !future {
			recs = append(recs, []vfFrag{m1[1]})
		}
		vfCurrent(0, "reasm-dup-endurance", fmt.Sprintf("future=%v, %d records", future, len(recs)))
		res.Count("dup_endurance_fragments", int64(len(recs)))
		run(job{recs, totals})
	}
	vfClearCurrent(0)
}

func vfRandComposition(r *rand.Rand, n, k int) []int {
	if n == 0 {
		return []int{0}
	}
	if k > n {
		k = n
	}
	cuts := map[int]bool{}
	for len(cuts) < k-1 {
		cuts[1+r.IntN(n-1+1)] = true
		if n == 1 {
			break
		}
	}
	var cs []int
	for c := range cuts {
		if c < n {
			cs = append(cs, c)
		}
	}
	sort.Ints(cs)
	var parts []int
	prev := 0
	for _, c := range cs {
		if c > prev {
			parts = append(parts, c-prev)
			prev = c
		}
	}
	parts = append(parts, n-prev)

	return parts
}

// vfC12Sender: fragmentHandshake over every (body length, MTU).
func vfC12Sender(res *vfResult) {
	maxLen := vfPick(300, 1500)
	type lm struct{ n, mtu int }
	var pairs []lm
	for mtu := 1; mtu <= vfPick(64, 200); mtu++ {
		// (long messages at the smallest MTUs too: a certificate chain at MTU 1..4 is hundreds to thousands of fragments)
		top := maxLen
		if mtu <= 4 {
			top = 4200
		}
		for n := 0; n <= top; n++ {
			if n > 130 && n%7 != 0 && !(mtu <= 4 && n > maxLen && n%499 < 3) {
				continue
			}
			if n > maxLen && n%7 == 0 && n%5 != 0 {
				continue
			}
			pairs = append(pairs, lm{n, mtu})
		}
	}
	// messages around and beyond 2^16 bytes (the header's three-byte fields), at ordinary MTUs
	for _, n := range []int{65535, 65536, 65537, 70001, 131072 + 5} {
		for _, mtu := range []int{1200, 999} {
			pairs = append(pairs, lm{n, mtu})
		}
	}
	for _, pr := range pairs {
		n, mtu := pr.n, pr.mtu
		c := &Conn{maximumTransmissionUnit: mtu}
		{
			body := vfMsgBody(3, n)
			hs := &handshake.Handshake{
				Header:  handshake.Header{Type: handshake.TypeFinished, Length: uint32(n), MessageSequence: 3},
				Message: &handshake.MessageFinished{VerifyData: body},
			}
			frags, err := c.fragmentHandshake(hs)
			res.Eval(1)
			if err != nil {
				res.Violate("C12:sender:error", fmt.Sprintf("fragmentHandshake(len %d, mtu %d): %v", n, mtu, err), nil)

				continue
			}
			var cat []byte
			off := 0
			bad := ""
			for _, f := range frags {
				h, rest, ok := vfParseHS(f)
				if !ok || len(rest) != 0 {
					bad = "fragment does not parse as exactly one handshake fragment"

					break
				}
				if int(h.FragLen) > mtu {
					bad = fmt.Sprintf("fragment carries %d body bytes > MTU %d", h.FragLen, mtu)

					break
				}
				if int(h.FragOff) != off || int(h.Length) != n || h.MsgSeq != 3 || h.Type != 20 {
					bad = fmt.Sprintf("fragment header inconsistent: off %d (want %d) length %d (want %d)", h.FragOff, off, h.Length, n)

					break
				}
				if n > 0 && h.FragLen == 0 {
					bad = "empty fragment of a non-empty message"

					break
				}
				off += int(h.FragLen)
				cat = append(cat, h.Body...)
			}
			if bad == "" && !bytes.Equal(cat, body) {
				bad = "concatenated fragments differ from the message body"
			}
			if bad == "" && len(frags) == 0 {
				bad = "no fragment produced"
			}
			if bad != "" {
				res.Violate("C12:sender:"+strings.SplitN(bad, " ", 3)[0]+strings.SplitN(bad, " ", 3)[1],
					fmt.Sprintf("len %d mtu %d: %s", n, mtu, bad), map[string]any{"len": n, "mtu": mtu})
			}
			res.Count("sender_cases", 1)
			if len(frags) > 1 {
				res.NonTrivial(fmt.Sprintf("send/%d/%d", n, mtu))
			}
		}
	}
}

// vfC12EndToEnd: handshakes at tiny MTU with the fragments of every datagram burst reordered.
func vfC12EndToEnd(t *testing.T, res *vfResult, idx int) {
	r := vfRand("C12/e2e", idx)
	vs := vfC02Variants()
	v := vs[idx%len(vs)]
	if v.Resumed {
		v = vs[0]
	}
	v.Cfg.MTU = []int{32, 60, 100}[idx%3]
	if v.Cfg.Is13() && v.Cfg.MTU < 100 {
		v.Cfg.MTU = 100
	}
	n := vfNewNet()
	// reorder: hold each datagram with probability 1/2 for a short random virtual delay (< retransmit interval)
	seedCtr := 0
	n.onSend = func(n *vfNet, w *vfWire) {
		seedCtr++
		from := vfAddr(vfClientAddr)
		if w.From == "s" {
			from = vfAddr(vfServerAddr)
		}
		d := time.Duration(0)
		if (w.Idx*7+seedCtr+idx)%2 == 0 {
			d = time.Duration(1+((w.Idx*13+idx)%40)) * time.Millisecond
		}
		n.DeliverAfter(d, w.Dst, w.Data, from)
	}
	_ = r
	co, so := v.Cfg.Options(nil, nil)
	p, err := vfNewPair(n, co, so)
	res.Eval(1)
	if err != nil {
		res.Count("e2e_config_rejected", 1)

		return
	}
	cerr, serr := p.Handshake(2 * time.Minute)
	if cerr != nil || serr != nil {
		res.Violate(fmt.Sprintf("C12:e2e:%s:mtu%d:client=%s,server=%s", v.Name, v.Cfg.MTU, vfErrNorm(cerr), vfErrNorm(serr)),
			fmt.Sprintf("handshake with MTU %d and reordered fragments failed: client=%v server=%v", v.Cfg.MTU, cerr, serr),
			map[string]any{"variant": v.Name, "mtu": v.Cfg.MTU, "case": idx})
	} else {
		res.Count("e2e_completed", 1)
		res.NonTrivial(fmt.Sprintf("e2e/%s/%d/%d", v.Name, v.Cfg.MTU, idx))
		// sender-side law on the wire: no plaintext handshake fragment body larger than the MTU
		for _, w := range n.Emissions("") {
			recs, _ := vfParseDatagram(w.Data, 0)
			for _, rc := range recs {
				if !rc.Unified && rc.Type == 22 && rc.Epoch == 0 {
					rest := rc.Body
					for len(rest) > 0 {
						h, rr, ok := vfParseHS(rest)
						if !ok {
							break
						}
						if int(h.FragLen) > v.Cfg.MTU {
							res.Violate("C12:e2e:fragment-larger-than-mtu", fmt.Sprintf("%s fragment with %d body bytes at MTU %d", vfHSName(h.Type), h.FragLen, v.Cfg.MTU), nil)
						}
						res.Count("e2e_fragments_checked", 1)
						rest = rr
					}
				}
			}
		}
	}
	p.Close()
	synctest.Wait()
}

// vfC12ReversedBursts: every burst of datagrams an endpoint emits at one instant reaches the peer in reverse order
// (a microsecond later), provided the burst consists of unprotected handshake records only; nothing is lost or
// duplicated. "Whatever the arrival order": the receiver has every byte, so it reconstructs every message and the
// handshake goes on at once - if it only completes after a retransmission timer, a complete message was left lying
// in the reassembly buffer.
func vfC12ReversedBursts(t *testing.T, res *vfResult, idx int) {
	vs := vfC02Variants()
	v := vs[idx%len(vs)]
	if v.Resumed {
		v = vs[0]
	}
	v.Cfg.MTU = []int{32, 60, 100, 200}[(idx/len(vs))%4]
	if v.Cfg.Is13() && v.Cfg.MTU < 100 {
		v.Cfg.MTU = 100
	}
	n := vfNewNet()
	var mu sync.Mutex
	held := map[string][]*vfWire{}
	reversed := 0
	n.onSend = func(n *vfNet, w *vfWire) {
		mu.Lock()
		first := len(held[w.From]) == 0
		held[w.From] = append(held[w.From], w)
		mu.Unlock()
		if !first {
			return
		}
		from := w.From
		time.AfterFunc(time.Microsecond, func() { // fires once the sender has nothing more to emit at this instant
			mu.Lock()
			burst := held[from]
			held[from] = nil
			plain := len(burst) > 1
			for _, b := range burst {
				if !vfPlainHandshakeOnly(b.Data) {
					plain = false
				}
			}
			if plain {
				reversed++
				for i, j := 0, len(burst)-1; i < j; i, j = i+1, j-1 {
					burst[i], burst[j] = burst[j], burst[i]
				}
			}
			mu.Unlock()
			for _, b := range burst {
				n.Deliver(b.Dst, b.Data, vfAddrOf(b.From))
			}
		})
	}
	co, so := v.Cfg.Options(nil, nil)
	p, err := vfNewPair(n, co, so)
	res.Eval(1)
	if err != nil {
		res.Count("e2e_config_rejected", 1)

		return
	}
	first := time.Second
	for _, iv := range []time.Duration{v.Cfg.IvC, v.Cfg.IvS} {
		if iv > 0 && iv < first {
			first = iv
		}
	}
	cAt, sAt := p.HandshakeTimed(2 * time.Minute)
	mu.Lock()
	rv := reversed
	mu.Unlock()
	id := fmt.Sprintf("reversed-bursts/%s/mtu%d", v.Name, v.Cfg.MTU)
	switch {
	case p.C.Err != nil || p.S.Err != nil:
		res.Violate(fmt.Sprintf("C12:e2e-reversed:%s:mtu%d:client=%s,server=%s", v.Name, v.Cfg.MTU, vfErrNorm(p.C.Err), vfErrNorm(p.S.Err)),
			fmt.Sprintf("%s: handshake with every unprotected burst delivered in reverse order failed: client=%v server=%v", id, p.C.Err, p.S.Err), map[string]any{"reversed": idx})
	case rv > 0 && (cAt >= first || sAt >= first):
		res.Violate("C12:complete-message-not-surfaced-until-retransmission:"+vfVerClass(v),
			fmt.Sprintf("%s: %d bursts of unprotected handshake datagrams arrived in reverse order, nothing was lost, yet the handshake completed only at client=%v server=%v, after the first retransmission timer (%v)",
				id, rv, cAt, sAt, first), map[string]any{"reversed": idx})
	default:
		res.Count("reversed_burst_handshakes", 1)
		res.Count("bursts_reversed", int64(rv))
		res.NonTrivial(id)
	}
	p.Close()
	synctest.Wait()
}

func TestVF_C12(t *testing.T) {
	vfGetPKI()
	res := vfNewResult("C12", "receiver: FragmentBuffer driven like conn.go (Push record, Pop until empty) against an independent "+
		"byte-coverage reassembler: (A) every message length <= L x every composition into <= k fragments x every arrival permutation, "+
		"(B) plus one zero-length fragment at every cut offset or one exact duplicate at every arrival position, (C) PRNG interleavings "+
		"of three consecutive message sequences with duplicates, zero-length fragments and several fragments per record; sender: "+
		"fragmentHandshake over every (length, MTU); end-to-end handshakes at MTU 32/60/100 with reordered datagrams. Distinct = distinct arrival sequences")
	res.Assume("fragments of one message form a partition of it (plus zero-length and exactly duplicated fragments), as in the property's quantifier; " +
		"overlapping re-fragmentation and inconsistent total lengths are hostile input (C08)")
	vfC12Reassembly(t, res)
	vfC12Sender(res)
	ne := vfPick(60, 1200)
	vfBubbles(t, ne, func(t *testing.T, i int) { vfC12EndToEnd(t, res, i) })
	nr := 4 * len(vfC02Variants())
	vfBubbles(t, nr, func(t *testing.T, i int) { vfC12ReversedBursts(t, res, i) })
	res.Floor("bursts_reversed", int64(nr))
	res.Exhaustive = false
	res.Floor("e2e_completed", int64(ne*8/10))
	res.Finish(t)
}
