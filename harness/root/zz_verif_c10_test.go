//go:build verif

package dtls

// C10 Wire conformance. (A) function-level differential against the independent reference
// (internal/zzverifref): TLS 1.2 PRF family, key block, every DTLS 1.2 suite's record protection in
// both directions and both header layouts (library seals -> reference opens, reference seals ->
// library opens), HKDF-Expand-Label/Derive-Secret with the dtls13 prefix, DTLS 1.3 record
// protection and sequence-number masking. (B) passive decoding of complete live sessions from the
// key log (1.2) / key schedule (1.3): every record must decrypt under the reference, verify_data,
// master secret, exporter and key-log contents must equal the reference recomputation from the
// captured hellos.

import (
	"bytes"
	"crypto/ecdh"
	"crypto/sha256"
	"crypto/sha512"
	"encoding/binary"
	"fmt"
	"hash"
	"sort"
	"strings"
	"testing"
	"testing/synctest"
	"time"

	"github.com/pion/dtls/v3/internal/ciphersuite"
	dtlsstate "github.com/pion/dtls/v3/internal/state"
	ref "github.com/pion/dtls/v3/internal/zzverifref"
	pelliptic "github.com/pion/dtls/v3/pkg/crypto/elliptic"
	"github.com/pion/dtls/v3/pkg/crypto/keyschedule"
	"github.com/pion/dtls/v3/pkg/crypto/prf"
	"github.com/pion/dtls/v3/pkg/protocol"
	"github.com/pion/dtls/v3/pkg/protocol/recordlayer"
)

func vfC10Bad(res *vfResult, what, sig string, detail any) {
	res.Violate("C10:"+sig, what, detail)
}

// ---------------------------------------------------------------------------------------------
// (A) function-level differential

func vfC10PRF(res *vfResult, n int) {
	for i := 0; i < n; i++ {
		r := vfRand("C10/prf", i)
		hf, hn := sha256.New, "sha256"
		if r.IntN(2) == 0 {
			hf, hn = sha512.New384, "sha384"
		}
		secret := vfRandBytes(r, []int{0, 1, 16, 32, 48, 100}[r.IntN(6)])
		seed := vfRandBytes(r, r.IntN(120))
		ln := []int{0, 1, 12, 31, 32, 33, 48, 77, 104, 200}[r.IntN(10)]
		got, err := prf.PHash(secret, seed, ln, hf)
		want := ref.PHash(hf, secret, seed, ln)
		res.Eval(1)
		if err != nil || !bytes.Equal(got, want) {
			vfC10Bad(res, fmt.Sprintf("P_%s(secret %d B, seed %d B, %d) differs from RFC 5246 (err %v)", hn, len(secret), len(seed), ln, err), "prf.PHash:"+hn, nil)
		}
		cr, sr, pre := vfRandBytes(r, 32), vfRandBytes(r, 32), vfRandBytes(r, []int{32, 48, 66}[r.IntN(3)])
		ms, err := prf.MasterSecret(pre, cr, sr, hf)
		if err != nil || !bytes.Equal(ms, ref.MasterSecret(hf, pre, cr, sr)) {
			vfC10Bad(res, "master secret differs from RFC 5246 8.1", "prf.MasterSecret:"+hn, nil)
		}
		sh := vfRandBytes(r, hf().Size())
		ems, err := prf.ExtendedMasterSecret(pre, sh, hf)
		if err != nil || !bytes.Equal(ems, ref.ExtendedMasterSecret(hf, pre, sh)) {
			vfC10Bad(res, "extended master secret differs from RFC 7627", "prf.ExtendedMasterSecret:"+hn, nil)
		}
		bodies := vfRandBytes(r, r.IntN(400))
		vc, err1 := prf.VerifyDataClient(ms, bodies, hf)
		vs, err2 := prf.VerifyDataServer(ms, bodies, hf)
		if err1 != nil || err2 != nil || !bytes.Equal(vc, ref.VerifyData12(hf, ms, true, bodies)) || !bytes.Equal(vs, ref.VerifyData12(hf, ms, false, bodies)) {
			vfC10Bad(res, "Finished verify_data differs from RFC 5246 7.4.9", "prf.VerifyData:"+hn, nil)
		}
		psk := vfRandBytes(r, 1+r.IntN(40))
		if !bytes.Equal(prf.PSKPreMasterSecret(psk), ref.PSKPreMaster(psk)) {
			vfC10Bad(res, "PSK premaster secret differs from RFC 4279", "prf.PSKPreMasterSecret", nil)
		}
		res.Count("prf_draws", 1)
		res.NonTrivial(fmt.Sprintf("prf/%d", i))
	}
}

// vfC10KeyAgreement: the library's (EC)DHE premaster secrets against crypto/ecdh and the RFC 5489 layout, for
// ordinary key pairs and for pairs whose shared secret begins with a zero byte (the leading zero belongs to Z).
func vfC10KeyAgreement(res *vfResult, perCurve int) {
	type cv struct {
		name string
		id   pelliptic.Curve
		std  ecdh.Curve
	}
	for _, c := range []cv{{"x25519", pelliptic.X25519, ecdh.X25519()}, {"p256", pelliptic.P256, ecdh.P256()}, {"p384", pelliptic.P384, ecdh.P384()}} {
		zeros, tries := 0, 0
		for i := 0; (i < perCurve || zeros < 2) && tries < 6000; i++ {
			tries++
			a, err1 := pelliptic.GenerateKeypair(c.id)
			b, err2 := pelliptic.GenerateKeypair(c.id)
			if err1 != nil || err2 != nil {
				continue
			}
			priv, err := c.std.NewPrivateKey(a.PrivateKey)
			if err != nil {
				continue
			}
			pub, err := c.std.NewPublicKey(b.PublicKey)
			if err != nil {
				continue
			}
			z, err := priv.ECDH(pub)
			if err != nil {
				continue
			}
			lead := z[0] == 0
			if i >= perCurve && !lead {
				continue // past the ordinary draws only leading-zero secrets are of interest
			}
			if lead {
				zeros++
			}
			res.Eval(1)
			got, err := prf.PreMasterSecret(b.PublicKey, a.PrivateKey, c.id)
			if err != nil || !bytes.Equal(got, z) {
				vfC10Bad(res, fmt.Sprintf("%s shared secret differs from crypto/ecdh (leading zero byte: %v, lengths %d vs %d, err %v)", c.name, lead, len(got), len(z), err), "prf.PreMasterSecret:"+c.name, nil)
			}
			psk := []byte("vf-c10-psk-" + c.name)
			gotPSK, err := prf.EcdhePSKPreMasterSecret(psk, b.PublicKey, a.PrivateKey, c.id)
			if err != nil || !bytes.Equal(gotPSK, ref.ECDHEPSKPreMaster(z, psk)) {
				vfC10Bad(res, fmt.Sprintf("%s ECDHE_PSK premaster secret differs from RFC 5489 (leading zero byte in Z: %v, err %v)", c.name, lead, err), "prf.EcdhePSKPreMasterSecret:"+c.name, nil)
			}
			res.Count("key_agreements_checked", 1)
			if lead {
				res.Count("key_agreements_with_leading_zero_secret", 1)
			}
		}
		res.NonTrivial("keyagreement/" + c.name)
	}
}

type vfRecCase struct {
	Type  uint8
	Epoch uint16
	Seq   uint64
	CID   []byte
	Plain []byte
	Pad   int
}

// vfC10Suite12 exercises one DTLS 1.2 suite: both directions, both layouts.
func vfC10Suite12(res *vfResult, si vfSuiteInfo, n int) {
	rs, ok := ref.Suites12()[uint16(si.ID)]
	if !ok {
		res.Inconc("reference has no parameters for suite " + si.Name)

		return
	}
	for i := 0; i < n; i++ {
		r := vfRand("C10/suite/"+si.Name, i)
		master, cr, sr := vfRandBytes(r, 48), vfRandBytes(r, 32), vfRandBytes(r, 32)
		libC := ciphersuite.ForID(si.ID, nil)
		libS := ciphersuite.ForID(si.ID, nil)
		if libC == nil || libS == nil {
			res.Inconc("library has no suite " + si.Name)

			return
		}
		if err := libC.Init(master, cr, sr, true); err != nil {
			res.Inconc("suite init: " + err.Error())

			return
		}
		if err := libS.Init(master, cr, sr, false); err != nil {
			res.Inconc("suite init: " + err.Error())

			return
		}
		kc, ks := ref.KeyBlock12(rs, master, cr, sr)
		// key block also against the library's partition function
		lk, err := prf.GenerateEncryptionKeys(master, cr, sr, rs.MACLen, rs.KeyLen, rs.IVLen, rs.PRFHash)
		if err != nil || !bytes.Equal(lk.ClientWriteKey, kc.Key) || !bytes.Equal(lk.ServerWriteKey, ks.Key) ||
			!bytes.Equal(lk.ClientWriteIV, kc.IV) || !bytes.Equal(lk.ServerWriteIV, ks.IV) ||
			!bytes.Equal(lk.ClientMACKey, kc.MAC) || !bytes.Equal(lk.ServerMACKey, ks.MAC) {
			vfC10Bad(res, "key block partition differs from RFC 5246 6.3 for "+si.Name, "keyblock:"+si.Name, nil)
		}
		for k := 0; k < 6; k++ {
			rc := vfRecCase{
				Type:  []uint8{23, 22, 21, 23}[r.IntN(4)],
				Epoch: []uint16{1, 1, 2, 0xffff}[r.IntN(4)],
				Seq:   []uint64{0, 1, 0xffff, 0x10000, 0xffffffffffff, r.Uint64() & 0xffffffffffff}[r.IntN(6)],
				Plain: vfRandBytes(r, []int{0, 1, 15, 16, 17, 31, 255, 1200, 4000}[r.IntN(9)]),
			}
			withCID := k%2 == 1
			if withCID {
				rc.CID = vfRandBytes(r, []int{1, 4, 8, 20}[r.IntN(4)])
				rc.Pad = r.IntN(20)
			}
			for dir := 0; dir < 2; dir++ { // 0: client->server, 1: server->client
				sender, receiver, skeys := libC, libS, kc
				if dir == 1 {
					sender, receiver, skeys = libS, libC, ks
				}
				vfC10Record12(res, si, rs, sender, receiver, skeys, rc, r.Uint64())
			}
		}
		res.NonTrivial(fmt.Sprintf("suite12/%s/%d", si.Name, i))
	}
}

func vfC10Record12(res *vfResult, si vfSuiteInfo, rs ref.Suite12, sender, receiver CipherSuite, skeys ref.Keys12, rc vfRecCase, nonceSeed uint64) {
	res.Eval(1)
	layout := "plain"
	rr := ref.Rec12{Type: rc.Type, Version: [2]byte{0xfe, 0xfd}, Epoch: rc.Epoch, Seq: rc.Seq}
	inner := rc.Plain
	hdr := recordlayer.Header{ContentType: protocol.ContentType(rc.Type), Version: protocol.Version1_2, Epoch: rc.Epoch, SequenceNumber: rc.Seq}
	if rc.CID != nil {
		layout = "cid"
		rr.Type, rr.CID = 25, rc.CID
		inner = append(append(append([]byte{}, rc.Plain...), rc.Type), make([]byte, rc.Pad)...)
		hdr.ContentType = protocol.ContentTypeConnectionID
		hdr.ConnectionID = rc.CID
	}
	hdr.ContentLen = uint16(len(inner))
	rawHdr, err := hdr.Marshal()
	if err != nil {
		return
	}
	sig := fmt.Sprintf("%s:%s", si.Name, layout)
	// library seals -> reference opens
	pkt := &recordlayer.RecordLayer{Header: hdr}
	enc, err := sender.Encrypt(pkt, append(append([]byte{}, rawHdr...), inner...))
	if err != nil {
		res.Count("lib_encrypt_errors", 1)
		res.Seen("lib_encrypt_error_kinds", si.Name+": "+err.Error())
	} else {
		wire := rr
		wire.Body = enc[len(rawHdr):]
		if int(binary.BigEndian.Uint16(enc[len(rawHdr)-2:])) != len(wire.Body) {
			vfC10Bad(res, fmt.Sprintf("%s: record length field %d != body length %d", si.Name, binary.BigEndian.Uint16(enc[len(rawHdr)-2:]), len(wire.Body)), "record12-length:"+sig, nil)
		}
		pt, err := ref.Open12(rs, skeys, wire)
		if err != nil {
			vfC10Bad(res, fmt.Sprintf("%s (%s layout, type %d, epoch %d, seq %d, %d bytes): a record sealed by the library does not authenticate under the RFC formulas",
				si.Name, layout, rc.Type, rc.Epoch, rc.Seq, len(rc.Plain)), "lib-seal-ref-open:"+sig, map[string]any{"record": vfHex(enc)})
		} else if !bytes.Equal(pt, inner) {
			vfC10Bad(res, si.Name+": reference decrypts the library's record to different plaintext", "lib-seal-ref-open-content:"+sig, nil)
		} else {
			res.Count("lib_to_ref_ok", 1)
		}
	}
	// reference seals -> library opens
	var explicit []byte
	switch rs.Kind {
	case "gcm", "ccm":
		explicit = make([]byte, 8)
		binary.BigEndian.PutUint64(explicit, nonceSeed)
	case "cbc":
		explicit = make([]byte, 16)
		binary.BigEndian.PutUint64(explicit, nonceSeed)
		binary.BigEndian.PutUint64(explicit[8:], ^nonceSeed)
	}
	sealed, err := ref.Seal12(rs, skeys, rr, inner, explicit, -1)
	if err != nil {
		res.Inconc("reference seal: " + err.Error())

		return
	}
	dh := recordlayer.Header{}
	if rc.CID != nil {
		dh.ConnectionID = make([]byte, len(rc.CID))
	}
	dec, err := receiver.Decrypt(dh, append([]byte{}, sealed...))
	if err != nil {
		vfC10Bad(res, fmt.Sprintf("%s (%s layout, type %d, epoch %d, seq %d, %d bytes): the library rejects a record sealed per the RFC formulas: %v",
			si.Name, layout, rc.Type, rc.Epoch, rc.Seq, len(rc.Plain), err), "ref-seal-lib-open:"+sig, map[string]any{"record": vfHex(sealed)})

		return
	}
	if !bytes.Equal(dec[len(rawHdr):], inner) {
		vfC10Bad(res, si.Name+": library decrypts the reference's record to different plaintext", "ref-seal-lib-open-content:"+sig, nil)

		return
	}
	res.Count("ref_to_lib_ok", 1)
}

func vfHash13(id CipherSuiteID) func() hash.Hash {
	if id == TLS_AES_256_GCM_SHA384 {
		return sha512.New384
	}

	return sha256.New
}

func vfC10Suite13(res *vfResult, si vfSuiteInfo, n int) {
	rs := ref.Suites13()[uint16(si.ID)]
	cs, ok := ciphersuite.ForID(si.ID, nil).(ciphersuite.CipherSuiteTLS13)
	if !ok {
		res.Inconc("no TLS 1.3 suite object for " + si.Name)

		return
	}
	for i := 0; i < n; i++ {
		r := vfRand("C10/suite13/"+si.Name, i)
		hf := vfHash13(si.ID)
		secret := vfRandBytes(r, hf().Size())
		// label derivations
		for _, lab := range []string{"key", "iv", "sn", "traffic upd", "finished", "derived", "c hs traffic", "exporter"} {
			ln := []int{12, 16, 32, 48}[r.IntN(4)]
			ctx := vfRandBytes(r, []int{0, 32, 48}[r.IntN(3)])
			got, err := keyschedule.HkdfExpandLabel(hf, secret, lab, ctx, ln)
			res.Eval(1)
			if err != nil || !bytes.Equal(got, ref.ExpandLabel(hf, ref.DTLS13Prefix, secret, lab, ctx, ln)) {
				vfC10Bad(res, fmt.Sprintf("HKDF-Expand-Label(%q) differs from RFC 8446 7.1 with the dtls13 prefix (RFC 9147 5.9)", lab), "HkdfExpandLabel", nil)
			}
		}
		prot, err := cs.NewRecordProtection(secret)
		if err != nil {
			res.Inconc("NewRecordProtection: " + err.Error())

			return
		}
		tk := ref.TrafficKeys13(rs, ref.DTLS13Prefix, secret)
		for k := 0; k < 6; k++ {
			seq := []uint64{0, 1, 0xff, 0x100, 0xffff, 0x10000, 0x123456789ab, r.Uint64() >> 16}[r.IntN(8)]
			epochLow := uint8(r.IntN(4))
			plain := vfRandBytes(r, []int{0, 1, 15, 16, 17, 300, 1200}[r.IntN(7)])
			ct := []uint8{23, 22, 21, 26}[r.IntN(4)]
			cid := []byte{}
			if k%2 == 1 {
				cid = vfRandBytes(r, 1+r.IntN(8))
			}
			res.Eval(1)
			// library seals -> reference opens
			uh := recordlayer.UnifiedHeader{EpochLow: epochLow, SeqBit: true, LengthBit: true, ConnectionID: cid}
			rec, err := prot.Seal(uh, seq, protocol.ContentType(ct), plain)
			if err == nil {
				wire, err := rec.Marshal()
				if err != nil {
					continue
				}
				pr, _, perr := ref.ParseRec13(wire, len(cid))
				if perr != nil {
					vfC10Bad(res, "library-sealed DTLS 1.3 record does not parse as a unified-header record: "+perr.Error(), "seal13-format:"+si.Name, nil)

					continue
				}
				pt, rt, gotSeq, oerr := ref.Open13(rs, tk, pr, seq)
				if oerr != nil || !bytes.Equal(pt, plain) || rt != ct || gotSeq != seq {
					vfC10Bad(res, fmt.Sprintf("%s: record sealed by the library (seq %d, cid %d B, %d bytes) does not open under RFC 9147 record protection: %v",
						si.Name, seq, len(cid), len(plain), oerr), "lib-seal13-ref-open:"+si.Name, map[string]any{"record": vfHex(wire), "secret": vfHex(secret)})
				} else {
					res.Count("lib_to_ref13_ok", 1)
				}
			}
			// reference seals -> library opens
			inner := len(plain) + 1
			hdr := []byte{0x20 | 0x08 | 0x04 | epochLow}
			if len(cid) > 0 {
				hdr[0] |= 0x10
				hdr = append(hdr, cid...)
			}
			seqOff := len(hdr)
			hdr = binary.BigEndian.AppendUint16(hdr, uint16(seq))
			hdr = binary.BigEndian.AppendUint16(hdr, uint16(inner+16))
			sealed, err := ref.Seal13(rs, tk, hdr, seqOff, 2, seq, plain, ct, 0)
			if err != nil {
				res.Inconc("reference Seal13: " + err.Error())

				return
			}
			cr := recordlayer.CiphertextRecord13{}
			if len(cid) > 0 {
				cr.Header.ConnectionID = make([]byte, len(cid))
			}
			if err := cr.Unmarshal(sealed); err != nil {
				vfC10Bad(res, "library cannot parse a record built per RFC 9147 Figure 3: "+err.Error(), "ref-seal13-lib-parse:"+si.Name, nil)

				continue
			}
			ip, err := prot.Open(cr.Header, seq, cr.EncryptedRecord)
			if err != nil || !bytes.Equal(ip.Content, plain) || uint8(ip.RealType) != ct {
				vfC10Bad(res, fmt.Sprintf("%s: the library rejects/misreads a record sealed per RFC 9147 (seq %d): %v", si.Name, seq, err),
					"ref-seal13-lib-open:"+si.Name, map[string]any{"record": vfHex(sealed), "secret": vfHex(secret)})
			} else {
				res.Count("ref_to_lib13_ok", 1)
			}
		}
		res.NonTrivial(fmt.Sprintf("suite13/%s/%d", si.Name, i))
	}
}

// ---------------------------------------------------------------------------------------------
// (B) passive decoding of live sessions

type vfWireMsg struct {
	From   string
	Type   uint8
	MsgSeq uint16
	Body   []byte
	Ticket int64 // completion order
	Epoch  uint16
}

// vfWireReassembler collects handshake fragments per sender and yields complete messages in
// order of completion (independent of the library's fragment buffer).
type vfWireReassembler struct {
	parts map[string]map[uint16]*vfWirePartial
	done  map[string]map[uint16]bool
	out   []vfWireMsg
}

type vfWirePartial struct {
	typ   uint8
	total int
	data  []byte
	have  []bool
}

func vfNewWireReassembler() *vfWireReassembler {
	return &vfWireReassembler{parts: map[string]map[uint16]*vfWirePartial{}, done: map[string]map[uint16]bool{}}
}

func (w *vfWireReassembler) feed(from string, epoch uint16, ticket int64, frag []byte) {
	for len(frag) > 0 {
		h, rest, ok := vfParseHS(frag)
		if !ok {
			return
		}
		frag = rest
		if w.done[from] == nil {
			w.done[from] = map[uint16]bool{}
			w.parts[from] = map[uint16]*vfWirePartial{}
		}
		if w.done[from][h.MsgSeq] {
			continue
		}
		p := w.parts[from][h.MsgSeq]
		if p == nil {
			p = &vfWirePartial{typ: h.Type, total: int(h.Length), data: make([]byte, h.Length), have: make([]bool, h.Length)}
			w.parts[from][h.MsgSeq] = p
		}
		if int(h.FragOff)+int(h.FragLen) > p.total {
			continue
		}
		copy(p.data[h.FragOff:], h.Body)
		for i := int(h.FragOff); i < int(h.FragOff)+int(h.FragLen); i++ {
			p.have[i] = true
		}
		complete := true
		for _, b := range p.have {
			if !b {
				complete = false

				break
			}
		}
		if complete {
			w.done[from][h.MsgSeq] = true
			w.out = append(w.out, vfWireMsg{From: from, Type: p.typ, MsgSeq: h.MsgSeq, Body: p.data, Ticket: ticket, Epoch: epoch})
		}
	}
}

func vfHS12Encode(m vfWireMsg) []byte {
	b := make([]byte, 12+len(m.Body))
	b[0] = m.Type
	b[1], b[2], b[3] = byte(len(m.Body)>>16), byte(len(m.Body)>>8), byte(len(m.Body))
	binary.BigEndian.PutUint16(b[4:], m.MsgSeq)
	b[9], b[10], b[11] = b[1], b[2], b[3]
	copy(b[12:], m.Body)

	return b
}

func vfHS13Encode(m vfWireMsg) []byte {
	b := make([]byte, 4+len(m.Body))
	b[0] = m.Type
	b[1], b[2], b[3] = byte(len(m.Body)>>16), byte(len(m.Body)>>8), byte(len(m.Body))
	copy(b[4:], m.Body)

	return b
}

// vfC10Session12 decodes one DTLS 1.2 session from its wire log and key log.
func vfC10Session12(res *vfResult, p *vfPair, cfg vfCfg, written map[string][][]byte, tag string, resumed bool) {
	rs, ok := ref.Suites12()[uint16(cfg.Suite.ID)]
	if !ok {
		return
	}
	sig := cfg.Suite.Name
	if cfg.CIDc > 0 || cfg.CIDs > 0 {
		sig += ":cid"
	}
	if resumed {
		sig += ":resumed"
	}
	cl, sl := p.C.Keylog.Lines(), p.S.Keylog.Lines()
	if len(cl) == 0 || len(sl) == 0 {
		vfC10Bad(res, fmt.Sprintf("key log empty (client lines %d, server lines %d)", len(cl), len(sl)), "keylog-missing:"+sig, nil)

		return
	}
	ckl, skl := cl[len(cl)-1], sl[len(sl)-1]
	// hellos from the wire
	wr := vfNewWireReassembler()
	var all []*vfWire
	all = append(all, p.Net.Emissions("")...)
	sort.Slice(all, func(i, j int) bool { return all[i].Ticket < all[j].Ticket })
	cidOf := map[string]int{"c": vfCIDLenOf(p.S.Conn), "s": vfCIDLenOf(p.C.Conn)} // CID length on records sent by c / s
	for _, w := range all {
		recs, _ := vfParseDatagram(w.Data, cidOf[w.From])
		for _, rc := range recs {
			if !rc.Unified && rc.Type == 22 && rc.Epoch == 0 {
				wr.feed(w.From, 0, w.Ticket, rc.Body)
			}
		}
	}
	var clientRandom, serverRandom []byte
	for _, m := range wr.out {
		if m.Type == 1 && len(m.Body) >= 34 {
			clientRandom = m.Body[2:34] // last ClientHello wins
		}
		if m.Type == 2 && len(m.Body) >= 34 {
			serverRandom = m.Body[2:34]
		}
	}
	if clientRandom == nil || serverRandom == nil {
		res.Inconc("could not find hellos on the wire")

		return
	}
	master := vfUnhex(ckl[2])
	if ckl[0] != "CLIENT_RANDOM" || ckl[1] != vfHex(clientRandom) {
		vfC10Bad(res, fmt.Sprintf("client key log line is %s %s.., the ClientHello random on the wire is %s..", ckl[0], ckl[1][:16], vfHex(clientRandom)[:16]), "keylog-client-random:client:"+sig, nil)
	}
	if skl[0] != "CLIENT_RANDOM" || skl[1] != vfHex(clientRandom) {
		vfC10Bad(res, fmt.Sprintf("server key log line is %s %s.., the ClientHello random on the wire is %s.. (a passive decoder cannot match the line to the session)",
			skl[0], skl[1][:16], vfHex(clientRandom)[:16]), "keylog-client-random:server:"+sig, nil)
	}
	if skl[2] != ckl[2] {
		vfC10Bad(res, "client and server key logs carry different master secrets", "keylog-secret:"+sig, nil)
	}
	kc, ks := ref.KeyBlock12(rs, master, clientRandom, serverRandom)
	// decrypt everything of epoch >= 1
	got := map[string][][]byte{"c": nil, "s": nil}
	finished := map[string][]byte{}
	for _, w := range all {
		keys := kc
		if w.From == "s" {
			keys = ks
		}
		recs, okp := vfParseDatagram(w.Data, cidOf[w.From])
		if !okp {
			vfC10Bad(res, "emitted datagram does not parse into records", "wire-format:"+sig, map[string]any{"datagram": vfHex(w.Data)})

			continue
		}
		for _, rc := range recs {
			if rc.Unified || rc.Epoch == 0 || rc.Type == 20 {
				continue
			}
			res.Count("records12_seen", 1)
			rr := ref.Rec12{Type: rc.Type, Version: [2]byte{byte(rc.Version >> 8), byte(rc.Version)}, Epoch: rc.Epoch, Seq: rc.Seq, CID: rc.CID, Body: rc.Body}
			pt, err := ref.Open12(rs, keys, rr)
			if err != nil {
				vfC10Bad(res, fmt.Sprintf("%s: record (type %d, epoch %d, seq %d) emitted by %s does not decrypt with the key-log secret under the RFC formulas", cfg.Suite.Name, rc.Type, rc.Epoch, rc.Seq, w.From),
					"passive-decrypt:"+sig, map[string]any{"record": vfHex(rc.Raw)})

				continue
			}
			res.Count("records12_decrypted", 1)
			typ := rc.Type
			if rc.Type == 25 {
				i := len(pt) - 1
				for i >= 0 && pt[i] == 0 {
					i--
				}
				if i < 0 {
					vfC10Bad(res, "tls12_cid inner plaintext without a content type", "inner-plaintext:"+sig, nil)

					continue
				}
				typ, pt = pt[i], pt[:i]
			}
			switch typ {
			case 23:
				got[w.From] = append(got[w.From], pt)
			case 22:
				wr.feed(w.From, rc.Epoch, w.Ticket, pt)
				if h, _, ok := vfParseHS(pt); ok && h.Type == 20 {
					finished[w.From] = h.Body
				}
			}
		}
	}
	for _, side := range []string{"c", "s"} {
		for _, wpl := range written[side] {
			n := 0
			for _, g := range got[side] {
				if bytes.Equal(g, wpl) {
					n++
				}
			}
			if n != 1 {
				vfC10Bad(res, fmt.Sprintf("payload written by %s appears %d times among the passively decrypted application records", side, n), "passive-payload:"+sig, nil)
			} else {
				res.Count("payloads_recovered", 1)
			}
		}
	}
	// transcript, verify_data, master secret
	sort.SliceStable(wr.out, func(i, j int) bool { return wr.out[i].Ticket < wr.out[j].Ticket })
	var msgs []vfWireMsg
	sawHVR := false
	for _, m := range wr.out {
		if m.Type == 3 {
			sawHVR = true
		}
	}
	firstCH := true
	for _, m := range wr.out {
		if m.Type == 3 {
			continue
		}
		if m.Type == 1 && sawHVR && firstCH {
			firstCH = false

			continue
		}
		msgs = append(msgs, m)
	}
	var upTo = func(stopType uint8, stopFrom string) []byte {
		var b []byte
		for _, m := range msgs {
			if m.Type == stopType && m.From == stopFrom {
				break
			}
			b = append(b, vfHS12Encode(m)...)
		}

		return b
	}
	firstFin, secondFin := "c", "s"
	if resumed {
		firstFin, secondFin = "s", "c"
	}
	if f, ok := finished[firstFin]; ok {
		want := ref.VerifyData12(rs.PRFHash, master, firstFin == "c", upTo(20, firstFin))
		if !bytes.Equal(f, want) {
			vfC10Bad(res, fmt.Sprintf("%s Finished verify_data differs from PRF(master, label, Hash(handshake_messages)) recomputed from the wire", firstFin), "verify-data:"+firstFin+":"+sig, nil)
		} else {
			res.Count("verify_data_ok", 1)
		}
	}
	if f, ok := finished[secondFin]; ok {
		want := ref.VerifyData12(rs.PRFHash, master, secondFin == "c", upTo(20, secondFin))
		if !bytes.Equal(f, want) {
			vfC10Bad(res, fmt.Sprintf("%s Finished verify_data differs from PRF(master, label, Hash(handshake_messages)) recomputed from the wire", secondFin), "verify-data:"+secondFin+":"+sig, nil)
		} else {
			res.Count("verify_data_ok", 1)
		}
	}
	if !resumed {
		if st, err := dtlsstate.As12(p.C.Conn.state); err == nil && len(st.PreMasterSecret) > 0 {
			var want []byte
			if st.ExtendedMasterSecret {
				var b []byte
				for _, m := range msgs {
					b = append(b, vfHS12Encode(m)...)
					if m.Type == 16 {
						break
					}
				}
				hh := rs.PRFHash()
				hh.Write(b)
				want = ref.ExtendedMasterSecret(rs.PRFHash, st.PreMasterSecret, hh.Sum(nil))
			} else {
				want = ref.MasterSecret(rs.PRFHash, st.PreMasterSecret, clientRandom, serverRandom)
			}
			if !bytes.Equal(want, master) {
				vfC10Bad(res, fmt.Sprintf("master secret in the key log differs from the RFC derivation (EMS=%v)", st.ExtendedMasterSecret), fmt.Sprintf("master-secret:ems=%v:%s", st.ExtendedMasterSecret, sig), nil)
			} else {
				res.Count("master_secret_ok", 1)
			}
		}
	}
	// exporter
	for _, side := range []*vfSide{p.C, p.S} {
		st, ok := side.Conn.ConnectionState()
		if !ok {
			continue
		}
		for _, l := range []string{"EXTRACTOR-dtls_srtp", "EXPORTER-verif-a"} {
			out, err := st.ExportKeyingMaterial(l, nil, 60)
			if err != nil || !bytes.Equal(out, ref.Exporter12(rs.PRFHash, master, l, clientRandom, serverRandom, 60)) {
				vfC10Bad(res, fmt.Sprintf("ExportKeyingMaterial(%q) on %s differs from RFC 5705 (err %v)", l, side.Name, err), "exporter12:"+side.Name+":"+sig, nil)
			} else {
				res.Count("exporter_ok", 1)
			}
		}
	}
	res.NonTrivial("session12/" + tag)
}

func vfUnhex(s string) []byte {
	b := make([]byte, len(s)/2)
	for i := range b {
		fmt.Sscanf(s[2*i:2*i+2], "%02x", &b[i])
	}

	return b
}

// vfC10Session13 decodes one DTLS 1.3 session with the reference, secrets taken from the endpoints' key schedule.
func vfC10Session13(res *vfResult, p *vfPair, cfg vfCfg, written map[string][][]byte, tag string) {
	rs := ref.Suites13()[uint16(cfg.Suite.ID)]
	hf := rs.Hash
	sig := cfg.Suite.Name
	if cfg.CIDc > 0 || cfg.CIDs > 0 {
		sig += ":cid"
	}
	cst, err1 := dtlsstate.As13(p.C.Conn.state)
	sst, err2 := dtlsstate.As13(p.S.Conn.state)
	if err1 != nil || err2 != nil {
		return
	}
	ks := cst.KeySchedule
	// generations per sender: epoch 2 = handshake traffic, 3 = application_0, 4.. = successive updates
	secretsOf := func(st *dtlsstate.State13, hs, app0 []byte) map[uint16][]byte {
		m := map[uint16][]byte{2: hs, 3: app0}
		cur := app0
		for e := uint16(4); e < 40; e++ {
			cur = ref.NextTrafficSecret(hf, ref.DTLS13Prefix, cur)
			m[e] = cur
		}

		return m
	}
	sec := map[string]map[uint16][]byte{
		"c": secretsOf(cst, ks.HandshakeTraffic.Client, ks.ClientApplicationTrafficSecret0),
		"s": secretsOf(sst, ks.HandshakeTraffic.Server, ks.ServerApplicationTrafficSecret0),
	}
	// "a passive decoder holding the key log": each endpoint's key log must hand over, keyed by the client random,
	// the secrets this decoder works with (NSS key log labels for TLS 1.3)
	cr := cst.LocalRandom.MarshalFixed()
	wantLog := map[string][]byte{
		"CLIENT_HANDSHAKE_TRAFFIC_SECRET": ks.HandshakeTraffic.Client, "SERVER_HANDSHAKE_TRAFFIC_SECRET": ks.HandshakeTraffic.Server,
		"CLIENT_TRAFFIC_SECRET_0": ks.ClientApplicationTrafficSecret0, "SERVER_TRAFFIC_SECRET_0": ks.ServerApplicationTrafficSecret0,
		"EXPORTER_SECRET": ks.ExporterMasterSecret,
	}
	for _, side := range []*vfSide{p.C, p.S} {
		got := map[string]string{}
		for _, f := range side.Keylog.Lines() {
			if len(f) == 3 && f[1] == vfHex(cr[:]) {
				got[f[0]] = f[2]
			}
		}
		for label, want := range wantLog {
			res.Count("keylog13_lines_expected", 1)
			switch v, ok := got[label]; {
			case !ok:
				vfC10Bad(res, fmt.Sprintf("the %s's key log has no %s line for this session's client random (%d lines in all): a passive decoder holding the key log cannot process the DTLS 1.3 traffic",
					side.Name, label, len(side.Keylog.Lines())), "keylog13:missing-line:"+label, nil)
			case v != vfHex(want):
				vfC10Bad(res, fmt.Sprintf("the %s's key log line %s does not carry the secret the session uses", side.Name, label), "keylog13:wrong-secret:"+label, nil)
			default:
				res.Count("keylog13_lines_checked", 1)
			}
		}
	}
	// the library's own retained generations must be the RFC successor chain
	for _, side := range []struct {
		n  string
		st *dtlsstate.State13
	}{{"c", cst}, {"s", sst}} {
		if side.st.TrafficKeys == nil {
			continue
		}
		tk := side.st.TrafficKeys.Clone()
		for e := uint16(2); e < 40; e++ {
			if g, ok := tk.Write(e); ok && len(g.Secret) > 0 {
				res.Count("generations13_checked", 1)
				if !bytes.Equal(g.Secret, sec[side.n][e]) {
					vfC10Bad(res, fmt.Sprintf("%s write generation for epoch %d is not the RFC 8446 7.2 successor chain of application_traffic_secret_0", side.n, e),
						"traffic-update-chain:"+sig, nil)
				}
			}
		}
	}
	wr := vfNewWireReassembler()
	all := p.Net.Emissions("")
	sort.Slice(all, func(i, j int) bool { return all[i].Ticket < all[j].Ticket })
	cidOf := map[string]int{"c": vfCIDLenOf(p.S.Conn), "s": vfCIDLenOf(p.C.Conn)}
	got := map[string][][]byte{}
	expected := map[string]map[uint16]uint64{"c": {}, "s": {}}
	maxEpoch := map[string]uint16{"c": 2, "s": 2}
	for _, w := range all {
		recs, okp := vfParseDatagram(w.Data, cidOf[w.From])
		if !okp {
			vfC10Bad(res, "emitted DTLS 1.3 datagram does not parse into records", "wire-format13:"+sig, map[string]any{"datagram": vfHex(w.Data)})

			continue
		}
		for _, rc := range recs {
			if !rc.Unified {
				if rc.Type == 22 && rc.Epoch == 0 {
					wr.feed(w.From, 0, w.Ticket, rc.Body)
				}

				continue
			}
			res.Count("records13_seen", 1)
			pr, _, err := ref.ParseRec13(rc.Raw, cidOf[w.From])
			if err != nil {
				vfC10Bad(res, "unified-header record does not parse: "+err.Error(), "wire-format13:"+sig, nil)

				continue
			}
			opened := false
			for e := maxEpoch[w.From] + 1; e >= 2 && !opened; e-- {
				if uint8(e&3) != uint8(rc.Epoch) {
					continue
				}
				tk := ref.TrafficKeys13(rs, ref.DTLS13Prefix, sec[w.From][e])
				pt, rt, seq, err := ref.Open13(rs, tk, pr, expected[w.From][e])
				if err != nil {
					continue
				}
				opened = true
				if e > maxEpoch[w.From] {
					maxEpoch[w.From] = e
				}
				expected[w.From][e] = seq + 1
				res.Count("records13_decrypted", 1)
				switch rt {
				case 23:
					got[w.From] = append(got[w.From], pt)
				case 22:
					wr.feed(w.From, e, w.Ticket, pt)
				}
			}
			if !opened {
				vfC10Bad(res, fmt.Sprintf("%s: unified record (epoch bits %d) emitted by %s does not open under RFC 9147 protection keyed by the endpoint's own traffic secrets", cfg.Suite.Name, rc.Epoch, w.From),
					"passive-decrypt13:"+sig, map[string]any{"record": vfHex(rc.Raw)})
			}
		}
	}
	for _, side := range []string{"c", "s"} {
		for _, wpl := range written[side] {
			n := 0
			for _, g := range got[side] {
				if bytes.Equal(g, wpl) {
					n++
				}
			}
			if n < 1 {
				vfC10Bad(res, fmt.Sprintf("payload written by %s not found among the passively decrypted DTLS 1.3 records", side), "passive-payload13:"+sig, nil)
			} else {
				res.Count("payloads_recovered", 1)
			}
		}
	}
	// transcript and key schedule from ECDHE
	sort.SliceStable(wr.out, func(i, j int) bool { return wr.out[i].Ticket < wr.out[j].Ticket })
	var ch []vfWireMsg
	var hrr, sh *vfWireMsg
	var rest []vfWireMsg
	for i := range wr.out {
		m := wr.out[i]
		switch {
		case m.Type == 1:
			ch = append(ch, m)
		case m.Type == 2 && len(m.Body) >= 34 && vfHex(m.Body[2:34]) == "cf21ad74e59a6111be1d8c021e65b891c2a211167abb8c5e079e09e2c8a8339c":
			hrr = &wr.out[i]
		case m.Type == 2:
			sh = &wr.out[i]
		case m.Epoch == 2:
			rest = append(rest, m)
		}
	}
	if sh == nil || len(ch) == 0 {
		res.Inconc("DTLS 1.3 hellos not found on the wire")

		return
	}
	th := hf()
	if hrr != nil && len(ch) >= 2 {
		h1 := hf()
		h1.Write(vfHS13Encode(ch[0]))
		d := h1.Sum(nil)
		th.Write(append([]byte{254, 0, 0, byte(len(d))}, d...))
		th.Write(vfHS13Encode(*hrr))
		th.Write(vfHS13Encode(ch[len(ch)-1]))
	} else {
		th.Write(vfHS13Encode(ch[len(ch)-1]))
	}
	th.Write(vfHS13Encode(*sh))
	thCHSH := th.Sum(nil)
	// server flight (epoch 2 from s), then client flight
	var sFin, cFin []byte
	var thBeforeSFin, thCHSF, thBeforeCFin []byte
	for _, m := range rest {
		if m.From != "s" {
			continue
		}
		if m.Type == 20 {
			thBeforeSFin = th.Sum(nil)
			sFin = m.Body
		}
		th.Write(vfHS13Encode(m))
		if m.Type == 20 {
			thCHSF = th.Sum(nil)
		}
	}
	for _, m := range rest {
		if m.From != "c" {
			continue
		}
		if m.Type == 20 {
			thBeforeCFin = th.Sum(nil)
			cFin = m.Body
		}
		th.Write(vfHS13Encode(m))
	}
	if len(cst.KeyAgreementSecret) > 0 && thCHSF != nil {
		want := ref.KeySchedule13(hf, ref.DTLS13Prefix, cst.KeyAgreementSecret, thCHSH, thCHSF)
		cmp := func(name string, got, w []byte) {
			res.Count("schedule13_checked", 1)
			if !bytes.Equal(got, w) {
				vfC10Bad(res, fmt.Sprintf("DTLS 1.3 %s differs from the RFC 8446 key schedule recomputed from the key-agreement secret and the wire transcript (hrr=%v)", name, hrr != nil),
					"key-schedule13:"+name+":"+sig, nil)
			}
		}
		cmp("client_handshake_traffic_secret", ks.HandshakeTraffic.Client, want.ClientHS)
		cmp("server_handshake_traffic_secret", ks.HandshakeTraffic.Server, want.ServerHS)
		cmp("client_application_traffic_secret_0", ks.ClientApplicationTrafficSecret0, want.ClientApp0)
		cmp("server_application_traffic_secret_0", ks.ServerApplicationTrafficSecret0, want.ServerApp0)
		cmp("exporter_master_secret", ks.ExporterMasterSecret, want.ExporterMS)
		if sFin != nil && !bytes.Equal(sFin, ref.Finished13(hf, ref.DTLS13Prefix, want.ServerHS, thBeforeSFin)) {
			vfC10Bad(res, "server Finished verify_data differs from RFC 8446 4.4.4", "finished13:server:"+sig, nil)
		} else if sFin != nil {
			res.Count("finished13_ok", 1)
		}
		if cFin != nil && !bytes.Equal(cFin, ref.Finished13(hf, ref.DTLS13Prefix, want.ClientHS, thBeforeCFin)) {
			vfC10Bad(res, "client Finished verify_data differs from RFC 8446 4.4.4", "finished13:client:"+sig, nil)
		} else if cFin != nil {
			res.Count("finished13_ok", 1)
		}
		// exporter (RFC 8446 7.5)
		for _, side := range []*vfSide{p.C, p.S} {
			st, ok := side.Conn.ConnectionState()
			if !ok {
				continue
			}
			out, err := st.ExportKeyingMaterial("EXPORTER-verif-a", nil, 48)
			if err != nil || !bytes.Equal(out, ref.Exporter13(hf, ref.DTLS13Prefix, want.ExporterMS, "EXPORTER-verif-a", nil, 48)) {
				vfC10Bad(res, fmt.Sprintf("DTLS 1.3 ExportKeyingMaterial on %s differs from the RFC 8446 7.5 exporter (err %v)", side.Name, err), "exporter13", nil)
			} else {
				res.Count("exporter13_ok", 1)
			}
		}
	}
	res.NonTrivial("session13/" + tag)
}

func vfC10Session(t *testing.T, res *vfResult, idx int, si vfSuiteInfo) {
	r := vfRand("C10/session", idx)
	cfg := vfBaseCfg(si, "ecdsa")
	if si.Auth == "rsa" {
		cfg.CertKind = "rsa"
	}
	if si.Auth == "tls13" {
		cfg.CVer, cfg.SVer = "13", "13"
		cfg.HelloVerify = idx%2 == 0
	} else {
		cfg.HelloVerify = r.IntN(2) == 0
		cfg.EMSc = []ExtendedMasterSecretType{RequestExtendedMasterSecret, DisableExtendedMasterSecret}[r.IntN(2)]
		cfg.EMSs = cfg.EMSc
		cfg.Store = idx%5 == 4 && si.Auth != "tls13"
		cfg.ClientAuth, cfg.ClientCert, cfg.Verify = []ClientAuthType{NoClientCert, RequireAndVerifyClientCert}[r.IntN(2)], true, true
		if si.Auth == "psk" || si.Auth == "ecdhepsk" {
			cfg.ClientAuth = NoClientCert
		}
		if cfg.Store {
			cfg.ClientAuth = NoClientCert
		}
	}
	switch idx % 3 {
	case 1:
		cfg.CIDc, cfg.CIDs = 4, 8
	case 2:
		cfg.CIDc, cfg.CIDs, cfg.Padding = 0, 5, true
	}
	cfg.MTU = []int{0, 0, 200}[r.IntN(3)]
	if cfg.Is13() && cfg.MTU > 0 {
		cfg.MTU = 300
	}
	var cStore, sStore *vfMemStore
	rounds := 1
	if cfg.Store {
		cStore, sStore, rounds = vfNewMemStore("c"), vfNewMemStore("s"), 2
	}
	for round := 0; round < rounds; round++ {
		n := vfNewNet()
		var co []ClientOption
		var so []ServerOption
		if cfg.Store {
			co, so = cfg.Options(cStore, sStore)
		} else {
			co, so = cfg.Options(nil, nil)
		}
		p, err := vfNewPair(n, co, so)
		res.Eval(1)
		if err != nil {
			res.Count("session_config_rejected", 1)

			return
		}
		if ce, se := p.Handshake(time.Minute); ce != nil || se != nil {
			res.Count("session_handshake_failed", 1)
			res.Seen("session_failures", fmt.Sprintf("%s: %v / %v", cfg.FP(), vfErrClass(ce), vfErrClass(se)))
			p.Close()
			synctest.Wait()

			return
		}
		p.C.StartPump()
		p.S.StartPump()
		written := map[string][][]byte{}
		if idx >= 100000 && cfg.Is13() {
			// a long-lived connection: more than 2^16 records in one epoch (the wire carries 16 bits of the record
			// number, the nonce uses all of it)
			for k := 0; k < 65536+40; k++ {
				msg := []byte(fmt.Sprintf("c10-long-%d", k))
				if _, err := p.C.Conn.Write(msg); err == nil {
					written["c"] = append(written["c"], msg)
				}
				if k%512 == 511 {
					synctest.Wait()
				}
			}
			res.Count("long_epoch_sessions", 1)
			time.Sleep(2 * time.Second)
			synctest.Wait()
			if got := len(p.S.ReadsSnapshot()); got < len(written["c"]) {
				vfC10Bad(res, fmt.Sprintf("%s: %d payloads written in one epoch, the library's own peer delivered %d: records beyond 2^16 are not sealed the way they are opened (RFC 9147 nonce = write_iv XOR the full 64-bit record number)", cfg.Suite.Name, len(written["c"]), got),
					"long-epoch-delivery:"+cfg.Suite.Name, nil)
				p.Close()
				synctest.Wait()

				return
			}
		}
		for k := 0; k < 4; k++ {
			for _, side := range []*vfSide{p.C, p.S} {
				msg := append([]byte(fmt.Sprintf("c10-%d-%d-%s-%d-", idx, round, side.Name, k)), vfRandBytes(r, []int{16, 1, 300, 1000}[k])...)
				if _, err := side.Conn.Write(msg); err == nil {
					written[side.Name] = append(written[side.Name], msg)
				}
			}
			if cfg.Is13() && k == 1 {
				_ = p.C.Conn.UpdateKeys(t.Context(), KeyUpdateOptions{RequestPeerUpdate: true})
			}
			if cfg.Is13() && k == 2 {
				_ = p.S.Conn.UpdateKeys(t.Context(), KeyUpdateOptions{})
			}
		}
		time.Sleep(200 * time.Millisecond)
		synctest.Wait()
		tag := fmt.Sprintf("%s/%d/%d", cfg.FP(), idx, round)
		if cfg.Is13() {
			vfC10Session13(res, p, cfg, written, tag)
		} else {
			vfC10Session12(res, p, cfg, written, tag, round == 1)
		}
		res.Count("sessions_decoded", 1)
		res.Sample(map[string]any{"session": tag, "records_on_wire": len(n.Emissions("")), "payloads_written": len(written["c"]) + len(written["s"])})
		res.Count("sessions/"+si.Name, 1)
		p.Close()
		synctest.Wait()
	}
}

func TestVF_C10(t *testing.T) {
	vfGetPKI()
	res := vfNewResult("C10", "(A) PRNG draws per function (PRF family, key block) and per cipher suite x header layout x direction "+
		"(library seals/reference opens and reference seals/library opens; sequence numbers incl. 0, 2^16-1, 2^48-1; epochs; CIDs 1..20 B; "+
		"padding; payloads 0..4000 B), HKDF labels and DTLS 1.3 record protection; (B) live sessions per suite and layout decoded passively "+
		"from the key log / key schedule with transcript, verify_data, master secret, exporter and key-log line recomputed from the wire. "+
		"Distinct = distinct draw or session")
	res.Assume("reference = internal/zzverifref (std + x/crypto primitives only), validated against RFC 5869/8448/3610 vectors in setup and below",
		"the DTLS 1.3 AEAD nonce uses the 64-bit record sequence number without the epoch (RFC 9147 Section 4)")
	if err := ref.SelfTest(); err != nil {
		res.Inconc("reference implementation fails its published vectors: " + err.Error())
		res.Finish(t)

		return
	}
	res.Count("reference_vectors_ok", 1)
	draws := vfPick(300, 20000)
	vfC10PRF(res, draws)
	vfC10KeyAgreement(res, vfPick(40, 400))
	var jobs []func()
	for _, si := range vfSuites12 {
		si := si
		jobs = append(jobs, func() { vfC10Suite12(res, si, vfPick(60, 3000)) })
	}
	for _, si := range vfSuites13 {
		si := si
		jobs = append(jobs, func() { vfC10Suite13(res, si, vfPick(60, 3000)) })
	}
	vfParallel(len(jobs), func(_, i int) { jobs[i]() })
	suites := vfAllSuites()
	per := vfPick(6, 90)
	vfBubbles(t, per*len(suites), func(t *testing.T, i int) { vfC10Session(t, res, i, suites[i%len(suites)]) })
	vfBubbles(t, vfPick(1, 3), func(t *testing.T, i int) {
		vfC10Session(t, res, 100000+3*i, vfSuiteByName([]string{"13-GCM128", "13-CHACHA", "13-GCM256"}[i]))
	})
	for _, s := range suites {
		if res.Get("sessions/"+s.Name) == 0 {
			res.Inconc("no session decoded for suite " + s.Name)
		}
	}
	res.Floor("lib_to_ref_ok", 100)
	res.Floor("ref_to_lib_ok", 100)
	res.Floor("lib_to_ref13_ok", 30)
	res.Floor("ref_to_lib13_ok", 30)
	_ = strings.Join
	res.Finish(t)
}
