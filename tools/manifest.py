#!/usr/bin/env python3
"""Regenerates /verif/MANIFEST.json from the table below (keeps it schema-valid at all times)."""
import json
import os

VERIF = os.path.dirname(os.path.dirname(os.path.abspath(__file__)))

# id -> (level category, technique, level text, level_note, design_ref)
CHECKS = {
    "C01": ("exploration",
            "runtime monitoring: field-by-field agreement oracle over both endpoints' API-visible session after generated "
            "handshakes on a virtual-time adversarial network (testing/synctest)",
            "Every successful pair drawn from the configuration generator (all 20 cipher suites, both versions, dual-stack, "
            "cert/PSK/ECDHE-PSK/resumed) under perfect and faulted delivery is compared field by field (version, suite, 9 "
            "exporter outputs, CIDs, ALPN, SRTP+MKI, both peer chains) and a unique payload must round-trip both ways. "
            "Held = no disagreement on the sessions observed; says nothing about configurations not drawn.",
            "Trusts the harness network (in-memory PacketConn) and Go's synctest virtual clock; crypto randomness is not replayable.",
            "DESIGN.md §4 C01"),
    "C02": ("fault_enumeration",
            "runtime monitoring under enumerated fault masks: real endpoints on a virtual-time network (testing/synctest); "
            "oracle = both HandshakeContext return nil within the retransmission bound, then a payload round trip; "
            "failing masks are delta-debugged to a minimal core",
            "Per handshake variant (15: full ECDSA/RSA, PSK, ECDHE-PSK, client-auth, resumed, MTU 100, CID, CID+MTU, CBC without "
            "hello-verify, DTLS 1.3 direct/HRR/client-auth/MTU 256/dual-stack) every drop-only mask over the first N datagrams of each "
            "direction (N=4 quick, 6 thorough) and every five-action mask for small N is executed, plus PRNG masks for N=10. "
            "Completion is required within H(f)=sum_{i<f+3} min(2^i s,60 s) of virtual time. Unbounded 'any finite loss' is restated "
            "as this bounded-progress law; masks beyond the enumerated prefix are only sampled. The variants are repeated with applications that write three payloads the moment their own Handshake call returns (drop / hold-back masks).",
            "Trusts the in-memory network and synctest's virtual clock; the bound H(f) is a calibrated restatement of 'within the time "
            "the retransmission schedule needs'.",
            "DESIGN.md §4 C02"),
    "C09": ("exploration",
            "runtime monitoring: wire-log decoder checks (epoch, sequence) uniqueness and per-epoch monotonicity of every emitted "
            "record; Go race detector on the sequence-number state; stress on the real scheduler plus virtual-time retransmission runs",
            "Every record emitted in (1) race-detector stress sessions with 8 writers per side, key updates and racing Close per "
            "cipher/CID layout, (2) hundreds/thousands of faulted handshakes (retransmissions, CID, padding, MTU 10..256) and "
            "(3) counter-exhaustion runs is decoded (DTLS 1.3 numbers unmasked+authenticated) and checked for duplicates, order and "
            "the 2^48 limit. Interleavings are sampled, not enumerated: evidence reports distinct emission-order fingerprints. "
            "Export/import continuity is checked by the C19 monitor.",
            "DTLS 1.3 numbers are recovered with the sender's own key material through library code; race reports are verdicts only when "
            "they touch sequence-number/epoch state, others are listed as observations.",
            "DESIGN.md §4 C09"),
    "C11": ("exploration",
            "runtime monitoring against an independent intersection model: generated pairs of option sets, negotiated values read "
            "from the captured hello/key-exchange/CertificateVerify/EncryptedExtensions bytes and from the API; refusal oracle over "
            "both HandshakeContext results and the alert records on the wire",
            "Pairs of option sets are drawn per dimension (version range, suite list, curves, signature schemes, key type / PSK, "
            "EMS policy, SRTP, ALPN, CID) as identical / overlapping in one value with a different order / disjoint. When both sides "
            "complete, version must be the highest common one and suite, group, signature scheme, EMS, SRTP, ALPN must lie in both "
            "policies and in the captured offer; every answered extension must have been offered. When the model finds no common "
            "value neither side may complete and an alert in a form valid for the version must be on the wire if a side was left "
            "waiting. Held = no out-of-policy completion among the pairs drawn (distinct pairs and negotiated tuples in evidence).",
            "The model is deliberately weaker than the library where the statement leaves latitude (SRTP/ALPN empty intersection, "
            "server preference order, configurations the server rejects locally). A protected DTLS 1.3 alert is recognised by its size.",
            "DESIGN.md §4 C11"),
    "C12": ("fault_enumeration",
            "runtime differential monitoring: the library's FragmentBuffer and fragmentHandshake against an independent byte-coverage "
            "reassembler over enumerated partitions, permutations and interleavings; end-to-end handshakes at tiny MTUs on the simnet",
            "Receiver: all message lengths <= L, all compositions into <= k fragments, all arrival permutations, a zero-length fragment "
            "at every cut offset / an exact duplicate at every arrival position (exhaustive for the small space), plus PRNG interleavings "
            "of three message sequences with multi-fragment records. After every pushed record the surfaced messages must equal the "
            "reference's (content, order, once, never early; retransmission flag). Sender: every (length, MTU) pair. End to end: "
            "handshakes of every variant at MTU 32/60/100 with reordered datagrams must complete and obey the MTU on the wire.",
            "Fragments are assumed to partition the message (the property's quantifier); overlapping or inconsistent fragments are C08 input.",
            "DESIGN.md §4 C12"),
    "C13": ("fault_enumeration",
            "runtime monitoring of a real server driven by a scripted raw client on a held virtual-time network: every server "
            "emission is attributed to the script step before it; the server's key-exchange state is read at each quiescent point",
            "Exhaustive table: 9 server/client configurations (DTLS 1.2 cert/PSK/CID, DTLS 1.3 with and without selected_group, "
            "CID, dual-stack servers) x 4 hello shapes x ~70 second-hello variants (cookie removed/empty/flipped/truncated/extended/"
            "zero/stale from an earlier connection; right cookie with version, random, session id, suites, compression or any "
            "extension edited/removed/reordered) plus scripts with repeated first hellos, seven kinds of non-hello datagrams, a "
            "hello carrying a never-issued cookie as the first datagram, and 10-minute silences; thorough adds 30 000 PRNG scripts. "
            "Before a hello the model calls valid was delivered the server may emit only cookie requests (alerts counted), at "
            "most one per delivered hello, none in a step without a hello, and may hold no ephemeral key pair.",
            "The genuine hellos come from a puppet pion client (single-fragment hellos, classical groups); 'valid' for DTLS 1.3 "
            "follows RFC 8446 4.1.2 (key_share replaced after selected_group, padding).",
            "DESIGN.md §4 C13"),
    "C14": ("fault_enumeration",
            "runtime monitoring of connection histories over shared instrumented session stores on the virtual-time network: wire "
            "classification (abbreviated/full, offered and answered session id, randoms, alerts per sender) joined with store "
            "snapshots, both API results, exporter output and a payload round trip",
            "Per configuration (PSK, ECDSA, ECDSA+CID, RSA with verification, CBC without hello-verify): full handshake, then each "
            "of 14 store manipulations / in-transit hello rewrites, the second connection also under another suite and four "
            "connection-ID layouts and under PRNG drop/duplicate/reorder masks, then a third connection. An abbreviated handshake that "
            "both sides complete requires equal stored secrets for the offered id, fresh randoms, fresh exporter output, CIDs as "
            "the second handshake's hellos negotiated and flowing data; otherwise full handshake or failure on both sides; a side "
            "that emitted an alert on the resumed session must have dropped it from its store and not offer it again.",
            "Secrets are compared as byte strings, except that HMAC-equivalent keys (zero-extended) are not generated as a mismatch.",
            "DESIGN.md §4 C14"),
    "C15": ("exploration",
            "runtime monitoring of address-migration scenarios: a held virtual-time network on which the harness chooses the "
            "source address and instant of every delivery, with byte accounting per address, RemoteAddr() sampled at every "
            "quiescent point and a wire scan for connection IDs; plus a real listener on loopback UDP with clients that re-send "
            "from fresh sockets",
            "14 scenarios (genuine rebinding and return, dropped challenge, late / third-address / forged responses under the "
            "real keys, replayed, stale, garbage records from a new address, two candidates, writes during validation, altered "
            "connection ID, many small records) x DTLS 1.2/1.3 x five connection-ID layouts x return-routability negotiated or "
            "stripped from the hello x either endpoint observed. After every step: bytes emitted to an address not yet switched to "
            "<= 3 x bytes delivered from it and only if a fresh genuine record came from it; RemoteAddr() changes only with RRC "
            "negotiated, after such a record and a datagram the peer produced after seeing the challenge, delivered from that "
            "address within 1 s; every protected record carries the receiver's ID; altered IDs are not delivered. Listener: "
            "payloads of 4 clients x 3 socket changes must surface on the owning connection only.",
            "The challenge/response records are encrypted: a response is recognised as 'a datagram the peer produced after it had "
            "received the challenge'. The library never uses more than about a third of the 3x budget, so a larger factor is not "
            "observable by this workload (stated in DESIGN.md).",
            "DESIGN.md §4 C15"),
    "C16": ("exploration",
            "runtime monitoring of API-call histories in virtual time (every Handshake/Read/Write/Close call logged with its "
            "return), alert records decrypted with the reference implementation and counted, goroutine inspection of the "
            "synctest bubble after teardown; Go race detector over concurrent callers on the real scheduler",
            "Five configurations x both roles: on established connections Close by 1-3 concurrent callers / repeated / with a "
            "Write parked in the socket / both sides at once / with accessor callers, forged authentic fatal alert and "
            "close_notify, read deadline, write deadline on a blocked socket; during the handshake Close x1/x3, context "
            "cancellation, plaintext fatal alert, Read+Write+Close, each placed after the k-th delivered datagram (k = 0..8, "
            "thorough 0..14); before the handshake Read/Write with a deadline and no peer. Every call must return (10 s / 90 s "
            "virtual), with closed/EOF errors; at most one close_notify per endpoint and one when an open session is closed; the "
            "peer's Read returns EOF; no library goroutine remains. Stress: 150 (3000) iterations of 2 readers, 2 writers, "
            "accessor and deadline callers per side with 1-3 racing Close calls under -race; distinct event orders in evidence.",
            "Race reports count as verdicts when a stack contains a user-facing Conn method; the handshake-internal race "
            "(CommitNegotiatedExtensions vs the read loop) is listed as an observation. Interleavings are sampled.",
            "DESIGN.md §4 C16"),
    "C19": ("fault_enumeration",
            "runtime monitoring of export/resume round trips on the virtual-time network: payload delivery both ways, exporter "
            "and negotiated-parameter comparison at the API, (epoch, sequence) scan of the wire before and after the export; "
            "corrupted serialisations fed through the real UnmarshalBinary/ResumeWithOptions path with a process-survival watchdog",
            "Every DTLS 1.2 suite x {no CID, 4-byte CID, zero-length/6-byte CID} x SRTP/ALPN x export on client / server / both "
            "in turn x export point (i, j) payloads exchanged before (0..1 quick, 0..3 thorough): the old Conn is cut off "
            "silently, a new one resumed from MarshalBinary output on the same address; two or three payloads each way must "
            "arrive intact, exactly once; State.ExportKeyingMaterial and ConnectionState fields equal the original's; no wire "
            "(epoch, seq) repeats and numbers continue upwards. Corruption: every truncation length, bit flip / zero / 0xff at "
            "every (quick: every third) byte offset, junk appended, for three configurations: no panic, the peer never "
            "delivers a payload nobody wrote; outcomes counted per class. DTLS 1.3 state must be refused.",
            "gob carries no integrity protection: altered bytes outside the key-relevant fields legitimately give a working "
            "connection, so 'cannot authenticate records' is judged as 'the peer accepts nothing that was not written'.",
            "DESIGN.md §4 C19"),
    "C20": ("exploration",
            "runtime monitoring of DTLS 1.3 sessions with concurrent writers and UpdateKeys callers under injected loss, "
            "duplication and delay in virtual time, and under the Go race detector on the real scheduler; the complete wire log "
            "is decrypted by the independent reference implementation along the RFC 8446 traffic-update chain",
            "Scripts: 3 suites x {no CID, CID} x {no faults, drops, drops+duplicates, drops+duplicates+delays, 4 s blackhole of "
            "the ACK direction} x {1, 3, 6} UpdateKeys per side x 1-4 writers per side x peer update requested "
            "never/always/alternately (90 quick, 1080 thorough) plus 24/400 race-detector runs. Every emitted protected record "
            "must decrypt under generation k >= 0 of the chain from that side's application_traffic_secret_0, generations never "
            "decrease in emission order, no (generation, seq) repeats; every payload is read at most once, unmodified, only if "
            "written, and is read when its datagram was delivered at once; UpdateKeys returns nil only with a peer datagram "
            "delivered during the call and a write generation advanced; a record forged under the next, unauthorised "
            "generation is not delivered.",
            "All earlier read generations are retained by this implementation, so the 'no longer retains' clause has no "
            "observable instance; schedules are sampled, not enumerated.",
            "DESIGN.md §4 C20"),
    "C18": ("exploration",
            "runtime law monitoring of every codec: decode/re-encode/decode fixed-point, value equality, trailing-junk and "
            "truncation laws, datagram partition law, on harvested real encodings, their systematic mutations and generated values",
            "About 70 codec instances (record headers legacy/CID/unified, records, inner plaintext, every handshake message under each "
            "key-exchange context, alerts, ACK, RRC, every extension type, three datagram unpackers). Inputs: every message, record and "
            "extension of real handshakes of all variants, each truncated at every length and mutated per byte (+1,-1,0x80,0,0xff), junk "
            "appended, foreign codecs' encodings, random short strings; plus generated values for fixed-layout codecs. Held = no law "
            "broken on the accepted inputs seen (count per codec in evidence); decoders never panicked.",
            "Value equality treats nil and empty slices as equal; the mixed-CID discard of UnpackDatagram13 is exempted from the partition law "
            "(RFC 9147 Section 4); RecordLayer.Unmarshal is tested under its one-record contract.",
            "DESIGN.md §4 C18"),
    "C10": ("exploration",
            "runtime differential monitoring against an independent reference implementation of the RFC formulas, in both "
            "directions, plus passive decoding of live sessions' complete wire logs from the key log / key schedule",
            "(A) PRNG draws: PRF family, key block, every one of the 17 DTLS 1.2 suites x {plain, tls12_cid} x {client->server, "
            "server->client} with library-seals/reference-opens AND reference-seals/library-opens (edge sequence numbers, epochs, "
            "CID lengths, padding, payload sizes), HKDF-Expand-Label with the dtls13 prefix, DTLS 1.3 record protection and "
            "sequence-number masking for the three AEADs. (B) live sessions for every suite/layout (full, resumed, HRR, key updates): "
            "every emitted record must decrypt under the reference; transcript, verify_data, (extended) master secret, RFC 5705 / "
            "RFC 8446 exporter, DTLS 1.3 key schedule from the ECDHE secret, traffic-update chain and both key-log lines are "
            "recomputed from the wire and compared. Held = no disagreement on the draws and sessions observed.",
            "The reference (internal/zzverifref: std + x/crypto primitives, own CCM/PRF/HKDF/key schedule) is validated against RFC "
            "5869, RFC 8448 and RFC 3610 vectors; DTLS 1.3 secrets are read from the endpoint's key schedule (no 1.3 key log exists).",
            "DESIGN.md §4 C10"),
    "C08": ("exploration",
            "runtime monitoring under hostile input: process-survival and livelock watchdogs with per-case attribution, "
            "synctest deadlock detector, still-serves-traffic oracle, stated-limit assertions and a plateau test of every "
            "per-connection container",
            "Hostile datagrams from five generators (raw bytes, record grammar, handshake-fragment grammar, mutated genuine traffic, "
            "records correctly sealed with the session keys but malformed inside, incl. all-padding CBC records) are injected into clients "
            "and servers after every k-th genuine datagram of 15 handshake variants (all decrypt paths) and into established connections. "
            "Unparseable (by the library's own unpack functions) or unauthentic batches must leave the handshake completing and data "
            "flowing; any batch must leave the process alive and making progress; queue/fragment limits are asserted; container sizes at "
            "N/2N/4N hostile datagrams (incl. authentic retransmissions of the final flight) must plateau.",
            "Parseable epoch-0 plaintext is only required not to crash/wedge/bloat (DTLS cannot authenticate epoch 0). A process death or "
            "hang is attributed by re-running the in-flight cases alone.",
            "DESIGN.md §4 C08"),
    "C17": ("exploration",
            "runtime monitoring in exact virtual time (testing/synctest): emission instants compared with == against the "
            "retransmission law; lock-step delivery (deliver one datagram, wait for quiescence) attributes emissions to receipt vs timer",
            "For every handshake variant x role x number of datagrams received before total silence x interval {1 s, 100 ms, 3 s} x "
            "backoff on/off the silenced endpoint's emissions over 10 virtual minutes must be exactly t0+sum min(2^i I,60 s) (or t0+kI), "
            "nothing after a cookie request or after completion (DTLS 1.3 ticket flights follow the law); interval-restore runs (new data, "
            "and new data followed by the peer's retransmissions); completed endpoints fed garbage / replayed flights / authentic "
            "retransmissions of the peer's final message must emit at most flight+1 datagrams per datagram received and nothing for garbage; "
            "closed-system runs under finite fault masks must quiesce (self-sustaining exchanges hit the simnet emission cap). "
            "'No storms' is decided as these per-datagram and quiescence bounds, not as an absolute datagram budget.",
            "Flights are segmented causally (emissions between two reads of the endpoint at one virtual instant).",
            "DESIGN.md §4 C17"),
    "C03": ("fault_enumeration",
            "runtime monitoring with a rogue-but-competent peer: genuine endpoint with manipulated credentials (other CA, wrong "
            "name, expired, stolen chain behind a lying crypto.Signer, wrong PSK) and flights rewritten through the tag-guarded "
            "FilterFlight hook (omitted Certificate / ServerKeyExchange / CertificateVerify with Finished recomputed); oracle = "
            "independent acceptance table",
            "The deviation table is executed exhaustively for DTLS 1.2 and 1.3: rogue server x key type x client verification on/off, "
            "rogue client x the five ClientAuthType policies, wrong PSK on either side; thorough crosses it with EMS off, CID, no "
            "hello-verify and small MTU. Expected-reject rows must leave the honest side without an established connection and without "
            "any application data; expected-accept rows are positive controls and must succeed.",
            "The acceptance table encodes the documented policy semantics (RequestClientCert with missing/bad proof is not judged). "
            "Cryptographic forgery beyond omission/substitution is out of reach of an adversary without keys and is not attempted.",
            "DESIGN.md §4 C03"),
    "C04": ("exploration",
            "runtime monitoring with an on-path adversary (no keys) that rewrites one logical plaintext handshake message "
            "consistently in every copy; oracle on both endpoints' HandshakeContext results and negotiated parameters",
            "Per mode ({ECDHE-cert+client-auth, PSK, ECDHE-PSK} x EMS on/off x hello-verify on/off, resumed x EMS, DTLS 1.3 direct/HRR) and "
            "per logical message (sender, type, first/second/every occurrence): one bit flip per stratified body position (every position "
            "in thorough) and ~55 field rewrites (suites dropped/reordered/appended, each extension stripped/edited/list-shortened/reordered, "
            "unknown extension, randoms, session id, cookie, compression, versions). No endpoint that sent or received the altered message "
            "may return nil. For the two messages RFC 6347 keeps out of the transcript (cookie-less first ClientHello, HelloVerifyRequest) "
            "the monitored consequence is that no negotiated parameter differs from the untampered run.",
            "Only epoch-0 messages can be altered without keys; DTLS 1.3 field rewrites need unfragmented messages (MTU 4000). Runs cut by the "
            "simnet emission cap (DTLS 1.3 endpoints flooding each other under persistent tampering) are counted, not judged.",
            "DESIGN.md §4 C04"),
    "C05": ("exploration",
            "runtime monitoring in lock step: the router holds each genuine record, delivers every mutant one at a time, waits "
            "for quiescence and observes the receiver's Read log and emissions, then releases the genuine record",
            "All 20 suites x CID layouts {none, 4/4, 0/8, 8/0} x record padding x payload sizes {0,1,15,16,17,255,1200,8000} x both "
            "directions (stratified in quick, full product in thorough). Mutants per record: every bit of the header (and of short records), "
            "one bit per body byte, content type, version, epoch, sequence number, length field, CID, unified-header bits, truncation at every "
            "length, in-record extension, re-framing under the other header form, the same-index record of a parallel identical session. "
            "Held = no mutant delivered anything, caused any emission or closed the connection, and the genuine record was then delivered "
            "exactly once.",
            "Mutants whose content type becomes change_cipher_spec or whose epoch becomes 0 do not claim protection (statement's own "
            "exemption); timing side channels of the padding check are not observable by this technique.",
            "DESIGN.md §4 C05"),
    "C06": ("fault_enumeration",
            "runtime monitoring of recorded histories with unique payloads: captured records are re-delivered following enumerated "
            "arrival scripts in lock step; oracle = multiplicity <= 1 plus an independent sliding-window model over the decoded wire "
            "sequence numbers",
            "Exhaustive: every arrival script of length <= n+2 over n <= 3 (quick) / 4 (thorough) records. Window-edge families for 16 window "
            "sizes (1..200, incl. sizes that are not multiples of 64): a record held until W-1 / W / W+1 newer ones were accepted, replayed "
            "repeatedly. Bursts, full reversal within the window, DTLS 1.3 scripts spanning a KeyUpdate, PRNG scripts over 120-300 records. "
            "Five configurations (GCM, CBC, CCM-8 with CID, DTLS 1.3 GCM, DTLS 1.3 ChaCha20 with CID).",
            "A record whose first arrival is W or more behind the newest accepted one may be dropped or delivered (not judged).",
            "DESIGN.md §4 C06"),
    "C07": ("exploration",
            "runtime monitoring of the wire log: every datagram an endpoint emits is searched for secrets in clear and every "
            "record header is classified; injected epoch-0 application data; exporter outputs compared with a family of public derivations",
            "Generated sessions for every suite/version/CID layout (perfect and faulted delivery, 1-4 writers per side, started before the "
            "handshake when no timer is needed) and real-scheduler runs with Writes, Close and forged alerts at PRNG instants during a lossy "
            "handshake. Needles: unique >=24-byte payload markers, both Finished verify_data, and for DTLS 1.3 the plaintext of every handshake "
            "and post-handshake message after ServerHello (taken from the endpoints' handshake caches). Record rule: only the message types the "
            "protocol sends in clear may appear in epoch-0 records; application/tls12_cid records never with epoch 0. Exporter outputs are "
            "checked against P_hash / HKDF exporters keyed by empty, zero or public values.",
            "Secrecy is not observable; (d) is refutation against an explicit finite family. Timing channels are out of reach.",
            "DESIGN.md §4 C07"),
}

NOT_YET = "monitor not built yet in this session (see DESIGN.md for the planned design)"


def main():
    props = [json.loads(l) for l in open(os.path.join(VERIF, "properties.jsonl"))]
    checks = []
    na = []
    for p in props:
        pid = p["id"]
        if pid in CHECKS:
            cat, tech, text, note, ref = CHECKS[pid]
            checks.append({
                "property_id": pid,
                "quick_cmd": "./check %s --tier quick" % pid,
                "thorough_cmd": "./check %s --tier thorough" % pid,
                "evidence_file": "/verif/evidence/%s.json" % pid,
                "replay_cmd_template": "./check %s --replay {path}" % pid,
                "engine": "simnet+monitors",
                "level_claimed": {"category": cat, "text": text, "design_ref": ref},
                "level_note": note,
                "technique": tech,
            })
        else:
            na.append({"property_id": pid, "reason": NOT_YET})
    hooks_commits = []
    hc = os.path.join(VERIF, "hooks_commits.txt")
    if os.path.exists(hc):
        hooks_commits = [l.strip() for l in open(hc) if l.strip()]
    m = {
        "version": 1,
        "setup_cmd": "./check --setup",
        "hooks": {
            "guard": "verif",
            "enable": "cd /repo && GOTOOLCHAIN=local GOFLAGS=-mod=mod GOPROXY=off GOSUMDB=off go1.26.8 test -c -tags verif "
                      "-overlay /verif/build/overlay.<pid>.json (harness files are injected with -overlay; /repo is never copied)",
            "baseline_off_cmd": "cd /repo && GOPROXY=off go test -mod=mod -json -vet=off -count=1 -timeout 25m ./...",
            "source_commits": hooks_commits,
            "add_only": True,
        },
        "engines": [
            {"name": "simnet+monitors", "path": "/verif/harness/root",
             "serves_properties": sorted(CHECKS),
             "kind_free_text": "runtime monitoring: real pion/dtls endpoints on an in-memory adversarial network under "
                               "testing/synctest virtual time, wire-log + API-boundary oracles, Go race detector; "
                               "driver /verif/check builds from /repo's working tree with go test -overlay"},
        ],
        "checks": checks,
        "not_applicable": na,
        "notes": "Technique family: runtime monitoring and sanitizers only. Exit 3 + INCONCLUSIVE line = the run could not decide "
                 "(watchdog, floor of observed events not met); never folded into pass or violation. known_findings.json lists "
                 "genuine defects (status known) and repaired ones (status fixed, suppress nothing).",
    }
    with open(os.path.join(VERIF, "MANIFEST.json"), "w") as fh:
        json.dump(m, fh, indent=1)
        fh.write("\n")
    print("MANIFEST.json: %d checks, %d not_applicable" % (len(checks), len(na)))


if __name__ == "__main__":
    main()
