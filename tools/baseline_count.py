#!/usr/bin/env python3
"""Counts pass/fail tests in a `go test -json` log and compares with BASELINE.json stable_pass."""
import json, sys
base = set(json.load(open('/root/.vp/BASELINE.json'))['stable_pass'])
res = {}
for line in open(sys.argv[1], errors='replace'):
    line = line.strip()
    if not line.startswith('{'):
        continue
    try:
        e = json.loads(line)
    except Exception:
        continue
    if e.get('Action') in ('pass', 'fail', 'skip') and e.get('Test'):
        res[e['Package'] + '::' + e['Test']] = e['Action']
passed = {k for k, v in res.items() if v == 'pass'}
failed = {k for k, v in res.items() if v == 'fail'}
print('pass=%d fail=%d baseline=%d missing_from_pass=%d' % (len(passed), len(failed), len(base), len(base - passed)))
for k in sorted(base - passed)[:20]:
    print('  MISSING', k, res.get(k))
for k in sorted(failed)[:20]:
    print('  FAIL', k)
