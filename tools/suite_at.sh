#!/bin/bash
# usage: tools/suite_at.sh <commit>  — runs the pinned suite on a scratch worktree of /repo at <commit>, prints the count line
c=${1:-HEAD}
sha=$(git -C /repo rev-parse --short "$c")
wt=/tmp/suite_wt_$sha
git -C /repo worktree remove --force "$wt" >/dev/null 2>&1
git -C /repo worktree add --detach "$wt" "$sha" -q || exit 2
(cd "$wt" && GOPROXY=off go test -mod=mod -json -vet=off -count=1 -timeout 25m ./... > /tmp/suite_$sha.json 2>/tmp/suite_$sha.err)
echo "$sha $(python3 /verif/tools/baseline_count.py /tmp/suite_$sha.json)"
git -C /repo worktree remove --force "$wt" >/dev/null 2>&1
