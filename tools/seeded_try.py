#!/usr/bin/env python3
"""Runs checks against one independently seeded code change.
usage: tools/seeded_try.py <ID> <A|B> [--tier quick] [--checks C05,C06] [--apply]
Default: the patch is applied in a scratch worktree (/tmp/seed/apply) and mapped over /repo with
--overlay-extra, so /repo itself is not touched while background runs use it. With --apply the patch
is applied to /repo (git apply), the checks run, and it is undone (git checkout -- .) afterwards."""
import json, os, shutil, subprocess, sys

VERIF = os.path.dirname(os.path.dirname(os.path.abspath(__file__)))
SRC = "/tmp/seed"


def sh(cmd, **kw):
    return subprocess.run(cmd, shell=True, text=True, stdout=subprocess.PIPE, stderr=subprocess.STDOUT, **kw)


def main():
    pid, letter = sys.argv[1], sys.argv[2]
    tier = "quick"
    checks = [pid]
    apply = "--apply" in sys.argv
    for i, a in enumerate(sys.argv):
        if a == "--tier":
            tier = sys.argv[i + 1]
        if a == "--checks":
            checks = sys.argv[i + 1].split(",")
    dest = os.path.join(VERIF, "seeded", pid, letter)
    os.makedirs(dest, exist_ok=True)
    rounds = {"A": "", "B": "", "C": "2", "D": "2", "E": "3", "F": "3", "G": "4", "H": "4", "I": "6", "J": "6", "K": "7", "L": "7", "M": "8"}  # later rounds live in /tmp/seed2, /tmp/seed3
    out = os.path.join(SRC + rounds.get(letter, ""), "out_" + pid)
    for src, dst in ((letter + ".patch.diff", "patch.diff"), (letter + "_demo_test.go", "demo_test.go.txt"), (letter + ".meta.json", "meta.json")):
        # (an existing copy wins: patches are kept rebased onto /repo's HEAD under /verif/seeded)
        if os.path.exists(os.path.join(out, src)) and not os.path.exists(os.path.join(dest, dst)):
            shutil.copy(os.path.join(out, src), os.path.join(dest, dst))
    patch = os.path.join(dest, "patch.diff")
    results = {}
    if apply:
        r = sh("git -C /repo apply %s" % patch)
        if r.returncode != 0:
            print("patch does not apply to /repo:", r.stdout)
            return 2
        extra = ""
    else:
        wt = os.environ.get("SEED_APPLY", os.path.join(SRC, "apply"))
        if not os.path.isdir(wt):  # scratch worktree of /repo, outside /repo and /verif; remove it when done:
            os.makedirs(os.path.dirname(wt), exist_ok=True)  # git -C /repo worktree remove --force <wt>
            sh("git -C /repo worktree add --detach %s HEAD" % wt)
        sh("git -C %s checkout -- . && git -C %s clean -fdq" % (wt, wt))
        head = sh("git -C /repo rev-parse HEAD").stdout.strip()
        sh("git -C %s checkout -q --detach %s" % (wt, head))  # the scratch tree follows /repo's HEAD
        r = sh("git -C %s apply %s" % (wt, patch))
        if r.returncode != 0:
            print("patch does not apply:", r.stdout)
            return 2
        files = sh("git -C %s diff --name-only" % wt).stdout.split()
        ov = {"Replace": {os.path.join("/repo", f): os.path.join(wt, f) for f in files}}
        ovp = os.path.join(SRC, "overlay_%s_%s_%d.json" % (pid, letter, os.getpid()))
        json.dump(ov, open(ovp, "w"))
        extra = " --overlay-extra " + ovp
    try:
        for c in checks:
            r = sh("cd %s && ./check %s --tier %s%s" % (VERIF, c, tier, extra))
            sigs = [l.strip()[len("signature: "):] for l in r.stdout.splitlines() if l.strip().startswith("signature: ")]
            incon = [l for l in r.stdout.splitlines() if l.startswith("INCONCLUSIVE")]
            results[c] = {"exit": r.returncode, "detected": r.returncode == 1, "signatures": sigs[:12], "inconclusive": incon[:3]}
            print(pid, letter, "check", c, tier, "exit", r.returncode, "signatures:", sigs[:4], incon[:1])
    finally:
        if apply:
            sh("git -C /repo checkout -- .")
    prev = {}
    rp = os.path.join(dest, "result.json")
    if os.path.exists(rp):
        prev = json.load(open(rp))
    prev.setdefault(tier, {}).update(results)
    json.dump(prev, open(rp, "w"), indent=1)
    return 0


if __name__ == "__main__":
    sys.exit(main())
