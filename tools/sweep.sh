#!/bin/bash
# usage: tools/sweep.sh <seed> [tier] [ids...]  — runs the checks one after another, one summary line each
seed=${1:-1}; tier=${2:-quick}; shift 2 2>/dev/null
ids=${@:-C01 C02 C03 C04 C05 C06 C07 C08 C09 C10 C11 C12 C13 C14 C15 C16 C17 C18 C19 C20}
cd "$(dirname "$0")/.."
for c in $ids; do
  out=$(VERIF_SEED=$seed ./check $c --tier $tier 2>&1); rc=$?
  echo "== $c rc=$rc $(echo "$out" | grep -E "seed=$seed" | cut -c1-160)"
  echo "$out" | grep -E "^VIOLATION|^INCONCLUSIVE|signature:" | cut -c1-260
done
