#!/usr/bin/env python3
"""Writes /verif/seeded/README.md from seeded/<ID>/<letter>/{meta.json,result.json}."""
import glob, json, os

VERIF = os.path.dirname(os.path.dirname(os.path.abspath(__file__)))
rows = []
for meta_p in sorted(glob.glob(os.path.join(VERIF, "seeded", "C*", "*", "meta.json"))):
    d = os.path.dirname(meta_p)
    pid, letter = d.split(os.sep)[-2:]
    try:
        meta = json.load(open(meta_p))
    except Exception:
        meta = {}
    res = {}
    rp = os.path.join(d, "result.json")
    if os.path.exists(rp):
        res = json.load(open(rp))
    quick = res.get("quick", {})
    own = quick.get(pid, {})
    first = json.load(open(os.path.join(d, "first_result.json"))) if os.path.exists(os.path.join(d, "first_result.json")) else None
    if first is not None and "quick" in first:  # round 3 keeps the whole first result file
        first = first["quick"].get(pid, {})
    status = json.load(open(os.path.join(d, "status.json"))) if os.path.exists(os.path.join(d, "status.json")) else {}
    rows.append((pid, letter, meta, own, quick, first, status))

out = ["# Independently seeded code changes", "",
       "Each change was written by a fresh sub-agent that was given only the property text and its own scratch git worktree of /repo",
       "(nothing from /verif). Every change compiles, passes the complete pinned suite unedited and comes with the agent's own",
       "demonstration (`demo_test.go.txt`: fails on the changed tree, passes on the original). `patch.diff` applies to /repo with",
       "`git -C /repo apply`; `tools/seeded_try.py <ID> <A|B> [--apply]` runs the checks against it (default: mapped over /repo with",
       "`-overlay`, so /repo is untouched while background runs use it; `--apply` does the literal apply / check / `git checkout -- .`).", "",
       "Letters A, B: first round (20 agents); C, D: second round (20 more agents, asked for less obvious mechanisms); E, F: third round",
       "(20 more agents); G, H: fourth round (20 more agents, who also audited the unmodified tree: see DESIGN.md 8.7); I, J: sixth round (20 more agents, against the tree with the round-five repairs; the fifth round was audits only); K, L: seventh round (20 more agents, each told what all earlier rounds had changed for its property). `patch.orig.diff`, where present, is the",
       "agent's patch as delivered; `patch.diff` is the same change rebased onto the current /repo HEAD. `neutralised` = a later `fix:` commit removed the situation the change needs: its own demonstration passes on HEAD + patch.",
       "`first` = verdict of the owning check's quick tier as it stood when the change arrived; `now` = after the check was strengthened",
       "(what was added is listed in DESIGN.md 8.7).", "",
       "| Change | What was changed | Needs | first | now | Signature(s) reported |", "|---|---|---|---|---|---|"]
for pid, letter, meta, own, quick, first, status in rows:
    summ = (meta.get("summary") or "").replace("|", "/").replace("\n", " ")
    when = (meta.get("manifests_when") or "").replace("|", "/").replace("\n", " ")
    if len(summ) > 260:
        summ = summ[:257] + "..."
    if len(when) > 220:
        when = when[:217] + "..."
    f = "-"
    if first is not None:
        f = "caught" if first.get("detected") else ("inconclusive" if first.get("exit") == 3 else "missed")
    now = "caught" if own.get("detected") else ("inconclusive" if own.get("exit") == 3 else "missed")
    if status.get("status") == "neutralised" and not own.get("detected"):
        now = "neutralised by %s" % status.get("by", "?")
    sigs = "; ".join(own.get("signatures", [])[:2]).replace("|", "/")
    if len(sigs) > 200:
        sigs = sigs[:197] + "..."
    others = [c for c, r in quick.items() if c != pid and r.get("detected")]
    if others:
        sigs += " (also: %s)" % ", ".join(sorted(others))
    out.append("| %s/%s | %s | %s | %s | %s | `%s` |" % (pid, letter, summ, when, f, now, sigs))
n = len(rows)
caught_first = sum(1 for r in rows if r[5] and r[5].get("detected"))
caught_now = sum(1 for r in rows if r[3].get("detected"))
neutral = sum(1 for r in rows if r[6].get("status") == "neutralised" and not r[3].get("detected"))
out += ["", "%d changes; %d caught by the owning check as first built, %d after strengthening, %d neutralised by a later fix." % (n, caught_first, caught_now, neutral), ""]
open(os.path.join(VERIF, "seeded", "README.md"), "w").write("\n".join(out))
print("\n".join(out[-3:]))
