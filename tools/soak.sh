#!/bin/bash
# usage: tools/soak.sh <first-seed> <last-seed> [tier]  — repeated sweeps, prints only non-clean lines (flake hunt)
cd "$(dirname "$0")/.."
for s in $(seq $1 $2); do
  tools/sweep.sh $s ${3:-quick} | grep -v "rc=0" | sed "s/^/seed $s: /"
  echo "seed $s done"
done
