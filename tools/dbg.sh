#!/bin/bash
# Builds the harness against /repo's working tree and runs TestVF_Debug (triage helper, not a check).
set -e
cd /verif
python3 - <<'PY'
import importlib.machinery, importlib.util, os, sys
loader = importlib.machinery.SourceFileLoader("vcheck", "/verif/check")
spec = importlib.util.spec_from_loader("vcheck", loader)
m = importlib.util.module_from_spec(spec)
sys.argv = ["check", "--list"]
try:
    loader.exec_module(m)
except SystemExit:
    pass
ov = m.make_overlay()
out, secs = m.build(".", bool(os.environ.get("DBG_RACE")), ov, "/verif/build/debug.test")
os.remove(ov)
if not out:
    sys.exit(2)
PY
cd /repo
VERIF_DEBUG=1 timeout -s QUIT ${DBG_TIMEOUT:-300} /verif/build/debug.test -test.run '^TestVF_Debug$' -test.v "$@"
